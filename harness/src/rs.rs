//! Thin wrappers over the public rsass API: every call is counted, runs under
//! `catch_unwind`, and renders errors (Display and Debug) under the same guard.
//! Also: an in-memory `Loader` that behaves like a file system (collapses `.`
//! and `..`), logs calls, and can inject faults.

use crate::report::EXECS;
use rsass::input::{Context, LoadError, Loader, SourceFile, SourceName};
use rsass::output::{Format, Style};
use serde::{Deserialize, Serialize};
use std::cell::RefCell;
use std::collections::BTreeMap;
use std::io::Read;
use std::sync::atomic::{AtomicUsize, Ordering};
use std::sync::{Arc, Mutex, Once};

#[derive(Clone, Copy, Debug, PartialEq, Eq, Hash, Serialize, Deserialize, PartialOrd, Ord)]
pub struct Fmt {
    pub compressed: bool,
    pub precision: usize,
}

impl Fmt {
    pub const EXPANDED: Fmt = Fmt {
        compressed: false,
        precision: 10,
    };
    pub const COMPRESSED: Fmt = Fmt {
        compressed: true,
        precision: 10,
    };
    pub fn new(compressed: bool, precision: usize) -> Fmt {
        Fmt {
            compressed,
            precision,
        }
    }
    pub fn to_rsass(self) -> Format {
        Format {
            style: if self.compressed {
                Style::Compressed
            } else {
                Style::Expanded
            },
            precision: self.precision,
        }
    }
}

/// Observable result of one compilation.
#[derive(Clone, Debug, PartialEq, Eq, Hash, Serialize, Deserialize)]
pub enum Out {
    Css(String),
    /// Display text of the error value.
    Err(String),
    /// The library panicked: "<file:line:col>: <message>".
    Panic(String),
}

impl Out {
    pub fn css(&self) -> Option<&str> {
        match self {
            Out::Css(s) => Some(s),
            _ => None,
        }
    }
    pub fn is_err(&self) -> bool {
        matches!(self, Out::Err(_))
    }
    pub fn is_panic(&self) -> bool {
        matches!(self, Out::Panic(_))
    }
    pub fn err(&self) -> Option<&str> {
        match self {
            Out::Err(s) => Some(s),
            _ => None,
        }
    }
    /// First line of the error message (without position rendering).
    pub fn err_head(&self) -> Option<&str> {
        self.err().map(|e| e.lines().next().unwrap_or(""))
    }
    pub fn short(&self) -> String {
        match self {
            Out::Css(s) => format!("Css({:?})", crate::report::truncate(s, 200)),
            Out::Err(s) => format!("Err({:?})", crate::report::truncate(s, 200)),
            Out::Panic(s) => format!("Panic({:?})", crate::report::truncate(s, 300)),
        }
    }
}

thread_local! {
    static LAST_PANIC: RefCell<Option<String>> = const { RefCell::new(None) };
}

pub fn take_last_panic() -> String {
    LAST_PANIC
        .with(|p| p.borrow_mut().take())
        .unwrap_or_else(|| "<unknown panic>".to_string())
}

static INIT: Once = Once::new();

/// Install the quiet panic hook and send rsass' own stderr noise
/// (`@warn`, `@debug`, deprecation warnings) to /dev/null.
pub fn init_process() {
    INIT.call_once(|| {
        std::panic::set_hook(Box::new(|info| {
            let loc = info
                .location()
                .map(|l| format!("{}:{}:{}", l.file(), l.line(), l.column()))
                .unwrap_or_else(|| "?".into());
            let msg = if let Some(s) = info.payload().downcast_ref::<&str>() {
                (*s).to_string()
            } else if let Some(s) = info.payload().downcast_ref::<String>() {
                s.clone()
            } else {
                "<non-string panic payload>".to_string()
            };
            LAST_PANIC.with(|p| *p.borrow_mut() = Some(format!("{loc}: {msg}")));
        }));
        if std::env::var_os("VP_KEEP_STDERR").is_none() {
            // SAFETY-free: libc calls on plain fds
            unsafe {
                let fd = libc::open(c"/dev/null".as_ptr(), libc::O_WRONLY);
                if fd >= 0 {
                    libc::dup2(fd, 2);
                    libc::close(fd);
                }
            }
        }
    });
}

/// Run `f` (which calls into rsass) under catch_unwind; a panic becomes
/// `Err("<location>: <message>")` with the repo prefix stripped.
pub fn guard<R>(f: impl FnOnce() -> R) -> Result<R, String> {
    std::panic::catch_unwind(std::panic::AssertUnwindSafe(f)).map_err(|_| {
        let p = take_last_panic();
        // "/any/checkout/rsass/src/x.rs:1:2: msg" -> "src/x.rs:1:2: msg"
        match p.find("/rsass/src/") {
            Some(i) if !p[..i].contains(' ') => p[i + "/rsass/".len()..].to_string(),
            _ => p,
        }
    })
}

/// Call-site signature of a panic text "file:line:col: message" that survives
/// unrelated edits of the file: file + message with numbers masked and white
/// space folded (no line number).
pub fn panic_site(p: &str) -> String {
    let (loc, msg) = p.split_once(": ").unwrap_or((p, ""));
    let file = loc.split(':').next().unwrap_or(loc);
    let mut m = String::new();
    let mut last_digit = false;
    for ch in msg.chars() {
        if ch.is_ascii_digit() {
            if !last_digit {
                m.push('N');
            }
            last_digit = true;
        } else if ch.is_whitespace() || ch.is_control() {
            last_digit = false;
            if !m.ends_with(' ') {
                m.push(' ');
            }
        } else {
            last_digit = false;
            m.push(ch);
        }
    }
    let m: String = m.trim().chars().take(90).collect();
    format!("{file}:{m}")
}

fn finish(r: Result<Result<Vec<u8>, rsass::Error>, String>) -> Out {
    EXECS.fetch_add(1, Ordering::Relaxed);
    match r {
        Err(p) => Out::Panic(p),
        Ok(Ok(bytes)) => Out::Css(match String::from_utf8(bytes) {
            Ok(s) => s,
            Err(e) => format!(
                "<<non-utf8 output>>{}",
                String::from_utf8_lossy(e.as_bytes())
            ),
        }),
        Ok(Err(e)) => match guard(|| {
            let d = format!("{e}");
            let _ = format!("{e:?}");
            d
        }) {
            Ok(d) => Out::Err(d),
            Err(p) => Out::Panic(format!("while rendering error: {p}")),
        },
    }
}

/// Compile SCSS bytes with no files reachable (in-memory loader, root `-`).
pub fn compile(src: &[u8], fmt: Fmt) -> Out {
    compile_files(&[], "-", src, fmt)
}

pub fn compile_str(src: &str, fmt: Fmt) -> Out {
    compile(src.as_bytes(), fmt)
}

/// Compile plain CSS bytes.
pub fn compile_css(src: &[u8], fmt: Fmt) -> Out {
    finish(guard(|| {
        Context::for_loader(MemLoader::new(&[]))
            .with_format(fmt.to_rsass())
            .transform(SourceFile::css_bytes(src, SourceName::root("-")))
    }))
}

/// Raw bytes variant (for framing/encoding checks).
pub fn compile_bytes(src: &[u8], fmt: Fmt) -> Result<Result<Vec<u8>, String>, String> {
    EXECS.fetch_add(1, Ordering::Relaxed);
    guard(|| {
        Context::for_loader(MemLoader::new(&[]))
            .with_format(fmt.to_rsass())
            .transform(SourceFile::scss_bytes(src, SourceName::root("-")))
            .map_err(|e| format!("{e}"))
    })
}

/// The real `rsass::compile_scss` entry point (uses the process cwd).
pub fn compile_scss_real(src: &[u8], fmt: Fmt) -> Out {
    finish(guard(|| rsass::compile_scss(src, fmt.to_rsass())))
}

pub fn compile_value(src: &[u8], fmt: Fmt) -> Out {
    finish(guard(|| rsass::compile_value(src, fmt.to_rsass())))
}

/// Compile `root_src` (named `root_name`) with `files` reachable through an
/// in-memory loader.
pub fn compile_files(files: &[(&str, &str)], root_name: &str, root_src: &[u8], fmt: Fmt) -> Out {
    let loader = MemLoader::new(files);
    compile_with_loader(loader, root_name, root_src, fmt)
}

pub fn compile_with_loader(loader: MemLoader, root_name: &str, root_src: &[u8], fmt: Fmt) -> Out {
    finish(guard(|| {
        Context::for_loader(loader)
            .with_format(fmt.to_rsass())
            .transform(SourceFile::scss_bytes(root_src, SourceName::root(root_name)))
    }))
}

/// Result classification with the error variant kept (for loop errors).
#[derive(Clone, Debug, PartialEq, Eq, Hash, Serialize, Deserialize)]
pub enum ErrKind {
    ImportLoop,
    Input,
    Io,
    BadCall,
    Parse,
    Invalid,
    S,
}

pub fn compile_with_loader_kind(
    loader: MemLoader,
    root_name: &str,
    root_src: &[u8],
    fmt: Fmt,
) -> (Out, Option<ErrKind>) {
    let mut kind = None;
    let r = guard(|| {
        Context::for_loader(loader)
            .with_format(fmt.to_rsass())
            .transform(SourceFile::scss_bytes(root_src, SourceName::root(root_name)))
    });
    if let Ok(Err(e)) = &r {
        kind = Some(match e {
            rsass::Error::ImportLoop(..) => ErrKind::ImportLoop,
            rsass::Error::Input(..) => ErrKind::Input,
            rsass::Error::IoError(..) => ErrKind::Io,
            rsass::Error::BadCall(..) => ErrKind::BadCall,
            rsass::Error::ParseError(..) => ErrKind::Parse,
            rsass::Error::Invalid(..) => ErrKind::Invalid,
            rsass::Error::S(..) => ErrKind::S,
        });
    }
    (finish(r), kind)
}

/// Evaluate a SassScript expression through a real stylesheet compilation and
/// return the text of the declaration value: `a{b:<expr>}` in expanded style.
/// `prelude` is put before the rule (e.g. `@use "sass:math";`).
pub fn eval_expr(prelude: &str, expr: &str, fmt: Fmt) -> Out {
    let src = format!("{prelude}\na{{b:{expr}}}\n");
    match compile(src.as_bytes(), fmt) {
        Out::Css(css) => match decl_value(&css, fmt) {
            Some(v) => Out::Css(v),
            None => Out::Css(format!("<<no declaration in {css:?}>>")),
        },
        o => o,
    }
}

pub const USE_ALL: &str = "@use \"sass:math\";@use \"sass:list\";@use \"sass:map\";@use \"sass:string\";@use \"sass:meta\";@use \"sass:color\";@use \"sass:selector\";";

/// `inspect(expr)` with all built-in modules in scope.
pub fn inspect(expr: &str) -> Out {
    eval_expr(USE_ALL, &format!("meta.inspect({expr})"), Fmt::EXPANDED)
}

/// Extract the value of the single declaration `b` from the output of
/// `a{b:<v>}`.  Returns None when the rule was not emitted.
pub fn decl_value(css: &str, fmt: Fmt) -> Option<String> {
    let css = css
        .strip_prefix("@charset \"UTF-8\";\n")
        .or_else(|| css.strip_prefix('\u{feff}'))
        .unwrap_or(css);
    if fmt.compressed {
        let body = css.strip_prefix("a{b:")?;
        let body = body.strip_suffix('\n').unwrap_or(body);
        let body = body.strip_suffix('}')?;
        Some(body.to_string())
    } else {
        let body = css.strip_prefix("a {\n  b: ")?;
        let body = body.strip_suffix(";\n}\n")?;
        Some(body.to_string())
    }
}

// ---------------------------------------------------------------------------
// In-memory loader
// ---------------------------------------------------------------------------

#[derive(Clone, Copy, Debug, PartialEq, Eq, Hash, Serialize, Deserialize)]
pub enum FaultKind {
    /// `find_file` returns `Err(LoadError::Input(..))`.
    Lookup,
    /// the returned file fails at its first `read`.
    ReadStart,
    /// the returned file yields one short read (<= 3 bytes), then fails.
    ReadAfterShort,
}

#[derive(Debug, Default)]
pub struct LoaderCtl {
    /// number of `find_file` calls so far
    pub calls: AtomicUsize,
    /// requested urls with the answer given: (url, normalised, found)
    pub log: Mutex<Vec<(String, Option<String>)>>,
    /// faults: call index -> kind
    pub faults: Mutex<BTreeMap<usize, FaultKind>>,
    /// when calls exceed this budget every further lookup fails (divergence guard)
    pub budget: AtomicUsize,
    pub budget_hit: AtomicUsize,
}

#[derive(Debug, Clone)]
pub struct MemLoader {
    files: Arc<BTreeMap<String, Vec<u8>>>,
    pub ctl: Arc<LoaderCtl>,
    /// load paths tried in order after the url as given ("" = none)
    load_paths: Vec<String>,
}

/// Collapse `.` and `..` segments and duplicate slashes.  None when the path
/// escapes the root.
pub fn normalize_path(url: &str) -> Option<String> {
    let mut out: Vec<&str> = Vec::new();
    for seg in url.split('/') {
        match seg {
            "" | "." => {}
            ".." => {
                out.pop()?;
            }
            s => out.push(s),
        }
    }
    Some(out.join("/"))
}

impl MemLoader {
    pub fn new(files: &[(&str, &str)]) -> MemLoader {
        let mut m = BTreeMap::new();
        for (n, c) in files {
            m.insert(
                normalize_path(n).unwrap_or_else(|| n.to_string()),
                c.as_bytes().to_vec(),
            );
        }
        Self::from_map(m)
    }
    pub fn from_map(m: BTreeMap<String, Vec<u8>>) -> MemLoader {
        let ctl = LoaderCtl::default();
        ctl.budget.store(usize::MAX, Ordering::Relaxed);
        MemLoader {
            files: Arc::new(m),
            ctl: Arc::new(ctl),
            load_paths: vec![],
        }
    }
    pub fn with_load_paths(mut self, paths: &[&str]) -> Self {
        self.load_paths = paths.iter().map(|s| s.to_string()).collect();
        self
    }
    pub fn with_budget(self, n: usize) -> Self {
        self.ctl.budget.store(n, Ordering::Relaxed);
        self
    }
    pub fn with_fault(self, at: usize, kind: FaultKind) -> Self {
        self.ctl.faults.lock().unwrap().insert(at, kind);
        self
    }
    pub fn calls(&self) -> usize {
        self.ctl.calls.load(Ordering::Relaxed)
    }
}

#[derive(Debug)]
pub struct MemFile {
    data: Vec<u8>,
    pos: usize,
    fault: Option<FaultKind>,
    name: String,
}

impl Read for MemFile {
    fn read(&mut self, buf: &mut [u8]) -> std::io::Result<usize> {
        match self.fault {
            Some(FaultKind::ReadStart) => {
                return Err(std::io::Error::other(format!(
                    "injected read failure at start of {}",
                    self.name
                )))
            }
            Some(FaultKind::ReadAfterShort) if self.pos > 0 => {
                return Err(std::io::Error::other(format!(
                    "injected read failure after short read of {}",
                    self.name
                )))
            }
            _ => {}
        }
        let rest = &self.data[self.pos..];
        let mut n = rest.len().min(buf.len());
        if self.fault == Some(FaultKind::ReadAfterShort) {
            n = n.min(3);
        }
        buf[..n].copy_from_slice(&rest[..n]);
        self.pos += n;
        Ok(n)
    }
}

impl Loader for MemLoader {
    type File = MemFile;

    fn find_file(&self, url: &str) -> Result<Option<MemFile>, LoadError> {
        let idx = self.ctl.calls.fetch_add(1, Ordering::Relaxed);
        if idx >= self.ctl.budget.load(Ordering::Relaxed) {
            self.ctl.budget_hit.fetch_add(1, Ordering::Relaxed);
            return Err(LoadError::Input(
                url.to_string(),
                std::io::Error::other("lookup budget exhausted (divergence guard)"),
            ));
        }
        let fault = self.ctl.faults.lock().unwrap().get(&idx).copied();
        if fault == Some(FaultKind::Lookup) {
            self.ctl
                .log
                .lock()
                .unwrap()
                .push((url.to_string(), Some("<fault>".into())));
            return Err(LoadError::Input(
                url.to_string(),
                std::io::Error::other("injected lookup failure"),
            ));
        }
        let mut found = None;
        if !url.is_empty() {
            let mut bases = vec![String::new()];
            bases.extend(self.load_paths.iter().cloned());
            for base in bases {
                let full = if base.is_empty() {
                    url.to_string()
                } else {
                    format!("{base}/{url}")
                };
                if let Some(norm) = normalize_path(&full) {
                    if let Some(data) = self.files.get(&norm) {
                        found = Some((norm, data.clone()));
                        break;
                    }
                }
            }
        }
        self.ctl
            .log
            .lock()
            .unwrap()
            .push((url.to_string(), found.as_ref().map(|f| f.0.clone())));
        Ok(found.map(|(name, data)| MemFile {
            data,
            pos: 0,
            fault,
            name,
        }))
    }
}
