//! Enumeration helpers: every iterator here yields a *finite space completely*,
//! in a fixed order, simplest first.

/// All index sequences of length exactly `len` over `0..n` (odometer order).
pub struct Seqs {
    n: usize,
    cur: Option<Vec<usize>>,
}

pub fn seqs(n: usize, len: usize) -> Seqs {
    Seqs {
        n,
        cur: if n == 0 && len > 0 {
            None
        } else {
            Some(vec![0; len])
        },
    }
}

impl Iterator for Seqs {
    type Item = Vec<usize>;
    fn next(&mut self) -> Option<Vec<usize>> {
        let out = self.cur.clone()?;
        let cur = self.cur.as_mut().unwrap();
        let mut i = cur.len();
        loop {
            if i == 0 {
                self.cur = None;
                break;
            }
            i -= 1;
            cur[i] += 1;
            if cur[i] < self.n {
                break;
            }
            cur[i] = 0;
        }
        Some(out)
    }
}

/// All sequences of length 0..=max_len over `0..n`, shortest first.
pub fn seqs_upto(n: usize, max_len: usize) -> impl Iterator<Item = Vec<usize>> {
    (0..=max_len).flat_map(move |l| seqs(n, l))
}

/// All sequences of length min..=max over `0..n`.
pub fn seqs_range(n: usize, min_len: usize, max_len: usize) -> impl Iterator<Item = Vec<usize>> {
    (min_len..=max_len).flat_map(move |l| seqs(n, l))
}

/// Mixed-radix odometer: all vectors v with v[i] < radix[i].
pub fn mixed(radix: Vec<usize>) -> impl Iterator<Item = Vec<usize>> {
    let total: usize = radix.iter().product();
    (0..total).map(move |mut k| {
        let mut v = vec![0; radix.len()];
        for i in (0..radix.len()).rev() {
            v[i] = k % radix[i];
            k /= radix[i];
        }
        v
    })
}

/// All subsets of 0..n as bitmasks.
pub fn subsets(n: usize) -> impl Iterator<Item = u32> {
    0..(1u32 << n)
}

/// All permutations of 0..n (n small).
pub fn permutations(n: usize) -> Vec<Vec<usize>> {
    fn rec(cur: &mut Vec<usize>, used: &mut Vec<bool>, n: usize, out: &mut Vec<Vec<usize>>) {
        if cur.len() == n {
            out.push(cur.clone());
            return;
        }
        for i in 0..n {
            if !used[i] {
                used[i] = true;
                cur.push(i);
                rec(cur, used, n, out);
                cur.pop();
                used[i] = false;
            }
        }
    }
    let mut out = Vec::new();
    rec(&mut Vec::new(), &mut vec![false; n], n, &mut out);
    out
}

/// Cartesian product of two cloneable slices.
pub fn pairs<'a, A: Clone + 'a, B: Clone + 'a>(
    a: &'a [A],
    b: &'a [B],
) -> impl Iterator<Item = (A, B)> + 'a {
    a.iter()
        .flat_map(move |x| b.iter().map(move |y| (x.clone(), y.clone())))
}

#[cfg(test)]
mod tests {
    use super::*;
    #[test]
    fn counts() {
        assert_eq!(seqs(3, 2).count(), 9);
        assert_eq!(seqs_upto(2, 3).count(), 1 + 2 + 4 + 8);
        assert_eq!(mixed(vec![2, 3, 4]).count(), 24);
        assert_eq!(permutations(4).len(), 24);
        assert_eq!(seqs(0, 0).count(), 1);
    }
}
