//! E3: controlled scheduler over the cfg(kaj_rsass_verif) hooks.
//!
//! Harness threads are real OS threads, but a baton ensures exactly one runs.
//! Every `Mutex::lock` and every first `LazyLock` deref inside rsass calls
//! `before_*`, which is a *scheduling point*: the scheduler consults the
//! current choice prefix and either lets the thread continue or hands the
//! baton to another enabled thread.  Lock ownership is tracked, so a thread
//! whose next operation is on a held lock is *disabled* (never blocked in the
//! OS); "no enabled thread, some unfinished" is a deadlock.
//!
//! `explore` is the deviation(preemption)-bounded DFS: replay a prefix (any
//! divergence is a hard error), then default choice everywhere; branch at
//! every later point within the budget.  Branching is restricted to points
//! where the running thread's pending operation is on a *shared* object (an
//! object touched by two different threads in some execution); operations on
//! thread-private objects commute with everything another thread does.

use rsass::verif::sync::{install_hooks, SchedHooks};
use std::cell::Cell;
use std::collections::{BTreeMap, BTreeSet};
use std::sync::{Condvar, Mutex, Once};

thread_local! {
    static TID: Cell<Option<usize>> = const { Cell::new(None) };
}

#[derive(Clone, Debug, PartialEq, Eq)]
pub struct Point {
    /// enabled threads in canonical order (running thread first if enabled)
    pub enabled: Vec<usize>,
    /// the thread that was running when the point was reached, if still enabled
    pub running: Option<usize>,
    /// index into `enabled`
    pub chosen: usize,
    /// address of the operation the running thread is about to do (0 = none)
    pub addr: usize,
    /// the pending operation is a lazy initialisation (always treated as shared)
    pub lazy: bool,
}

#[derive(Clone, Debug, Default)]
pub struct Trace {
    pub points: Vec<Point>,
    /// lock/lazy operations performed, per thread
    pub ops: Vec<usize>,
    /// objects touched by >= 2 threads in this execution
    pub shared_now: BTreeSet<usize>,
    pub deadlock: Option<String>,
    pub divergence: Option<String>,
    /// sequence of (thread, addr) grants, for the replay log
    pub grants: Vec<(usize, usize)>,
}

#[derive(Clone, Copy, PartialEq, Eq, Debug)]
enum St {
    Ready,
    Finished,
}

struct Inner {
    active: bool,
    running: Option<usize>,
    status: Vec<St>,
    pending: Vec<Option<usize>>,
    pending_lazy: Vec<bool>,
    owner: BTreeMap<usize, usize>,
    touched: BTreeMap<usize, BTreeSet<usize>>,
    prefix: Vec<usize>,
    expect: Vec<(Vec<usize>, Option<usize>)>,
    pos: usize,
    trace: Trace,
    abort: bool,
    done: bool,
}

impl Inner {
    const fn new() -> Inner {
        Inner {
            active: false,
            running: None,
            status: Vec::new(),
            pending: Vec::new(),
            pending_lazy: Vec::new(),
            owner: BTreeMap::new(),
            touched: BTreeMap::new(),
            prefix: Vec::new(),
            expect: Vec::new(),
            pos: 0,
            trace: Trace {
                points: Vec::new(),
                ops: Vec::new(),
                shared_now: BTreeSet::new(),
                deadlock: None,
                divergence: None,
                grants: Vec::new(),
            },
            abort: false,
            done: false,
        }
    }

    fn enabled(&self, current: Option<usize>) -> Vec<usize> {
        let ok = |t: usize| {
            self.status[t] == St::Ready
                && match self.pending[t] {
                    None => true,
                    // held by anyone (including a re-entrant attempt): not enabled
                    Some(a) => !self.owner.contains_key(&a),
                }
        };
        let mut v = Vec::new();
        if let Some(c) = current {
            if ok(c) {
                v.push(c);
            }
        }
        for t in 0..self.status.len() {
            if Some(t) != current && ok(t) {
                v.push(t);
            }
        }
        v
    }

    /// Pick the next thread to run.  `current` = the thread making the call
    /// (None when called by the controller or a finishing thread).
    fn decide(&mut self, current: Option<usize>) {
        let enabled = self.enabled(current);
        if enabled.is_empty() {
            if self.status.iter().all(|s| *s == St::Finished) {
                self.running = None;
                self.done = true;
            } else {
                let who: Vec<String> = (0..self.status.len())
                    .filter(|t| self.status[*t] == St::Ready)
                    .map(|t| {
                        format!(
                            "thread {t} waits for {:#x} held by {:?}",
                            self.pending[t].unwrap_or(0),
                            self.pending[t].and_then(|a| self.owner.get(&a))
                        )
                    })
                    .collect();
                self.trace.deadlock = Some(who.join("; "));
                self.abort = true;
                self.done = true;
                self.running = None;
            }
            return;
        }
        let mut idx = 0;
        if enabled.len() > 1 {
            let running = current.filter(|c| enabled.first() == Some(c));
            if self.pos < self.prefix.len() {
                idx = self.prefix[self.pos];
                let exp = self.expect.get(self.pos);
                if idx >= enabled.len()
                    || exp.is_some_and(|(e, r)| *e != enabled || *r != running)
                {
                    self.trace.divergence = Some(format!(
                        "replaying choice {} of the prefix: enabled={enabled:?} running={running:?}, recorded {:?}, choice {idx}",
                        self.pos, exp
                    ));
                    self.abort = true;
                    self.done = true;
                    self.running = None;
                    return;
                }
            }
            self.pos += 1;
            let addr = current.and_then(|c| self.pending[c]).unwrap_or(0);
            let lazy = current.is_some_and(|c| self.pending_lazy[c]);
            self.trace.points.push(Point {
                enabled: enabled.clone(),
                running,
                chosen: idx,
                addr,
                lazy,
            });
        }
        self.running = Some(enabled[idx]);
    }
}

static STATE: Mutex<Inner> = Mutex::new(Inner::new());
static CV: Condvar = Condvar::new();

struct Hooks;

/// Payload used to unwind managed threads when an execution is aborted.
struct AbortToken;

fn lock_state() -> std::sync::MutexGuard<'static, Inner> {
    STATE.lock().unwrap_or_else(|e| e.into_inner())
}

/// A scheduling point of managed thread `tid` about to operate on `addr`.
/// `take` = mark `addr` as owned at grant time (lazy initialisation).
fn sched_point(tid: usize, addr: usize, take: bool) {
    let mut g = lock_state();
    if !g.active {
        return;
    }
    g.pending[tid] = Some(addr);
    g.pending_lazy[tid] = take;
    g.touched.entry(addr).or_default().insert(tid);
    g.decide(Some(tid));
    CV.notify_all();
    while g.running != Some(tid) {
        if g.abort {
            drop(g);
            std::panic::resume_unwind(Box::new(AbortToken));
        }
        g = CV.wait(g).unwrap_or_else(|e| e.into_inner());
    }
    g.pending[tid] = None;
    g.trace.ops[tid] += 1;
    g.trace.grants.push((tid, addr));
    if take {
        g.owner.insert(addr, tid);
    }
}

impl SchedHooks for Hooks {
    fn before_lock(&self, addr: usize) {
        if let Some(t) = TID.with(Cell::get) {
            sched_point(t, addr, false);
        }
    }
    fn after_lock(&self, addr: usize) {
        if let Some(t) = TID.with(Cell::get) {
            let mut g = lock_state();
            if g.active {
                g.owner.insert(addr, t);
            }
        }
    }
    fn after_unlock(&self, addr: usize) {
        if TID.with(Cell::get).is_some() {
            let mut g = lock_state();
            if g.active {
                g.owner.remove(&addr);
            }
        }
    }
    fn before_lazy_init(&self, addr: usize) {
        if let Some(t) = TID.with(Cell::get) {
            sched_point(t, addr, true);
        }
    }
    fn after_lazy_init(&self, addr: usize) {
        if TID.with(Cell::get).is_some() {
            let mut g = lock_state();
            if g.active {
                g.owner.remove(&addr);
            }
        }
    }
}

static HOOKS: Hooks = Hooks;
static INSTALL: Once = Once::new();

pub fn install() {
    INSTALL.call_once(|| {
        install_hooks(&HOOKS);
    });
}

/// Run `bodies` as managed threads under the choice `prefix` (then default
/// choices).  `expect[i]` optionally pins the (enabled, running) pair recorded
/// for prefix choice i; a mismatch is reported as a divergence.
pub fn run_schedule<R: Send + 'static>(
    bodies: Vec<Box<dyn FnOnce() -> R + Send>>,
    prefix: &[usize],
    expect: &[(Vec<usize>, Option<usize>)],
) -> (Trace, Vec<Option<R>>) {
    install();
    let n = bodies.len();
    {
        let mut g = lock_state();
        *g = Inner::new();
        g.active = true;
        g.status = vec![St::Ready; n];
        g.pending = vec![None; n];
        g.pending_lazy = vec![false; n];
        g.prefix = prefix.to_vec();
        g.expect = expect.to_vec();
        g.trace.ops = vec![0; n];
    }
    let mut handles = Vec::new();
    for (tid, body) in bodies.into_iter().enumerate() {
        let h = std::thread::Builder::new()
            .stack_size(32 << 20)
            .spawn(move || {
                TID.with(|t| t.set(Some(tid)));
                // wait for the baton
                {
                    let mut g = lock_state();
                    while g.running != Some(tid) {
                        if g.abort {
                            return None;
                        }
                        g = CV.wait(g).unwrap_or_else(|e| e.into_inner());
                    }
                }
                let r = std::panic::catch_unwind(std::panic::AssertUnwindSafe(body));
                let mut g = lock_state();
                g.status[tid] = St::Finished;
                // release anything still recorded as owned by this thread
                g.owner.retain(|_, o| *o != tid);
                if !g.abort {
                    g.decide(None);
                }
                CV.notify_all();
                match r {
                    Ok(v) => Some(v),
                    Err(p) => {
                        if p.downcast_ref::<AbortToken>().is_none() && !g.abort {
                            g.trace.divergence = Some(format!(
                                "managed thread {tid} panicked outside rs::guard: {}",
                                crate::rs::take_last_panic()
                            ));
                        }
                        None
                    }
                }
            })
            .expect("spawn managed thread");
        handles.push(h);
    }
    {
        let mut g = lock_state();
        g.decide(None);
        CV.notify_all();
        while !g.done {
            g = CV.wait(g).unwrap_or_else(|e| e.into_inner());
        }
    }
    let results: Vec<Option<R>> = handles
        .into_iter()
        .map(|h| h.join().unwrap_or(None))
        .collect();
    let mut g = lock_state();
    g.active = false;
    let mut trace = std::mem::take(&mut g.trace);
    for (a, ts) in &g.touched {
        if ts.len() >= 2 {
            trace.shared_now.insert(*a);
        }
    }
    (trace, results)
}

#[derive(Clone, Debug, Default)]
pub struct ExploreStats {
    pub schedules: u64,
    pub points: u64,
    pub max_points: usize,
    pub total_ops: u64,
    pub bound_completed: Option<usize>,
    pub cap_hit: bool,
    pub shared_objects: usize,
    pub branch_points_skipped_private: u64,
    pub late_shared: u64,
}

/// What the explorer hands to the callback for each complete execution.
pub struct Execution<R> {
    pub choices: Vec<usize>,
    pub trace: Trace,
    pub results: Vec<Option<R>>,
    pub preemptions: usize,
}

/// Deviation-bounded exhaustive exploration.  `make` builds the thread bodies
/// for one execution; `check` is called on every complete execution and
/// returns false to stop the exploration (violation found).
/// `max_schedules` is a safety cap (reported as cap_hit).
pub fn explore<R: Send + 'static>(
    make: &dyn Fn() -> Vec<Box<dyn FnOnce() -> R + Send>>,
    bound: usize,
    max_schedules: u64,
    shared: &mut BTreeSet<usize>,
    stats: &mut ExploreStats,
    check: &mut dyn FnMut(&Execution<R>) -> bool,
) -> Result<bool, String> {
    // iterative DFS over prefixes; each stack entry = (prefix choices, expectations)
    let mut stack: Vec<(Vec<usize>, Vec<(Vec<usize>, Option<usize>)>)> = vec![(vec![], vec![])];
    while let Some((prefix, expect)) = stack.pop() {
        if stats.schedules >= max_schedules {
            stats.cap_hit = true;
            return Ok(true);
        }
        let (trace, results) = run_schedule(make(), &prefix, &expect);
        stats.schedules += 1;
        stats.points += trace.points.len() as u64;
        stats.max_points = stats.max_points.max(trace.points.len());
        stats.total_ops += trace.ops.iter().sum::<usize>() as u64;
        if let Some(d) = &trace.divergence {
            return Err(format!("divergence under prefix {prefix:?}: {d}"));
        }
        let new_shared: Vec<usize> = trace
            .shared_now
            .iter()
            .filter(|a| !shared.contains(a))
            .copied()
            .collect();
        // late discoveries (almost always heap-address reuse between private
        // objects) only add branching from here on; they are counted
        stats.late_shared += new_shared.len() as u64;
        shared.extend(new_shared.iter().copied());
        stats.shared_objects = shared.len();
        let choices: Vec<usize> = trace.points.iter().map(|p| p.chosen).collect();
        // preemptions before each point
        let mut pre = Vec::with_capacity(trace.points.len() + 1);
        let mut acc = 0usize;
        for p in &trace.points {
            pre.push(acc);
            if p.running.is_some() && p.chosen != 0 {
                acc += 1;
            }
        }
        let ex = Execution {
            choices: choices.clone(),
            trace: trace.clone(),
            results,
            preemptions: acc,
        };
        if !check(&ex) {
            return Ok(false);
        }
        // children: deviate at every point after the prefix
        let mut children = Vec::new();
        for i in prefix.len()..trace.points.len() {
            let p = &trace.points[i];
            let cost_if_switch = if p.running.is_some() { 1 } else { 0 };
            if pre[i] + cost_if_switch > bound {
                continue;
            }
            if p.running.is_some() && !p.lazy && !shared.contains(&p.addr) {
                // pending operation on a thread-private object: preempting here is
                // equivalent to preempting before the thread's next shared operation
                stats.branch_points_skipped_private += 1;
                continue;
            }
            for alt in 1..p.enabled.len() {
                let mut c: Vec<usize> = choices[..i].to_vec();
                c.push(alt);
                let e: Vec<(Vec<usize>, Option<usize>)> = trace.points[..=i]
                    .iter()
                    .map(|p| (p.enabled.clone(), p.running))
                    .collect();
                children.push((c, e));
            }
        }
        children.reverse();
        stack.extend(children);
    }
    stats.bound_completed = Some(bound);
    Ok(true)
}

/// Discovery runs for the shared-object set: the default schedule with each
/// thread going first, and the maximally alternating schedule.  (Which
/// process-wide objects a deterministic program touches does not depend on the
/// schedule; only *who* initialises a lazy does, hence one run per first thread.)
pub fn discover_shared<R: Send + 'static>(
    make: &dyn Fn() -> Vec<Box<dyn FnOnce() -> R + Send>>,
    nthreads: usize,
) -> Result<BTreeSet<usize>, String> {
    let mut shared = BTreeSet::new();
    for first in 0..nthreads {
        let (t, _) = run_schedule(make(), &[first], &[]);
        if let Some(d) = t.divergence {
            return Err(d);
        }
        shared.extend(t.shared_now);
    }
    // alternate at every point (choice 1 = first other thread) for a bounded prefix
    let (t, _) = run_schedule(make(), &vec![1; 4096], &[]);
    if t.divergence.is_none() {
        shared.extend(t.shared_now);
    }
    Ok(shared)
}

// ---------------------------------------------------------------------------
// Compilation jobs (shared by C05 and C06)
// ---------------------------------------------------------------------------

/// A multi-threaded compilation job: thread i compiles `programs[i]` in order.
pub mod job {
    use super::*;
    use crate::rs::{self, Fmt, Out};
    use serde::{Deserialize, Serialize};

    #[derive(Clone, Debug, Hash, PartialEq, Eq, Serialize, Deserialize)]
    pub struct Job {
        /// per thread: stylesheets compiled one after the other
        pub programs: Vec<Vec<String>>,
        pub compressed: bool,
        pub precision: usize,
        /// compiled unmanaged before the threads start (process warm-up)
        pub prewarm: Vec<String>,
        pub prefix: Vec<usize>,
        /// (enabled, running) recorded for each prefix choice
        pub expect: Vec<(Vec<usize>, Option<usize>)>,
    }

    #[derive(Clone, Debug, Serialize, Deserialize)]
    pub struct PointRec {
        pub enabled: Vec<usize>,
        pub running: Option<usize>,
        pub chosen: usize,
        pub lazy: bool,
        /// pending operation is on an object touched by >= 2 threads in this run
        pub shared: bool,
    }

    #[derive(Clone, Debug, Serialize, Deserialize)]
    pub struct JobResult {
        pub points: Vec<PointRec>,
        pub outputs: Vec<Vec<Out>>,
        pub ops: Vec<usize>,
        pub deadlock: Option<String>,
        pub divergence: Option<String>,
    }

    pub fn bodies(job: &Job) -> Vec<Box<dyn FnOnce() -> Vec<Out> + Send>> {
        let fmt = Fmt::new(job.compressed, job.precision);
        job.programs
            .iter()
            .map(|progs| {
                let progs = progs.clone();
                Box::new(move || {
                    progs
                        .iter()
                        .map(|p| rs::compile(p.as_bytes(), fmt))
                        .collect::<Vec<Out>>()
                }) as Box<dyn FnOnce() -> Vec<Out> + Send>
            })
            .collect()
    }

    /// Execute one schedule of the job in this process.
    pub fn run(job: &Job) -> JobResult {
        let fmt = Fmt::new(job.compressed, job.precision);
        for p in &job.prewarm {
            let _ = rs::compile(p.as_bytes(), fmt);
        }
        let (trace, results) = run_schedule(bodies(job), &job.prefix, &job.expect);
        JobResult {
            points: trace
                .points
                .iter()
                .map(|p| PointRec {
                    enabled: p.enabled.clone(),
                    running: p.running,
                    chosen: p.chosen,
                    lazy: p.lazy,
                    shared: p.lazy || trace.shared_now.contains(&p.addr),
                })
                .collect(),
            outputs: results.into_iter().map(|r| r.unwrap_or_default()).collect(),
            ops: trace.ops,
            deadlock: trace.deadlock,
            divergence: trace.divergence,
        }
    }
}
