//! Worker subprocesses: the check binary re-executes itself with `--worker`;
//! requests and replies are JSON lines.  The worker handles requests on a
//! thread with an 8 MiB stack (the stack size property C01 names), so a stack
//! overflow or abort kills only the worker; the parent sees EOF, reports
//! `Died` for the request in flight and respawns on the next call.
//!
//! Each pool thread of the parent owns one child (thread-local), so
//! `worker::call` composes with `Check::run`.

use serde_json::Value;
use std::cell::RefCell;
use std::io::{BufRead, BufReader, Write};
use std::process::{Child, ChildStdin, ChildStdout, Command, Stdio};

pub const WORKER_STACK: usize = 8 << 20;

/// Wall-clock limit for one request (seconds); a worker that does not answer
/// in time is killed and the request reported as `Died("timeout …")`.
pub fn request_timeout_s() -> i32 {
    std::env::var("VP_WORKER_TIMEOUT_S")
        .ok()
        .and_then(|s| s.parse().ok())
        .unwrap_or(60)
}

/// Wait until `fd` is readable or the timeout expires.
fn wait_readable(fd: i32, timeout_s: i32) -> bool {
    let mut p = libc::pollfd {
        fd,
        events: libc::POLLIN,
        revents: 0,
    };
    loop {
        let r = unsafe { libc::poll(&mut p, 1, timeout_s.saturating_mul(1000)) };
        if r < 0 {
            if std::io::Error::last_os_error().kind() == std::io::ErrorKind::Interrupted {
                continue;
            }
            return true; // let read report the error
        }
        return r > 0;
    }
}

/// Call first in `main`: when started as a worker, serve requests and exit.
pub fn serve_if_worker(handler: fn(&Value) -> Value) {
    let args: Vec<String> = std::env::args().collect();
    if !args.iter().any(|a| a == "--worker") {
        return;
    }
    crate::rs::init_process();
    // a diverging input (e.g. an endless `@while` that keeps emitting items) must not be
    // able to exhaust the machine: cap the worker's address space (default 6 GiB)
    let cap_gib: u64 = std::env::var("VP_WORKER_MEM_GIB").ok().and_then(|s| s.parse().ok()).unwrap_or(6);
    unsafe {
        let lim = libc::rlimit {
            rlim_cur: cap_gib << 30,
            rlim_max: cap_gib << 30,
        };
        libc::setrlimit(libc::RLIMIT_AS, &lim);
    }
    let t = std::thread::Builder::new()
        .stack_size(WORKER_STACK)
        .spawn(move || {
            let stdin = std::io::stdin();
            let stdout = std::io::stdout();
            let mut line = String::new();
            let mut inp = stdin.lock();
            loop {
                line.clear();
                match inp.read_line(&mut line) {
                    Ok(0) | Err(_) => break,
                    Ok(_) => {}
                }
                let req: Value = match serde_json::from_str(&line) {
                    Ok(v) => v,
                    Err(e) => {
                        let mut o = stdout.lock();
                        let _ = writeln!(o, "{}", serde_json::json!({"worker_error": e.to_string()}));
                        let _ = o.flush();
                        continue;
                    }
                };
                let rep = handler(&req);
                let mut o = stdout.lock();
                let _ = writeln!(o, "{}", rep);
                let _ = o.flush();
            }
        })
        .expect("spawn worker thread");
    let _ = t.join();
    std::process::exit(0);
}

struct Proc {
    child: Child,
    stdin: ChildStdin,
    stdout: BufReader<ChildStdout>,
}

thread_local! {
    static PROC: RefCell<Option<Proc>> = const { RefCell::new(None) };
}

fn spawn() -> std::io::Result<Proc> {
    let exe = std::env::current_exe()?;
    let mut child = Command::new(exe)
        .arg("--worker")
        .stdin(Stdio::piped())
        .stdout(Stdio::piped())
        .stderr(Stdio::null())
        .spawn()?;
    let stdin = child.stdin.take().unwrap();
    let stdout = BufReader::new(child.stdout.take().unwrap());
    Ok(Proc {
        child,
        stdin,
        stdout,
    })
}

/// Read one reply line with the request timeout; on timeout the child is killed.
fn read_line_timeout(p: &mut Proc, buf: &mut String) -> usize {
    use std::os::fd::AsRawFd;
    let fd = p.stdout.get_ref().as_raw_fd();
    if p.stdout.buffer().is_empty() && !wait_readable(fd, request_timeout_s()) {
        let _ = p.child.kill();
        buf.push_str("TIMEOUT");
        return 0;
    }
    p.stdout.read_line(buf).unwrap_or(0)
}

#[derive(Debug, Clone)]
pub enum Reply {
    Ok(Value),
    /// the worker process died while handling this request (exit status text)
    Died(String),
}

/// Send one request to this thread's worker and wait for the reply.
pub fn call(req: &Value) -> Reply {
    call_t(req, request_timeout_s())
}

/// Like `call` with an explicit reply timeout in seconds.
pub fn call_t(req: &Value, timeout_s: i32) -> Reply {
    PROC.with(|cell| {
        let mut slot = cell.borrow_mut();
        if slot.is_none() {
            match spawn() {
                Ok(p) => *slot = Some(p),
                Err(e) => return Reply::Died(format!("cannot spawn worker: {e}")),
            }
        }
        let p = slot.as_mut().unwrap();
        let line = format!("{}\n", req);
        let sent = p.stdin.write_all(line.as_bytes()).and_then(|_| p.stdin.flush());
        let mut buf = String::new();
        let mut timed_out = false;
        let got = if sent.is_ok() {
            use std::os::fd::AsRawFd;
            let fd = p.stdout.get_ref().as_raw_fd();
            if p.stdout.buffer().is_empty() && !wait_readable(fd, timeout_s) {
                timed_out = true;
                let _ = p.child.kill();
                0
            } else {
                p.stdout.read_line(&mut buf).unwrap_or(0)
            }
        } else {
            0
        };
        if got == 0 {
            let status = p
                .child
                .wait()
                .map(|s| format!("{s}"))
                .unwrap_or_else(|e| format!("wait failed: {e}"));
            *slot = None;
            return Reply::Died(if timed_out {
                format!("timeout: no answer within {timeout_s} s (killed)")
            } else {
                status
            });
        }
        match serde_json::from_str::<Value>(&buf) {
            Ok(v) => Reply::Ok(v),
            Err(e) => {
                let _ = p.child.kill();
                let _ = p.child.wait();
                *slot = None;
                Reply::Died(format!("garbled reply: {e}: {buf:?}"))
            }
        }
    })
}

/// Run one request in a brand-new process (cold process-wide state) and
/// terminate it afterwards.
pub fn call_fresh(req: &Value) -> Reply {
    let mut p = match spawn() {
        Ok(p) => p,
        Err(e) => return Reply::Died(format!("cannot spawn worker: {e}")),
    };
    let line = format!("{}\n", req);
    let _ = p.stdin.write_all(line.as_bytes()).and_then(|_| p.stdin.flush());
    let mut buf = String::new();
    let got = read_line_timeout(&mut p, &mut buf);
    drop(p.stdin);
    let status = p.child.wait();
    if got == 0 {
        if buf == "TIMEOUT" {
            return Reply::Died(format!("timeout: no answer within {} s (killed)", request_timeout_s()));
        }
        return Reply::Died(
            status
                .map(|s| format!("{s}"))
                .unwrap_or_else(|e| format!("wait failed: {e}")),
        );
    }
    match serde_json::from_str::<Value>(&buf) {
        Ok(v) => Reply::Ok(v),
        Err(e) => Reply::Died(format!("garbled reply: {e}")),
    }
}

/// Send several requests, in order, to one brand-new process (a *history*).
pub fn call_history(reqs: &[Value]) -> Vec<Reply> {
    let mut out = Vec::new();
    let mut p = match spawn() {
        Ok(p) => p,
        Err(e) => return vec![Reply::Died(format!("cannot spawn worker: {e}"))],
    };
    for req in reqs {
        let line = format!("{}\n", req);
        let _ = p.stdin.write_all(line.as_bytes()).and_then(|_| p.stdin.flush());
        let mut buf = String::new();
        let got = read_line_timeout(&mut p, &mut buf);
        if got == 0 {
            let status = p
                .child
                .wait()
                .map(|s| format!("{s}"))
                .unwrap_or_else(|e| format!("wait failed: {e}"));
            out.push(Reply::Died(if buf == "TIMEOUT" {
                format!("timeout: no answer within {} s (killed)", request_timeout_s())
            } else {
                status
            }));
            return out;
        }
        match serde_json::from_str::<Value>(&buf) {
            Ok(v) => out.push(Reply::Ok(v)),
            Err(e) => out.push(Reply::Died(format!("garbled reply: {e}"))),
        }
    }
    drop(p.stdin);
    let _ = p.child.wait();
    out
}
