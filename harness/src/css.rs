//! A CSS Syntax Level 3 tokenizer and a light block parser, written for the
//! oracles (independent of rsass).  Used to decode strings / identifiers,
//! compare stylesheet structure, check framing and decode colours.

use serde::{Deserialize, Serialize};

#[derive(Clone, Debug, PartialEq, Serialize, Deserialize)]
pub enum Tok {
    Ident(String),
    Function(String),
    AtKeyword(String),
    Hash(String),
    Str(String),
    BadStr,
    Url(String),
    BadUrl,
    /// (source text, value)
    Number(String, f64),
    Percentage(String, f64),
    Dimension(String, f64, String),
    Ws,
    Colon,
    Semicolon,
    Comma,
    LBrace,
    RBrace,
    LParen,
    RParen,
    LBracket,
    RBracket,
    Delim(char),
    Comment(String),
    /// unterminated comment
    BadComment,
    Cdo,
    Cdc,
}

fn is_name_start(c: char) -> bool {
    c.is_ascii_alphabetic() || c == '_' || !c.is_ascii()
}
fn is_name(c: char) -> bool {
    is_name_start(c) || c.is_ascii_digit() || c == '-'
}
fn is_ws(c: char) -> bool {
    matches!(c, ' ' | '\t' | '\n' | '\r' | '\x0c')
}

pub struct Tokenizer<'a> {
    s: &'a [char],
    i: usize,
}

impl<'a> Tokenizer<'a> {
    fn peek(&self, k: usize) -> Option<char> {
        self.s.get(self.i + k).copied()
    }
    fn valid_escape(&self, k: usize) -> bool {
        self.peek(k) == Some('\\') && !matches!(self.peek(k + 1), Some('\n') | None)
    }
    fn starts_ident(&self, k: usize) -> bool {
        match self.peek(k) {
            Some('-') => {
                matches!(self.peek(k + 1), Some(c) if is_name_start(c) || c == '-')
                    || self.valid_escape(k + 1)
            }
            Some(c) if is_name_start(c) => true,
            Some('\\') => self.valid_escape(k),
            _ => false,
        }
    }
    fn starts_number(&self, k: usize) -> bool {
        match self.peek(k) {
            Some('+') | Some('-') => match self.peek(k + 1) {
                Some(c) if c.is_ascii_digit() => true,
                Some('.') => matches!(self.peek(k + 2), Some(c) if c.is_ascii_digit()),
                _ => false,
            },
            Some('.') => matches!(self.peek(k + 1), Some(c) if c.is_ascii_digit()),
            Some(c) => c.is_ascii_digit(),
            None => false,
        }
    }
    /// consume an escape after the backslash
    fn escape(&mut self) -> char {
        // self.i points after '\\'
        match self.peek(0) {
            None => '\u{fffd}',
            Some(c) if c.is_ascii_hexdigit() => {
                let mut v: u32 = 0;
                let mut n = 0;
                while n < 6 {
                    match self.peek(0) {
                        Some(h) if h.is_ascii_hexdigit() => {
                            v = v * 16 + h.to_digit(16).unwrap();
                            self.i += 1;
                            n += 1;
                        }
                        _ => break,
                    }
                }
                if matches!(self.peek(0), Some(w) if is_ws(w)) {
                    // \r\n counts as one
                    if self.peek(0) == Some('\r') && self.peek(1) == Some('\n') {
                        self.i += 1;
                    }
                    self.i += 1;
                }
                if v == 0 || v > 0x10ffff || (0xd800..=0xdfff).contains(&v) {
                    '\u{fffd}'
                } else {
                    char::from_u32(v).unwrap_or('\u{fffd}')
                }
            }
            Some(c) => {
                self.i += 1;
                c
            }
        }
    }
    fn name(&mut self) -> String {
        let mut out = String::new();
        loop {
            match self.peek(0) {
                Some(c) if is_name(c) => {
                    out.push(c);
                    self.i += 1;
                }
                Some('\\') if self.valid_escape(0) => {
                    self.i += 1;
                    out.push(self.escape());
                }
                _ => break,
            }
        }
        out
    }
    fn number(&mut self) -> (String, f64) {
        let start = self.i;
        if matches!(self.peek(0), Some('+') | Some('-')) {
            self.i += 1;
        }
        while matches!(self.peek(0), Some(c) if c.is_ascii_digit()) {
            self.i += 1;
        }
        if self.peek(0) == Some('.') && matches!(self.peek(1), Some(c) if c.is_ascii_digit()) {
            self.i += 1;
            while matches!(self.peek(0), Some(c) if c.is_ascii_digit()) {
                self.i += 1;
            }
        }
        if matches!(self.peek(0), Some('e') | Some('E')) {
            let k = if matches!(self.peek(1), Some('+') | Some('-')) {
                2
            } else {
                1
            };
            if matches!(self.peek(k), Some(c) if c.is_ascii_digit()) {
                self.i += k;
                while matches!(self.peek(0), Some(c) if c.is_ascii_digit()) {
                    self.i += 1;
                }
            }
        }
        let text: String = self.s[start..self.i].iter().collect();
        let v = text.parse::<f64>().unwrap_or(f64::NAN);
        (text, v)
    }
    fn string(&mut self, q: char) -> Tok {
        let mut out = String::new();
        loop {
            match self.peek(0) {
                None => return Tok::Str(out),
                Some(c) if c == q => {
                    self.i += 1;
                    return Tok::Str(out);
                }
                Some('\n') => return Tok::BadStr,
                Some('\\') => {
                    self.i += 1;
                    match self.peek(0) {
                        None => {}
                        Some('\n') => self.i += 1,
                        Some(_) => out.push(self.escape()),
                    }
                }
                Some(c) => {
                    out.push(c);
                    self.i += 1;
                }
            }
        }
    }
    fn url_rest(&mut self) -> Tok {
        // after "url(", with next non-ws char not a quote
        let mut out = String::new();
        while matches!(self.peek(0), Some(c) if is_ws(c)) {
            self.i += 1;
        }
        loop {
            match self.peek(0) {
                None => return Tok::Url(out),
                Some(')') => {
                    self.i += 1;
                    return Tok::Url(out);
                }
                Some(c) if is_ws(c) => {
                    while matches!(self.peek(0), Some(c) if is_ws(c)) {
                        self.i += 1;
                    }
                    match self.peek(0) {
                        None => return Tok::Url(out),
                        Some(')') => {
                            self.i += 1;
                            return Tok::Url(out);
                        }
                        _ => return self.bad_url(),
                    }
                }
                Some('"') | Some('\'') | Some('(') => return self.bad_url(),
                Some('\\') => {
                    if self.valid_escape(0) {
                        self.i += 1;
                        out.push(self.escape());
                    } else {
                        return self.bad_url();
                    }
                }
                Some(c) => {
                    out.push(c);
                    self.i += 1;
                }
            }
        }
    }
    fn bad_url(&mut self) -> Tok {
        loop {
            match self.peek(0) {
                None => return Tok::BadUrl,
                Some(')') => {
                    self.i += 1;
                    return Tok::BadUrl;
                }
                Some('\\') if self.valid_escape(0) => {
                    self.i += 1;
                    self.escape();
                }
                _ => self.i += 1,
            }
        }
    }

    fn next_tok(&mut self) -> Option<Tok> {
        let c = self.peek(0)?;
        if c == '/' && self.peek(1) == Some('*') {
            let start = self.i + 2;
            let mut j = start;
            loop {
                if j + 1 >= self.s.len() {
                    // unterminated
                    self.i = self.s.len();
                    return Some(Tok::BadComment);
                }
                if self.s[j] == '*' && self.s[j + 1] == '/' {
                    let text: String = self.s[start..j].iter().collect();
                    self.i = j + 2;
                    return Some(Tok::Comment(text));
                }
                j += 1;
            }
        }
        if is_ws(c) {
            while matches!(self.peek(0), Some(c) if is_ws(c)) {
                self.i += 1;
            }
            return Some(Tok::Ws);
        }
        if c == '"' || c == '\'' {
            self.i += 1;
            return Some(self.string(c));
        }
        if c == '#' {
            if matches!(self.peek(1), Some(n) if is_name(n)) || self.valid_escape(1) {
                self.i += 1;
                return Some(Tok::Hash(self.name()));
            }
            self.i += 1;
            return Some(Tok::Delim('#'));
        }
        if self.starts_number(0) {
            let (text, v) = self.number();
            if self.starts_ident(0) {
                let unit = self.name();
                return Some(Tok::Dimension(text, v, unit));
            }
            if self.peek(0) == Some('%') {
                self.i += 1;
                return Some(Tok::Percentage(text, v));
            }
            return Some(Tok::Number(text, v));
        }
        if c == '-' && self.peek(1) == Some('-') && self.peek(2) == Some('>') {
            self.i += 3;
            return Some(Tok::Cdc);
        }
        if c == '<' && self.peek(1) == Some('!') && self.peek(2) == Some('-') && self.peek(3) == Some('-')
        {
            self.i += 4;
            return Some(Tok::Cdo);
        }
        if c == '@' && self.starts_ident(1) {
            self.i += 1;
            return Some(Tok::AtKeyword(self.name()));
        }
        if self.starts_ident(0) {
            let name = self.name();
            if self.peek(0) == Some('(') {
                self.i += 1;
                if name.eq_ignore_ascii_case("url") {
                    // look past whitespace for a quote
                    let mut k = 0;
                    while matches!(self.peek(k), Some(c) if is_ws(c)) {
                        k += 1;
                    }
                    if matches!(self.peek(k), Some('"') | Some('\'')) {
                        return Some(Tok::Function(name));
                    }
                    return Some(self.url_rest());
                }
                return Some(Tok::Function(name));
            }
            return Some(Tok::Ident(name));
        }
        self.i += 1;
        Some(match c {
            ':' => Tok::Colon,
            ';' => Tok::Semicolon,
            ',' => Tok::Comma,
            '{' => Tok::LBrace,
            '}' => Tok::RBrace,
            '(' => Tok::LParen,
            ')' => Tok::RParen,
            '[' => Tok::LBracket,
            ']' => Tok::RBracket,
            c => Tok::Delim(c),
        })
    }
}

/// Tokenize (input preprocessing: CRLF/CR/FF -> LF, NUL -> U+FFFD).
pub fn tokenize(input: &str) -> Vec<Tok> {
    let mut chars: Vec<char> = Vec::with_capacity(input.len());
    let mut it = input.chars().peekable();
    while let Some(c) = it.next() {
        match c {
            '\r' => {
                if it.peek() == Some(&'\n') {
                    it.next();
                }
                chars.push('\n');
            }
            '\x0c' => chars.push('\n'),
            '\0' => chars.push('\u{fffd}'),
            c => chars.push(c),
        }
    }
    let mut t = Tokenizer { s: &chars, i: 0 };
    let mut out = Vec::new();
    while let Some(tok) = t.next_tok() {
        out.push(tok);
    }
    out
}

// ---------------------------------------------------------------------------
// Block structure
// ---------------------------------------------------------------------------

#[derive(Clone, Debug, PartialEq, Serialize, Deserialize)]
pub enum Node {
    Rule { prelude: Vec<Tok>, body: Vec<Node> },
    AtRule { name: String, prelude: Vec<Tok>, body: Option<Vec<Node>> },
    Decl { name: String, value: Vec<Tok> },
    Comment(String),
    /// anything that is neither (kept so that nothing is silently dropped)
    Junk(Vec<Tok>),
}

struct P<'a> {
    t: &'a [Tok],
    i: usize,
}

fn trim(mut v: Vec<Tok>) -> Vec<Tok> {
    while v.first() == Some(&Tok::Ws) {
        v.remove(0);
    }
    while v.last() == Some(&Tok::Ws) {
        v.pop();
    }
    v
}

impl<'a> P<'a> {
    /// consume a component value sequence up to (not including) a top-level
    /// `;`, `{` or `}`; nested (), [] and function blocks are kept whole.
    /// When `braces_ok`, `{}` blocks are also consumed whole (custom property values).
    fn prelude(&mut self, braces_ok: bool) -> Vec<Tok> {
        let mut out = Vec::new();
        let mut depth: Vec<Tok> = Vec::new();
        while let Some(t) = self.t.get(self.i) {
            if depth.is_empty() {
                match t {
                    Tok::Semicolon | Tok::RBrace => break,
                    Tok::LBrace if !braces_ok => break,
                    _ => {}
                }
            }
            match t {
                Tok::LParen | Tok::Function(_) => depth.push(Tok::RParen),
                Tok::LBracket => depth.push(Tok::RBracket),
                Tok::LBrace => depth.push(Tok::RBrace),
                Tok::RParen | Tok::RBracket | Tok::RBrace => {
                    if depth.last() == Some(t) {
                        depth.pop();
                    }
                }
                _ => {}
            }
            out.push(t.clone());
            self.i += 1;
        }
        out
    }

    fn block_items(&mut self, top: bool) -> Vec<Node> {
        let mut out = Vec::new();
        loop {
            match self.t.get(self.i) {
                None => break,
                Some(Tok::Ws) | Some(Tok::Semicolon) => self.i += 1,
                Some(Tok::Cdo) | Some(Tok::Cdc) if top => self.i += 1,
                Some(Tok::RBrace) => {
                    if top {
                        out.push(Node::Junk(vec![Tok::RBrace]));
                        self.i += 1;
                    } else {
                        break;
                    }
                }
                Some(Tok::Comment(c)) => {
                    out.push(Node::Comment(c.clone()));
                    self.i += 1;
                }
                Some(Tok::AtKeyword(name)) => {
                    let name = name.clone();
                    self.i += 1;
                    let prelude = trim(self.prelude(false));
                    let body = if self.t.get(self.i) == Some(&Tok::LBrace) {
                        self.i += 1;
                        let b = self.block_items(false);
                        if self.t.get(self.i) == Some(&Tok::RBrace) {
                            self.i += 1;
                        }
                        Some(b)
                    } else {
                        None
                    };
                    out.push(Node::AtRule {
                        name,
                        prelude,
                        body,
                    });
                }
                Some(_) => {
                    // declaration or qualified rule?
                    let save = self.i;
                    // custom property: --name: anything;
                    if let Some(Tok::Ident(n)) = self.t.get(self.i) {
                        if n.starts_with("--") && !top {
                            let mut k = self.i + 1;
                            while self.t.get(k) == Some(&Tok::Ws) {
                                k += 1;
                            }
                            if self.t.get(k) == Some(&Tok::Colon) {
                                let name = n.clone();
                                self.i = k + 1;
                                let value = self.prelude(true);
                                out.push(Node::Decl { name, value });
                                continue;
                            }
                        }
                    }
                    let pre = self.prelude(false);
                    if self.t.get(self.i) == Some(&Tok::LBrace) {
                        self.i += 1;
                        let body = self.block_items(false);
                        if self.t.get(self.i) == Some(&Tok::RBrace) {
                            self.i += 1;
                        }
                        out.push(Node::Rule {
                            prelude: trim(pre),
                            body,
                        });
                    } else {
                        // declaration: ident ws* : value
                        let pre_t = trim(pre);
                        let mut it = pre_t.iter();
                        let ok = if let Some(Tok::Ident(name)) = it.next() {
                            let rest: Vec<Tok> = it.cloned().collect();
                            let rest = trim(rest);
                            if rest.first() == Some(&Tok::Colon) {
                                out.push(Node::Decl {
                                    name: name.clone(),
                                    value: trim(rest[1..].to_vec()),
                                });
                                true
                            } else {
                                false
                            }
                        } else {
                            false
                        };
                        if !ok {
                            if self.i == save {
                                self.i += 1;
                            }
                            out.push(Node::Junk(pre_t));
                        }
                    }
                }
            }
        }
        out
    }
}

pub fn parse(input: &str) -> Vec<Node> {
    let toks = tokenize(input);
    P { t: &toks, i: 0 }.block_items(true)
}

pub fn parse_tokens(toks: &[Tok]) -> Vec<Node> {
    P { t: toks, i: 0 }.block_items(true)
}

/// Serialise tokens back to a canonical text (for messages and comparisons):
/// whitespace is a single space.
pub fn toks_text(toks: &[Tok]) -> String {
    let mut s = String::new();
    for t in toks {
        match t {
            Tok::Ident(n) => s.push_str(n),
            Tok::Function(n) => {
                s.push_str(n);
                s.push('(')
            }
            Tok::AtKeyword(n) => {
                s.push('@');
                s.push_str(n)
            }
            Tok::Hash(n) => {
                s.push('#');
                s.push_str(n)
            }
            Tok::Str(v) => {
                s.push('"');
                s.push_str(&v.replace('\\', "\\\\").replace('"', "\\\""));
                s.push('"')
            }
            Tok::BadStr => s.push_str("<bad-string>"),
            Tok::Url(u) => {
                s.push_str("url(");
                s.push_str(u);
                s.push(')')
            }
            Tok::BadUrl => s.push_str("<bad-url>"),
            Tok::Number(t, _) => s.push_str(t),
            Tok::Percentage(t, _) => {
                s.push_str(t);
                s.push('%')
            }
            Tok::Dimension(t, _, u) => {
                s.push_str(t);
                s.push_str(u)
            }
            Tok::Ws => s.push(' '),
            Tok::Colon => s.push(':'),
            Tok::Semicolon => s.push(';'),
            Tok::Comma => s.push(','),
            Tok::LBrace => s.push('{'),
            Tok::RBrace => s.push('}'),
            Tok::LParen => s.push('('),
            Tok::RParen => s.push(')'),
            Tok::LBracket => s.push('['),
            Tok::RBracket => s.push(']'),
            Tok::Delim(c) => s.push(*c),
            Tok::Comment(c) => {
                s.push_str("/*");
                s.push_str(c);
                s.push_str("*/")
            }
            Tok::BadComment => s.push_str("<bad-comment>"),
            Tok::Cdo => s.push_str("<!--"),
            Tok::Cdc => s.push_str("-->"),
        }
    }
    s
}

/// Strip the `@charset`/BOM prefix rsass adds for non-ASCII output.
pub fn strip_charset(css: &str) -> &str {
    css.strip_prefix("@charset \"UTF-8\";\n")
        .or_else(|| css.strip_prefix("@charset \"UTF-8\";"))
        .or_else(|| css.strip_prefix('\u{feff}'))
        .unwrap_or(css)
}

/// Remove whitespace tokens where CSS makes them insignificant: at the ends,
/// and next to `{ } ; : , ( ) [ ]` and the combinators `> + ~`.  A single Ws
/// between two other tokens (descendant combinator, value separator) is kept.
pub fn fold_ws(toks: &[Tok], drop_comments: bool) -> Vec<Tok> {
    let mut v: Vec<Tok> = Vec::new();
    for t in toks {
        if drop_comments && matches!(t, Tok::Comment(_)) {
            // a comment separates tokens like whitespace does not; keep neither
            continue;
        }
        if *t == Tok::Ws && v.last() == Some(&Tok::Ws) {
            continue;
        }
        v.push(t.clone());
    }
    let punct = |t: &Tok| {
        matches!(
            t,
            Tok::LBrace
                | Tok::RBrace
                | Tok::Semicolon
                | Tok::Colon
                | Tok::Comma
                | Tok::LParen
                | Tok::RParen
                | Tok::LBracket
                | Tok::RBracket
                | Tok::Function(_)
        ) || matches!(t, Tok::Delim('>') | Tok::Delim('+') | Tok::Delim('~'))
    };
    let mut out: Vec<Tok> = Vec::new();
    for (i, t) in v.iter().enumerate() {
        if *t == Tok::Ws {
            let prev = if i > 0 { v.get(i - 1) } else { None };
            let next = v.get(i + 1);
            if prev.is_none() || next.is_none() {
                continue;
            }
            if prev.map(punct).unwrap_or(false) || next.map(punct).unwrap_or(false) {
                continue;
            }
        }
        out.push(t.clone());
    }
    out
}

/// Check that (), [] and {} balance in a token stream (strings, comments and
/// url() are already single tokens).  Returns a description of the first
/// imbalance.
pub fn check_balance(toks: &[Tok]) -> Result<(), String> {
    let mut st: Vec<&Tok> = Vec::new();
    for (i, t) in toks.iter().enumerate() {
        match t {
            Tok::LParen | Tok::Function(_) | Tok::LBracket | Tok::LBrace => st.push(t),
            Tok::RParen => match st.pop() {
                Some(Tok::LParen) | Some(Tok::Function(_)) => {}
                o => return Err(format!("token {i}: ')' closes {o:?}")),
            },
            Tok::RBracket => match st.pop() {
                Some(Tok::LBracket) => {}
                o => return Err(format!("token {i}: ']' closes {o:?}")),
            },
            Tok::RBrace => match st.pop() {
                Some(Tok::LBrace) => {}
                o => return Err(format!("token {i}: '}}' closes {o:?}")),
            },
            _ => {}
        }
    }
    if let Some(t) = st.last() {
        return Err(format!("unclosed {t:?}"));
    }
    Ok(())
}

#[cfg(test)]
mod tests {
    use super::*;
    #[test]
    fn basic() {
        let t = tokenize("a > b{c:\"x\\\"y\" 1.5px url(foo) #fff -x \\41 b}");
        assert!(t.contains(&Tok::Str("x\"y".into())));
        assert!(t.contains(&Tok::Dimension("1.5".into(), 1.5, "px".into())));
        assert!(t.contains(&Tok::Url("foo".into())));
        assert!(t.contains(&Tok::Ident("Ab".into())));
        let n = parse("@media x{a{b:c}} /*k*/ d{e:f;g:h}");
        assert_eq!(n.len(), 3);
        assert!(check_balance(&tokenize("a{b:(c[d])}")).is_ok());
        assert!(check_balance(&tokenize("a{b:(c}")).is_err());
        assert_eq!(tokenize("/* x"), vec![Tok::BadComment]);
    }
}
