//! C13 Map keys follow `==` and map equality ignores order.
//!
//! * statespace-d<k>  : explicit-state search.  State = map reached from one of
//!   several start maps by a sequence of set / set-by-merge / remove / remove-two /
//!   merge(literal) / merge(literal, state) operations, every transition executed
//!   by the real map functions (the whole history is replayed in one stylesheet).
//!   Keys come from `==`-classes with several representations each (1 | 1.0 | ...,
//!   1in | 96px | 2.54cm, a | "a" | 'a', red | #f00 | rgb() | hsl(), (1 2) | join(1,2),
//!   () | empty map, b, null).  The reference model is an association list over
//!   classes; the state is canonicalised as (model state, representations the
//!   implementation stores).  In every state: length, iteration, map.keys,
//!   map.values, and map.get / map.has-key for *every* key representation.
//! * state-equality   : every reached state against literals of the model state
//!   (other representations, reversed, rotated -> equal; changed value, dropped
//!   or extra entry -> not equal), both operand orders.
//! * literal-equality : all pairs of map literals up to the entry bound.
//! * literal-duplicates : every key sequence of length 2..3 over all
//!   representations: an error exactly when two keys are `==`.
//! * merge-law        : all pairs of literals: keys of both, m2's values, m1's
//!   order then m2's new keys.
//! * lookup-vs-eq     : relational, over a wide key alphabet (near ties, unit
//!   conversions, quote styles, colour notations, lists, maps): get / has-key /
//!   remove / set / merge / literal-duplicate find k2 in (k1: v) exactly when
//!   k1 == k2 (either operand order is accepted where `==` itself is asymmetric).

use serde::{Deserialize, Serialize};
use std::collections::HashSet;
use std::sync::Mutex;
use vp::report::{Check, Verdict};
use vp::rs::{self, Fmt, Out};

const PRELUDE: &str = "@use \"sass:map\";@use \"sass:math\";@function args($a...){@return $a}\n";

// ---------- key classes ----------

struct Class {
    /// (expression, text printed by inspect)
    reps: &'static [(&'static str, &'static str)],
}

const CLASSES: &[Class] = &[
    Class { reps: &[("1", "1"), ("1.0", "1"), ("1.0000000000000002", "1"), ("(0.5 + 0.5)", "1")] },
    Class { reps: &[("1in", "1in"), ("96px", "96px"), ("2.54cm", "2.54cm")] },
    Class { reps: &[("a", "a"), ("\"a\"", "\"a\""), ("'a'", "\"a\"")] },
    Class {
        reps: &[("red", "red"), ("#f00", "#f00"), ("rgb(255, 0, 0)", "rgb(255, 0, 0)"), ("hsl(0, 100%, 50%)", "hsl(0, 100%, 50%)")],
    },
    Class { reps: &[("(1 2)", "1 2"), ("join(1, 2)", "1 2")] },
    Class { reps: &[("()", "()"), ("map-remove((z: 1), z)", "()")] },
    Class { reps: &[("b", "b")] },
    Class { reps: &[("null", "null")] },
];

fn class_of_printed(text: &str) -> Option<usize> {
    CLASSES.iter().position(|c| c.reps.iter().any(|(_, p)| *p == text))
}

/// value expressions; VALUE_CLASS gives their `==`-class, printed form = class text
const VALUES: &[&str] = &["1", "2", "1.0"];
const VALUE_CLASS: &[u8] = &[1, 2, 1];

fn key(c: usize, r: usize) -> &'static str {
    let reps = CLASSES[c].reps;
    reps[r % reps.len()].0
}

/// literal entry: (class, representation, value index)
type Lit = Vec<(usize, usize, usize)>;

fn render_lit(l: &Lit) -> String {
    if l.is_empty() {
        return "()".into();
    }
    let items: Vec<String> = l.iter().map(|(c, r, v)| format!("{}: {}", key(*c, *r), VALUES[*v % VALUES.len()])).collect();
    format!("({})", items.join(", "))
}

/// Literals used as merge operands in the state space (classes 0..=7).
fn merge_lits() -> Vec<Lit> {
    vec![
        vec![],
        vec![(0, 1, 1), (2, 0, 0)],
        vec![(2, 1, 0), (0, 0, 1)],
        vec![(6, 0, 1), (2, 2, 0), (0, 2, 0)],
        vec![(3, 1, 1), (0, 1, 0)],
        vec![(2, 1, 1), (3, 2, 0)],
        vec![(3, 0, 0), (6, 0, 0)],
        vec![(1, 1, 1), (3, 3, 0)],
        vec![(0, 3, 0), (1, 2, 1)],
        vec![(4, 1, 1), (1, 0, 0)],
        vec![(5, 1, 0), (4, 0, 1)],
        vec![(7, 0, 1), (5, 0, 0)],
        vec![(6, 0, 0), (7, 0, 0), (2, 0, 1)],
    ]
}

/// Start maps: (source text, model)
fn starts() -> Vec<(&'static str, Vec<(usize, u8)>)> {
    vec![
        ("()", vec![]),
        ("map-remove((z: 1), z)", vec![]),
        ("(1: 1, a: 2)", vec![(0, 1), (2, 2)]),
        ("(\"a\": 1, #f00: 2, 1.0: 1)", vec![(2, 1), (3, 2), (0, 1)]),
        ("(b: 2, red: 1)", vec![(6, 2), (3, 1)]),
        ("((1 2): 1, 96px: 2, (): 2, null: 1)", vec![(4, 1), (1, 2), (5, 2), (7, 1)]),
    ]
}

// ---------- operations and the reference model ----------

#[derive(Clone, Debug, Hash, Serialize, Deserialize, PartialEq, Eq, PartialOrd, Ord)]
enum Op {
    /// map.set($m, key(class, rep), value)
    Set(usize, usize, usize),
    /// map-merge($m, (key: value))
    SetM(usize, usize, usize),
    Rm(usize, usize),
    Rm2(usize, usize, usize, usize),
    /// map.merge($m, literal i)
    Merge(usize),
    /// map.merge(literal i, $m)
    MergeRev(usize),
}

type Model = Vec<(usize, u8)>;

fn m_set(m: &mut Model, c: usize, v: u8) {
    if let Some(e) = m.iter_mut().find(|e| e.0 == c) {
        e.1 = v;
    } else {
        m.push((c, v));
    }
}
fn m_remove(m: &mut Model, c: usize) {
    m.retain(|e| e.0 != c);
}
fn lit_model(l: &Lit) -> Model {
    let mut m = Model::new();
    for (c, _, v) in l {
        m_set(&mut m, *c, VALUE_CLASS[*v % VALUES.len()]);
    }
    m
}
fn m_merge(m1: &Model, m2: &Model) -> Model {
    let mut out = m1.clone();
    for (c, v) in m2 {
        m_set(&mut out, *c, *v);
    }
    out
}

fn apply(m: &Model, op: &Op, lits: &[Lit]) -> Option<Model> {
    let mut m = m.clone();
    match op {
        Op::Set(c, _, v) | Op::SetM(c, _, v) => m_set(&mut m, *c, VALUE_CLASS[*v % VALUES.len()]),
        Op::Rm(c, _) => m_remove(&mut m, *c),
        Op::Rm2(c1, _, c2, _) => {
            m_remove(&mut m, *c1);
            m_remove(&mut m, *c2);
        }
        Op::Merge(i) => m = m_merge(&m, &lit_model(lits.get(*i)?)),
        Op::MergeRev(i) => m = m_merge(&lit_model(lits.get(*i)?), &m),
    }
    Some(m)
}

fn op_source(op: &Op, lits: &[Lit]) -> String {
    match op {
        Op::Set(c, r, v) => format!("$m: map.set($m, {}, {});", key(*c, *r), VALUES[*v % VALUES.len()]),
        Op::SetM(c, r, v) => format!("$m: map-merge($m, ({}: {}));", key(*c, *r), VALUES[*v % VALUES.len()]),
        Op::Rm(c, r) => format!("$m: map.remove($m, {});", key(*c, *r)),
        Op::Rm2(c1, r1, c2, r2) => format!("$m: map.remove($m, {}, {});", key(*c1, *r1), key(*c2, *r2)),
        Op::Merge(i) => format!("$m: map.merge($m, {});", lits.get(*i).map(render_lit).unwrap_or_default()),
        Op::MergeRev(i) => format!("$m: map.merge({}, $m);", lits.get(*i).map(render_lit).unwrap_or_default()),
    }
}

#[derive(Clone, Debug, Hash, Serialize, Deserialize)]
struct StateCase {
    start: usize,
    ops: Vec<Op>,
}

fn history_source(c: &StateCase, lits: &[Lit]) -> Option<(String, Model)> {
    let st = starts();
    let (src, model) = st.get(c.start)?;
    let mut s = format!("{PRELUDE}$m: {src};\n");
    let mut m = model.clone();
    for op in &c.ops {
        s.push_str(&op_source(op, lits));
        s.push('\n');
        m = apply(&m, op, lits)?;
    }
    Some((s, m))
}

// ---------- observation ----------

fn decls(css: &str) -> Vec<(String, String)> {
    let mut out = Vec::new();
    for line in css.lines() {
        let Some(l) = line.strip_prefix("  ") else { continue };
        let Some(l) = l.strip_suffix(';') else { continue };
        if let Some((n, v)) = l.split_once(": ") {
            out.push((n.to_string(), v.to_string()));
        }
    }
    out
}
fn get<'a>(d: &'a [(String, String)], name: &str) -> &'a str {
    d.iter().find(|(n, _)| n == name).map(|(_, v)| v.as_str()).unwrap_or("<missing>")
}
fn all<'a>(d: &'a [(String, String)], name: &str) -> Vec<&'a str> {
    d.iter().filter(|(n, _)| n == name).map(|(_, v)| v.as_str()).collect()
}
fn panic_site(p: &str) -> String {
    // file + normalised message (no line number): survives unrelated edits
    vp::rs::panic_site(p)
}
fn head(e: &str) -> &str {
    e.lines().next().unwrap_or("")
}

fn compile_decls(src: &str) -> Result<Vec<(String, String)>, Verdict> {
    match rs::compile_str(src, Fmt::EXPANDED) {
        Out::Css(css) => Ok(decls(&css)),
        Out::Panic(p) => Err(Verdict::fail_sig(format!("panic:{}", panic_site(&p)), format!("panic {p} on\n{src}"))),
        Out::Err(e) => Err(Verdict::fail(format!("error {:?} on\n{src}", head(&e)))),
    }
}

/// Declarations that project a map `$m` completely.
const PROJECT: &str = "n: length($m);@each $k, $v in $m {ek: inspect($k); ev: inspect($v)}@each $k in map.keys($m) {k: inspect($k)}@each $v in map.values($m) {v: inspect($v)}";

/// Compare the projected entries with the model; Ok(stored key texts).
fn check_projection(d: &[(String, String)], model: &Model) -> Result<Vec<String>, String> {
    let n = get(d, "n");
    if n != model.len().to_string() {
        return Err(format!("length is {n}, model has {} entries", model.len()));
    }
    let ek = all(d, "ek");
    let ev = all(d, "ev");
    let k = all(d, "k");
    let v = all(d, "v");
    if ek != k || ev != v {
        return Err(format!("iteration {ek:?}=>{ev:?} disagrees with map.keys {k:?} / map.values {v:?}"));
    }
    if ek.len() != model.len() || ev.len() != model.len() {
        return Err(format!("{} keys / {} values, model has {} entries", ek.len(), ev.len(), model.len()));
    }
    for (i, (c, val)) in model.iter().enumerate() {
        match class_of_printed(ek[i]) {
            Some(cc) if cc == *c => {}
            Some(cc) => return Err(format!("entry {i}: key {:?} is of class {cc}, model has class {c} there; keys {ek:?}", ek[i])),
            None => return Err(format!("entry {i}: key {:?} is not a known representation", ek[i])),
        }
        if ev[i] != val.to_string() {
            return Err(format!("entry {i}: value {:?}, model has {val}; keys {ek:?} values {ev:?}", ev[i]));
        }
    }
    Ok(ek.iter().map(|s| s.to_string()).collect())
}

// ---------- other case types ----------

#[derive(Clone, Debug, Hash, Serialize, Deserialize)]
struct EqStateCase {
    start: usize,
    ops: Vec<Op>,
    /// same | reversed | rotated | value | dropped | extra
    cmp: String,
}

#[derive(Clone, Debug, Hash, Serialize, Deserialize)]
struct LitPair {
    l: Lit,
    r: Lit,
}

#[derive(Clone, Debug, Hash, Serialize, Deserialize)]
struct DupCase {
    keys: Vec<(usize, usize)>,
}

#[derive(Clone, Debug, Hash, Serialize, Deserialize)]
struct LookupCase {
    k1: String,
    k2: String,
}

/// All literals with `len` entries over distinct classes from `classes`,
/// representations 0..reps, value indices from `values`.
fn lits_of(classes: &[usize], reps: usize, values: &[usize], len: usize) -> Vec<Lit> {
    fn rec(classes: &[usize], reps: usize, values: &[usize], len: usize, cur: &mut Lit, out: &mut Vec<Lit>) {
        if cur.len() == len {
            out.push(cur.clone());
            return;
        }
        for c in classes {
            if cur.iter().any(|e| e.0 == *c) {
                continue;
            }
            let nr = CLASSES[*c].reps.len().min(reps);
            for r in 0..nr {
                for v in values {
                    cur.push((*c, r, *v));
                    rec(classes, reps, values, len, cur, out);
                    cur.pop();
                }
            }
        }
    }
    let mut out = Vec::new();
    rec(classes, reps, values, len, &mut Vec::new(), &mut out);
    out
}

const LOOKUP_KEYS: &[&str] = &[
    "1", "1.0", "0.9999999999999998", "0.9999999999999999", "1.0000000000000002", "1.0000000000000004", "2", "0", "-0.0",
    "1px", "1in", "96px", "95.99999999999999px", "96.00000000000001px", "2.54cm", "1.0000000000000002in", "100%", "1s",
    "1000ms", "math.div(0, 0)", "math.div(1, 0)", "a", "\"a\"", "'a'", "\"b\"", "A", "\"\"", "unquote(\"\")", "\"1\"",
    "red", "#f00", "#ff0000", "rgb(255, 0, 0)", "hsl(0, 100%, 50%)", "hwb(0 0% 0%)", "blue", "rgba(255, 0, 0, 0.5)",
    "transparent", "\"red\"", "(1 2)", "join(1, 2)", "(1, 2)", "[1 2]", "(0.9999999999999998 2)", "()", "[]", "(a b)",
    "(a: 1)", "(\"a\": 1)", "(a: 1, b: 2)", "(b: 2, a: 1)", "map-remove((z: 1), z)", "null", "true", "false",
    "get-function(\"red\")", "args(1, 2)",
];


/// Breadth-first explicit-state search, one section per level.  Every
/// (state, operation) transition is executed on the real implementation by
/// replaying the history, and the resulting map is projected completely and
/// compared with the model.  Distinct states (by canonical form) are appended
/// to `states` with the first history that reached them.
fn explore(
    ck: &Check,
    name: &str,
    classes: &[usize],
    rep_limit: usize,
    depth: usize,
    slim: bool,
    lits: &[Lit],
    states: &mut Vec<StateCase>,
) {
    let in_tier = |c: usize| classes.contains(&c);
    // key representations probed in every state
    let mut probes: Vec<(usize, usize)> = Vec::new();
    for c in classes {
        for r in 0..CLASSES[*c].reps.len().min(rep_limit) {
            probes.push((*c, r));
        }
    }
    // operations
    let mut ops: Vec<Op> = Vec::new();
    for (c, r) in &probes {
        for v in [0usize, 1] {
            // slim (quick tier): both values only through the first representation
            if slim && *r > 0 && v == 1 {
                continue;
            }
            ops.push(Op::Set(*c, *r, v));
        }
    }
    for c in classes {
        ops.push(Op::SetM(*c, CLASSES[*c].reps.len() - 1, 2));
    }
    for (c, r) in &probes {
        ops.push(Op::Rm(*c, *r));
    }
    for w in classes.windows(2) {
        ops.push(Op::Rm2(w[0], 1, w[1], 0));
    }
    for (i, l) in lits.iter().enumerate() {
        if l.iter().all(|e| in_tier(e.0)) {
            ops.push(Op::Merge(i));
            if !(slim && i % 2 == 1) {
                ops.push(Op::MergeRev(i));
            }
        }
    }
    let start_ids: Vec<usize> = starts()
        .iter()
        .enumerate()
        .filter(|(_, (_, m))| m.iter().all(|e| in_tier(e.0)))
        .map(|(i, _)| i)
        .collect();
    ck.note(
        name,
        serde_json::json!({"classes": classes.len(), "key_representations": probes.len(), "operations": ops.len(), "starts": start_ids.len(), "depth": depth}),
    );

    let mut probe_src = String::new();
    for (i, (c, r)) in probes.iter().enumerate() {
        let k = key(*c, *r);
        // alternate between the module functions and the global aliases
        if i % 2 == 0 {
            probe_src.push_str(&format!("g{i}: inspect(map.get($m, {k}));h{i}: map.has-key($m, {k});"));
        } else {
            probe_src.push_str(&format!("g{i}: inspect(map-get($m, {k}));h{i}: map-has-key($m, {k});"));
        }
    }

    let found: Mutex<Vec<(Vec<Op>, usize, String)>> = Mutex::new(Vec::new());
    let check_state = |c: &StateCase| -> Verdict {
        let Some((mut src, model)) = history_source(c, lits) else {
            return Verdict::fail("malformed replay case");
        };
        src.push_str(&format!("a{{{PROJECT}{probe_src}}}\n"));
        let d = match compile_decls(&src) {
            Ok(d) => d,
            Err(v) => return v,
        };
        let stored = match check_projection(&d, &model) {
            Ok(s) => s,
            Err(why) => return Verdict::fail(format!("{why}\n{src}")),
        };
        for (i, (cl, r)) in probes.iter().enumerate() {
            let want = model.iter().find(|e| e.0 == *cl);
            let (wg, wh) = match want {
                Some((_, v)) => (v.to_string(), "true"),
                None => ("null".to_string(), "false"),
            };
            let (g, h) = (get(&d, &format!("g{i}")), get(&d, &format!("h{i}")));
            if g != wg || h != wh {
                return Verdict::fail(format!(
                    "lookup of {} in a map with stored keys {stored:?}: get {g} has-key {h}, model says get {wg} has-key {wh}\n{src}",
                    key(*cl, *r)
                ));
            }
        }
        let canon = format!("{model:?}|{stored:?}");
        found.lock().unwrap().push((c.ops.clone(), c.start, canon.clone()));
        Verdict::pass(&canon)
    };

    let mut seen: HashSet<String> = HashSet::new();
    let mut frontier: Vec<StateCase> = start_ids.iter().map(|s| StateCase { start: *s, ops: vec![] }).collect();
    for level in 0..=depth {
        let cases: Vec<StateCase> = if level == 0 {
            frontier.clone()
        } else {
            let mut v = Vec::new();
            for st in &frontier {
                for op in &ops {
                    let mut o = st.ops.clone();
                    o.push(op.clone());
                    v.push(StateCase { start: st.start, ops: o });
                }
            }
            v
        };
        let bound = if level == 0 {
            format!("the {} start maps", start_ids.len())
        } else {
            format!("each of {} operations from every distinct state first reached at depth {}", ops.len(), level - 1)
        };
        ck.run(&format!("{name}-d{level}"), &bound, cases.into_iter(), &check_state);
        // next frontier: states not seen before, first history in a fixed order
        let mut got = std::mem::take(&mut *found.lock().unwrap());
        got.sort();
        frontier = Vec::new();
        for (o, s, canon) in got {
            if seen.insert(canon) {
                let st = StateCase { start: s, ops: o };
                frontier.push(st.clone());
                states.push(st);
            }
        }
    }
}

fn main() {
    let ck = Check::from_args("C13");
    let quick = ck.quick();
    ck.rule("statespace: BFS over operation sequences from 6 start maps, transitions = {set, set-by-merge, remove, remove-two, merge(state, literal), merge(literal, state)} over key classes x representations x values, state canonicalised as (association list over ==-classes, stored representations), every transition replayed on the real map functions and fully projected (length, @each, keys, values, get/has-key for every representation); plus all reached states x 6 literal comparisons; all literal pairs for == and merge; all key sequences for duplicate detection; all key pairs for lookup-agrees-with-==");
    ck.assume("inspect() prints each key representation as listed in the class table (an unknown printed key is reported as a failure, not ignored)");

    let lits = merge_lits();
    const MAX_DEPTH: usize = 6;
    let replay = ck.is_replay();

    // ---- explicit-state search: a narrow alphabet explored deep and (thorough
    // tier) a wide alphabet explored shallow
    let mut states: Vec<StateCase> = Vec::new();
    let narrow_depth = if replay { MAX_DEPTH } else if quick { 3 } else { 5 };
    explore(&ck, "statespace", &[0, 2, 3, 6], 2, narrow_depth, quick, &lits, &mut states);
    if !quick || replay {
        let wide_depth = if replay { MAX_DEPTH } else { 2 };
        explore(&ck, "statespace-wide", &[0, 1, 2, 3, 4, 5, 6, 7], 3, wide_depth, false, &lits, &mut states);
    }
    {
        // the two searches share their shortest histories
        let mut seen = HashSet::new();
        states.retain(|s| seen.insert((s.start, s.ops.clone())));
    }
    ck.note("distinct_states", serde_json::json!(states.len()));

    // ---- every reached state against literals
    let mut eqcases = Vec::new();
    for st in &states {
        for cmp in ["same", "reversed", "rotated", "value", "dropped", "extra"] {
            eqcases.push(EqStateCase { start: st.start, ops: st.ops.clone(), cmp: cmp.into() });
        }
    }
    ck.run(
        "state-equality",
        "every distinct reached state x 6 literal comparisons, both operand orders",
        eqcases.into_iter(),
        |c: &EqStateCase| {
            let sc = StateCase { start: c.start, ops: c.ops.clone() };
            let Some((mut src, model)) = history_source(&sc, &lits) else {
                return Verdict::fail("malformed replay case");
            };
            // literal from the model: (class, rep, value index)
            let vi = |v: u8, alt: bool| -> usize {
                if v == 2 {
                    1
                } else if alt {
                    2
                } else {
                    0
                }
            };
            let mut lit: Lit = match c.cmp.as_str() {
                "same" => model.iter().map(|(cl, v)| (*cl, 1, vi(*v, true))).collect(),
                "reversed" => model.iter().rev().map(|(cl, v)| (*cl, 0, vi(*v, false))).collect(),
                "rotated" => {
                    let mut m: Vec<_> = model.iter().map(|(cl, v)| (*cl, 2, vi(*v, true))).collect();
                    if !m.is_empty() {
                        m.rotate_left(1);
                    }
                    m
                }
                _ => model.iter().map(|(cl, v)| (*cl, 0, vi(*v, false))).collect(),
            };
            let mut extra = String::new();
            let expect = match c.cmp.as_str() {
                "same" | "reversed" | "rotated" => true,
                "value" => {
                    if let Some(e) = lit.first_mut() {
                        e.2 = if VALUE_CLASS[e.2] == 1 { 1 } else { 0 };
                    } else {
                        extra = "zz: 1".into();
                    }
                    false
                }
                "dropped" => {
                    if lit.pop().is_none() {
                        extra = "zz: 2".into();
                    }
                    false
                }
                _ => {
                    extra = "zz: 1".into();
                    false
                }
            };
            let mut text = render_lit(&lit);
            if !extra.is_empty() {
                text = if lit.is_empty() {
                    format!("({extra})")
                } else {
                    format!("{}, {extra})", text.trim_end_matches(')'))
                };
            }
            src.push_str(&format!("$l: {text};\na{{p: $m == $l; q: $l == $m; r: $m != $l}}\n"));
            let d = match compile_decls(&src) {
                Ok(d) => d,
                Err(v) => return v,
            };
            let (p, q, r) = (get(&d, "p"), get(&d, "q"), get(&d, "r"));
            let w = expect.to_string();
            let nw = (!expect).to_string();
            if p == w && q == w && r == nw {
                return Verdict::pass(&(p, q, &c.cmp, model.len()));
            }
            // known-defect variant: OrderMap's derived PartialEq compares the
            // entries as a sequence
            let reordered = model.len() >= 2 && (c.cmp == "reversed" || c.cmp == "rotated");
            if reordered && p == "false" && q == "false" && r == "true" {
                return Verdict::fail_sig(
                    "map-equality-order-sensitive",
                    format!("state {model:?} == {text} is false (entries in another order)"),
                );
            }
            Verdict::fail(format!("state {model:?} vs {text}: == {p}, reversed == {q}, != {r}; expected {w}\n{src}"))
        },
    );

    // ---- literal sections
    let small: Vec<usize> = vec![0, 2, 6];
    let mut maps_a: Vec<Lit> = Vec::new(); // len <= 2, values {1, 2, 1.0}
    for len in 0..=2 {
        maps_a.extend(lits_of(&small, 2, &[0, 1, 2], len));
    }
    let mut maps_b: Vec<Lit> = Vec::new(); // len <= 3, values {1, 2}
    for len in 0..=3 {
        maps_b.extend(lits_of(&small, 2, &[0, 1], len));
    }
    let mut eq_pairs: Vec<LitPair> = Vec::new();
    {
        let mut seen = HashSet::new();
        let mut push = |l: &Lit, r: &Lit, out: &mut Vec<LitPair>| {
            if seen.insert((l.clone(), r.clone())) {
                out.push(LitPair { l: l.clone(), r: r.clone() });
            }
        };
        for l in &maps_a {
            for r in &maps_a {
                push(l, r, &mut eq_pairs);
            }
        }
        if !quick {
            for l in &maps_b {
                for r in &maps_b {
                    push(l, r, &mut eq_pairs);
                }
            }
        }
    }
    ck.run(
        "literal-equality",
        if quick {
            "all ordered pairs of literals with <= 2 entries over 3 classes x 2 representations x values {1, 2, 1.0}"
        } else {
            "all ordered pairs of literals with <= 2 entries (values {1, 2, 1.0}) and with <= 3 entries (values {1, 2}) over 3 classes x 2 representations"
        },
        eq_pairs.into_iter(),
        |c: &LitPair| {
            let (ml, mr) = (lit_model(&c.l), lit_model(&c.r));
            let mut a = ml.clone();
            let mut b = mr.clone();
            a.sort();
            b.sort();
            let expect = a == b;
            let ordered = ml == mr;
            let (tl, tr) = (render_lit(&c.l), render_lit(&c.r));
            let src = format!("{PRELUDE}a{{p: {tl} == {tr}; r: {tl} != {tr}}}\n");
            let d = match compile_decls(&src) {
                Ok(d) => d,
                Err(v) => return v,
            };
            let (p, r) = (get(&d, "p"), get(&d, "r"));
            if p == expect.to_string() && r == (!expect).to_string() {
                return Verdict::pass(&(p, ml.len(), mr.len()));
            }
            if expect && !ordered && p == "false" && r == "true" {
                return Verdict::fail_sig("map-equality-order-sensitive", format!("{tl} == {tr} is false"));
            }
            Verdict::fail(format!("{tl} == {tr}: got == {p}, != {r}; expected {expect}"))
        },
    );

    // duplicate keys in literals: every sequence of 2..3 keys over all representations
    let mut dups: Vec<DupCase> = Vec::new();
    {
        let dup_classes: Vec<usize> = if quick { vec![0, 2, 3, 6] } else { (0..CLASSES.len()).collect() };
        let mut reps: Vec<(usize, usize)> = Vec::new();
        for c in dup_classes {
            for r in 0..CLASSES[c].reps.len() {
                reps.push((c, r));
            }
        }
        for len in 2..=3 {
            for s in vp::gen::seqs(reps.len(), len) {
                dups.push(DupCase { keys: s.iter().map(|i| reps[*i]).collect() });
            }
        }
    }
    ck.run(
        "literal-duplicates",
        "every key sequence of length 2..3 over all representations of the tier's classes",
        dups.into_iter(),
        |c: &DupCase| {
            let items: Vec<String> = c.keys.iter().enumerate().map(|(i, (cl, r))| format!("{}: {}", key(*cl, *r), i + 1)).collect();
            let text = format!("({})", items.join(", "));
            let mut classes: Vec<usize> = c.keys.iter().map(|k| k.0).collect();
            classes.sort();
            classes.dedup();
            let dup = classes.len() != c.keys.len();
            let src = format!("{PRELUDE}$m: {text};\na{{{PROJECT}}}\n");
            match rs::compile_str(&src, Fmt::EXPANDED) {
                Out::Panic(p) => Verdict::fail_sig(format!("panic:{}", panic_site(&p)), format!("panic {p} on {text}")),
                Out::Err(e) => {
                    if dup && head(&e).contains("Duplicate key") {
                        Verdict::pass("duplicate-key-error")
                    } else if dup {
                        Verdict::fail(format!("{text}: error {:?}, expected a duplicate key error", head(&e)))
                    } else {
                        Verdict::fail(format!("{text}: error {:?}, but the keys are pairwise different", head(&e)))
                    }
                }
                Out::Css(css) => {
                    if dup {
                        return Verdict::fail(format!("{text}: accepted although two keys are ==: {css}"));
                    }
                    let d = decls(&css);
                    let model: Model = c.keys.iter().enumerate().map(|(i, k)| (k.0, (i + 1) as u8)).collect();
                    match check_projection(&d, &model) {
                        Ok(stored) => Verdict::pass(&stored),
                        Err(why) => Verdict::fail(format!("{text}: {why}")),
                    }
                }
            }
        },
    );

    // merge law on literal pairs
    let mut maps_c: Vec<Lit> = Vec::new(); // len <= 2, values {1, 2}
    for len in 0..=2 {
        maps_c.extend(lits_of(&small, 2, &[0, 1], len));
    }
    let merge_maps: &Vec<Lit> = if quick { &maps_c } else { &maps_b };
    let mut mpairs: Vec<LitPair> = Vec::new();
    for l in merge_maps {
        for r in merge_maps {
            mpairs.push(LitPair { l: l.clone(), r: r.clone() });
        }
    }
    ck.run(
        "merge-law",
        if quick { "all ordered pairs of literals with <= 2 entries" } else { "all ordered pairs of literals with <= 3 entries" },
        mpairs.into_iter(),
        |c: &LitPair| {
            let model = m_merge(&lit_model(&c.l), &lit_model(&c.r));
            let (tl, tr) = (render_lit(&c.l), render_lit(&c.r));
            let src = format!("{PRELUDE}$m: map.merge({tl}, {tr});\n$g: map-merge({tl}, {tr});\na{{{PROJECT}same: inspect($m) == inspect($g)}}\n");
            let d = match compile_decls(&src) {
                Ok(d) => d,
                Err(v) => return v,
            };
            if get(&d, "same") != "true" {
                return Verdict::fail(format!("map.merge and map-merge disagree on {tl}, {tr}"));
            }
            match check_projection(&d, &model) {
                Ok(stored) => Verdict::pass(&(stored, model)),
                Err(why) => Verdict::fail(format!("map.merge({tl}, {tr}): {why}")),
            }
        },
    );

    // lookups agree with ==
    let mut lk: Vec<LookupCase> = Vec::new();
    for a in LOOKUP_KEYS {
        for b in LOOKUP_KEYS {
            lk.push(LookupCase { k1: a.to_string(), k2: b.to_string() });
        }
    }
    ck.run(
        "lookup-vs-eq",
        "all ordered pairs of a 57-key alphabet: 6 ways of finding k2 in (k1: 1) against k1 == k2",
        lk.into_iter(),
        |c: &LookupCase| {
            let (k1, k2) = (&c.k1, &c.k2);
            let src = format!(
                "{PRELUDE}$a: {k1}; $b: {k2}; $m: ($a: 1);\na{{e1: $a == $b; e2: $b == $a; h: map.has-key($m, $b); g: inspect(map.get($m, $b)); r: length(map.remove($m, $b)); s: length(map.set($m, $b, 2)); mg: length(map.merge($m, ($b: 2)))}}\n"
            );
            let d = match compile_decls(&src) {
                Ok(d) => d,
                Err(v) => return v,
            };
            let b = |n: &str, yes: &str, no: &str| -> Result<bool, String> {
                let v = get(&d, n);
                if v == yes {
                    Ok(true)
                } else if v == no {
                    Ok(false)
                } else {
                    Err(format!("{n} = {v:?} (expected {yes:?} or {no:?})"))
                }
            };
            let lit_src = format!("{PRELUDE}a{{d: length(({k1}: 1, {k2}: 2))}}\n");
            let dup = match rs::compile_str(&lit_src, Fmt::EXPANDED) {
                Out::Err(e) if head(&e).contains("Duplicate key") => Ok(true),
                Out::Css(css) if get(&decls(&css), "d") == "2" => Ok(false),
                Out::Panic(p) => return Verdict::fail_sig(format!("panic:{}", panic_site(&p)), format!("panic {p} on {lit_src}")),
                o => Err(format!("literal ({k1}: 1, {k2}: 2): {}", o.short())),
            };
            let obs = [
                ("==", b("e1", "true", "false")),
                ("== swapped", b("e2", "true", "false")),
                ("has-key", b("h", "true", "false")),
                ("get", b("g", "1", "null")),
                ("remove", b("r", "0", "1")),
                ("set", b("s", "1", "2")),
                ("merge", b("mg", "1", "2")),
                ("literal", dup),
            ];
            let mut vals = Vec::new();
            for (n, o) in &obs {
                match o {
                    Ok(v) => vals.push(*v),
                    Err(e) => return Verdict::fail(format!("{k1} / {k2}: {n}: {e}")),
                }
            }
            let (e1, e2) = (vals[0], vals[1]);
            for (i, (n, _)) in obs.iter().enumerate().skip(2) {
                if vals[i] != e1 && vals[i] != e2 {
                    return Verdict::fail(format!(
                        "{n} {} {k2} in ({k1}: 1) although {k1} == {k2} is {e1} and {k2} == {k1} is {e2}",
                        if vals[i] { "finds" } else { "does not find" }
                    ));
                }
            }
            Verdict::pass(&vals)
        },
    );

    // ---- entries whose VALUE is null / empty: a stored key is found whatever its value
    #[derive(Clone, Debug, Hash, Serialize, Deserialize)]
    struct NullCase {
        class: usize,
        stored_rep: usize,
        probe_rep: usize,
        /// value expression
        value: String,
        /// 0 literal, 1 map.set, 2 map.merge, 3 map-merge (other first), 4 nested one level
        build: u8,
    }
    let mut nc = Vec::new();
    for (ci, c) in CLASSES.iter().enumerate() {
        for sr in 0..c.reps.len() {
            for pr in 0..c.reps.len() {
                for v in ["null", "()", "(null null)", "1"] {
                    for b in 0..5u8 {
                        nc.push(NullCase { class: ci, stored_rep: sr, probe_rep: pr, value: v.to_string(), build: b });
                    }
                }
            }
        }
    }
    ck.run(
        "null-valued-entries",
        "every key class x stored representation x probe representation x value {null, (), (null null), 1} x 5 ways to build the map",
        nc.into_iter(),
        |c: &NullCase| {
            let ks = key(c.class, c.stored_rep);
            let kp = key(c.class, c.probe_rep);
            let v = &c.value;
            let build = match c.build {
                0 => format!("({ks}: {v}, zz: 1)"),
                1 => format!("map.set((zz: 1), {ks}, {v})"),
                2 => format!("map.merge((zz: 1), ({ks}: {v}))"),
                3 => format!("map-merge(({ks}: 7), ({ks}: {v}, zz: 1))"),
                _ => format!("({ks}: {v}, zz: 1)"),
            };
            let (hk, hk2, rm) = if c.build == 4 {
                (format!("map.has-key((o: $m), o, {kp})"), format!("map-has-key((o: $m), o, {kp})"), format!("length(map.get(map.deep-remove((o: $m), o, {kp}), o))"))
            } else {
                (format!("map.has-key($m, {kp})"), format!("map-has-key($m, {kp})"), format!("length(map.remove($m, {kp}))"))
            };
            let src = format!(
                "{PRELUDE}$m: {build};\na{{h: {hk}; hg: {hk2}; g: inspect(map.get($m, {kp})); l: length($m); k: length(map.keys($m)); r: {rm}; s: inspect(map.get(map.set($m, {kp}, 5), {kp})); n: length(map.set($m, {kp}, 5))}}\n"
            );
            let d = match compile_decls(&src) {
                Ok(d) => d,
                Err(v) => return v,
            };
            let want_g = match v.as_str() {
                "(null null)" => "null null",
                o => o,
            };
            let obs: Vec<String> = ["h", "hg", "g", "l", "k", "r", "s", "n"].iter().map(|k| get(&d, k).to_string()).collect();
            let want = ["true", "true", want_g, "2", "2", "1", "5", "2"];
            if obs.iter().map(String::as_str).collect::<Vec<_>>() != want {
                return Verdict::fail(format!("map {build}, probe key {kp}: observed h,hg,g,l,k,r,s,n = {obs:?}, expected {want:?}"));
            }
            Verdict::pass(&obs)
        },
    );

    ck.finish()
}
