//! C15 Operators follow Sass precedence and associativity.
//!
//! Space: every *type-directed* expression tree with up to 3 (quick) / 4
//! (thorough) binary operators over the leaves {1,2,3,true,false} and the
//! operators `* % + - < <= > >= == != and or`, printed with minimal
//! parentheses (so every distinct string of the expression language appears
//! exactly once, parenthesised and unparenthesised forms alike).  All 12
//! operators up to 2 (quick) / 3 (thorough) operators; the deepest tier uses
//! one or two representatives per precedence level (quick: 3 operators over
//! `* % + - < == and or`; thorough: 4 operators over `* + - < == and or`).
//! The same with one or two unary `-`/`not` inserted at any node; and flat,
//! parenthesis-free operator chains of 4 (thorough 4..6) operators.
//!
//! Type direction: arithmetic and relational operators only over numeric
//! subtrees, `==`/`!=`/`and`/`or`/`not` over anything; so every generated
//! expression has a value in Sass and a disagreement can only come from
//! grouping, evaluation order or the meaning of one operator on numbers.
//!
//! Oracle (R-expr): the check re-reads the printed string with its own
//! tokenizer and a precedence-climbing parser driven by the Sass table
//! (`or` < `and` < `== !=` < `< <= > >=` < `+ -` < `* %`, all left
//! associative, unary operators bind tightest) and evaluates the tree with
//! plain f64/bool semantics (floored modulo, short-circuit and/or).
//!
//! Known-defect variants of the model (signatures): the same evaluator run
//! with rsass' grammar table (`and`/`or` on one right-recursive level;
//! equality and relational operators on one left-associative level, where a
//! relational operator applied to a non-number stays an unevaluated operation)
//! and with rsass' modulo formula.

use serde::{Deserialize, Serialize};
use std::sync::Arc;
use vp::report::{Check, Verdict};
use vp::rs::{self, Fmt, Out};

#[derive(Clone, Debug, Hash, Serialize, Deserialize)]
struct Case {
    /// the SassScript expression, exactly as compiled in `a{b:<src>}`
    src: String,
}

// ---------------------------------------------------------------------------
// operators
// ---------------------------------------------------------------------------

#[derive(Clone, Copy, Debug, PartialEq, Eq, Hash)]
enum Op {
    Mul,
    Mod,
    Add,
    Sub,
    Lt,
    Le,
    Gt,
    Ge,
    Eq,
    Ne,
    And,
    Or,
}

const ALL_OPS: &[Op] = &[
    Op::Mul,
    Op::Mod,
    Op::Add,
    Op::Sub,
    Op::Lt,
    Op::Le,
    Op::Gt,
    Op::Ge,
    Op::Eq,
    Op::Ne,
    Op::And,
    Op::Or,
];

/// One or two representatives per precedence level (thorough: 4 binary
/// operators; 3 binary + 1 unary; chains of 6).
const CORE_OPS: &[Op] = &[Op::Mul, Op::Add, Op::Sub, Op::Lt, Op::Eq, Op::And, Op::Or];

/// Quick tier, three operators: all arithmetic operators, one relational, one
/// equality, both logical.
const OPS8: &[Op] = &[
    Op::Mul,
    Op::Mod,
    Op::Add,
    Op::Sub,
    Op::Lt,
    Op::Eq,
    Op::And,
    Op::Or,
];

/// Representatives used for the long flat chains.
const CHAIN_OPS: &[Op] = &[
    Op::Mul,
    Op::Mod,
    Op::Add,
    Op::Sub,
    Op::Lt,
    Op::Ge,
    Op::Eq,
    Op::Ne,
    Op::And,
    Op::Or,
];

#[derive(Clone, Copy, PartialEq, Eq)]
enum Kind {
    Arith,
    Rel,
    Equ,
    Logic,
}

impl Op {
    fn text(self) -> &'static str {
        match self {
            Op::Mul => "*",
            Op::Mod => "%",
            Op::Add => "+",
            Op::Sub => "-",
            Op::Lt => "<",
            Op::Le => "<=",
            Op::Gt => ">",
            Op::Ge => ">=",
            Op::Eq => "==",
            Op::Ne => "!=",
            Op::And => "and",
            Op::Or => "or",
        }
    }
    fn kind(self) -> Kind {
        match self {
            Op::Mul | Op::Mod | Op::Add | Op::Sub => Kind::Arith,
            Op::Lt | Op::Le | Op::Gt | Op::Ge => Kind::Rel,
            Op::Eq | Op::Ne => Kind::Equ,
            Op::And | Op::Or => Kind::Logic,
        }
    }
}

/// A grammar table: binding level of every binary operator (higher binds
/// tighter) and which levels are right-recursive.
#[derive(Clone, Copy, Debug, PartialEq, Eq)]
struct Grammar {
    /// `and` and `or` share one right-recursive level (rsass' `single_expression`)
    andor_one_level: bool,
    /// `== !=` share the level of `< <= > >=` (rsass' `logic_expression`)
    eqrel_one_level: bool,
}

const SASS: Grammar = Grammar {
    andor_one_level: false,
    eqrel_one_level: false,
};

impl Grammar {
    fn level(self, op: Op) -> u8 {
        match op {
            Op::Or => 1,
            Op::And => {
                if self.andor_one_level {
                    1
                } else {
                    2
                }
            }
            Op::Eq | Op::Ne => 3,
            Op::Lt | Op::Le | Op::Gt | Op::Ge => {
                if self.eqrel_one_level {
                    3
                } else {
                    4
                }
            }
            Op::Add | Op::Sub => 5,
            Op::Mul | Op::Mod => 6,
        }
    }
    fn right_assoc(self, level: u8) -> bool {
        self.andor_one_level && level == 1
    }
}

// ---------------------------------------------------------------------------
// tokenizer + precedence-climbing parser (reads the printed string)
// ---------------------------------------------------------------------------

#[derive(Clone, Copy, Debug, PartialEq)]
enum Tok {
    Num(f64),
    True,
    False,
    Not,
    LP,
    RP,
    Op(Op),
}

fn tokenize(s: &str) -> Result<Vec<Tok>, String> {
    let b = s.as_bytes();
    let mut i = 0;
    let mut out = Vec::new();
    while i < b.len() {
        let c = b[i];
        if c == b' ' {
            i += 1;
        } else if c.is_ascii_digit() {
            let st = i;
            while i < b.len() && b[i].is_ascii_digit() {
                i += 1;
            }
            out.push(Tok::Num(s[st..i].parse::<f64>().map_err(|e| e.to_string())?));
        } else if c.is_ascii_lowercase() {
            let st = i;
            while i < b.len() && b[i].is_ascii_lowercase() {
                i += 1;
            }
            out.push(match &s[st..i] {
                "true" => Tok::True,
                "false" => Tok::False,
                "not" => Tok::Not,
                "and" => Tok::Op(Op::And),
                "or" => Tok::Op(Op::Or),
                w => return Err(format!("unknown word {w:?}")),
            });
        } else {
            let two = if i + 1 < b.len() { &s[i..i + 2] } else { "" };
            let (t, n) = match two {
                "<=" => (Tok::Op(Op::Le), 2),
                ">=" => (Tok::Op(Op::Ge), 2),
                "==" => (Tok::Op(Op::Eq), 2),
                "!=" => (Tok::Op(Op::Ne), 2),
                _ => match c {
                    b'(' => (Tok::LP, 1),
                    b')' => (Tok::RP, 1),
                    b'*' => (Tok::Op(Op::Mul), 1),
                    b'%' => (Tok::Op(Op::Mod), 1),
                    b'+' => (Tok::Op(Op::Add), 1),
                    b'-' => (Tok::Op(Op::Sub), 1),
                    b'<' => (Tok::Op(Op::Lt), 1),
                    b'>' => (Tok::Op(Op::Gt), 1),
                    _ => return Err(format!("unexpected character {:?}", c as char)),
                },
            };
            out.push(t);
            i += n;
        }
    }
    Ok(out)
}

#[derive(Clone, Debug, PartialEq)]
enum Ast {
    Num(f64),
    Bool(bool),
    Neg(Box<Ast>),
    Not(Box<Ast>),
    Bin(Op, Box<Ast>, Box<Ast>),
}

struct Parser<'a> {
    t: &'a [Tok],
    i: usize,
    g: Grammar,
}

impl Parser<'_> {
    fn peek(&self) -> Option<Tok> {
        self.t.get(self.i).copied()
    }
    fn expr(&mut self, min_level: u8) -> Result<Ast, String> {
        let mut lhs = self.unary()?;
        while let Some(Tok::Op(op)) = self.peek() {
            let lvl = self.g.level(op);
            if lvl < min_level {
                break;
            }
            self.i += 1;
            let next = if self.g.right_assoc(lvl) { lvl } else { lvl + 1 };
            let rhs = self.expr(next)?;
            lhs = Ast::Bin(op, Box::new(lhs), Box::new(rhs));
        }
        Ok(lhs)
    }
    fn unary(&mut self) -> Result<Ast, String> {
        match self.peek() {
            Some(Tok::Op(Op::Sub)) => {
                // operand position: a sign.  Directly followed by a number it
                // is a negative literal, otherwise unary minus.
                self.i += 1;
                match self.peek() {
                    Some(Tok::Num(n)) => {
                        self.i += 1;
                        Ok(Ast::Num(-n))
                    }
                    _ => Ok(Ast::Neg(Box::new(self.unary()?))),
                }
            }
            Some(Tok::Not) => {
                self.i += 1;
                Ok(Ast::Not(Box::new(self.unary()?)))
            }
            Some(Tok::Num(n)) => {
                self.i += 1;
                Ok(Ast::Num(n))
            }
            Some(Tok::True) => {
                self.i += 1;
                Ok(Ast::Bool(true))
            }
            Some(Tok::False) => {
                self.i += 1;
                Ok(Ast::Bool(false))
            }
            Some(Tok::LP) => {
                self.i += 1;
                let e = self.expr(0)?;
                if self.peek() != Some(Tok::RP) {
                    return Err("expected )".into());
                }
                self.i += 1;
                Ok(e)
            }
            t => Err(format!("unexpected token {t:?}")),
        }
    }
}

fn parse(toks: &[Tok], g: Grammar) -> Result<Ast, String> {
    let mut p = Parser { t: toks, i: 0, g };
    let e = p.expr(0)?;
    if p.i != toks.len() {
        return Err(format!("trailing tokens at {}", p.i));
    }
    Ok(e)
}

// ---------------------------------------------------------------------------
// types (for type-directed generation and the self-check)
// ---------------------------------------------------------------------------

#[derive(Clone, Copy, Debug, PartialEq, Eq)]
enum Ty {
    N,
    B,
    /// number or boolean, depending on the operand values (`true and 1`)
    M,
}

fn join_ty(op: Op, l: Ty, r: Ty) -> Option<Ty> {
    match op.kind() {
        Kind::Arith => (l == Ty::N && r == Ty::N).then_some(Ty::N),
        Kind::Rel => (l == Ty::N && r == Ty::N).then_some(Ty::B),
        Kind::Equ => Some(Ty::B),
        Kind::Logic => Some(match (l, r) {
            (Ty::N, Ty::N) => Ty::N,
            (Ty::B, Ty::B) => Ty::B,
            _ => Ty::M,
        }),
    }
}

fn type_of(a: &Ast) -> Option<Ty> {
    match a {
        Ast::Num(_) => Some(Ty::N),
        Ast::Bool(_) => Some(Ty::B),
        Ast::Neg(x) => (type_of(x)? == Ty::N).then_some(Ty::N),
        Ast::Not(x) => type_of(x).map(|_| Ty::B),
        Ast::Bin(op, l, r) => join_ty(*op, type_of(l)?, type_of(r)?),
    }
}

// ---------------------------------------------------------------------------
// evaluator
// ---------------------------------------------------------------------------

#[derive(Clone, Debug, PartialEq)]
enum V {
    Num(f64),
    Bool(bool),
    /// rsass variant only: a relational operation on a non-number that was
    /// left unevaluated (`false < 2`); truthy; an error once it is output.
    Uneval(String),
    /// rsass variant only: `not` of an unevaluated operation, printed as text.
    Raw(String),
}

#[derive(Clone, Copy, Debug, PartialEq, Eq)]
struct Sem {
    /// rsass' `Number % Number` formula
    rsass_modulo: bool,
    /// relational operator on a non-number: unevaluated operation instead of
    /// a type error (only reachable with `eqrel_one_level`)
    uneval_rel: bool,
}

const SASS_SEM: Sem = Sem {
    rsass_modulo: false,
    uneval_rel: false,
};

/// Sass `%`: floored modulo, the result has the sign of the divisor.
fn sass_mod(a: f64, b: f64) -> f64 {
    if b == 0.0 || a.is_nan() || b.is_nan() {
        return f64::NAN;
    }
    let r = a % b; // sign of a
    if r == 0.0 {
        0.0
    } else if (r < 0.0) != (b < 0.0) {
        r + b
    } else {
        r
    }
}

/// The formula in rsass `impl Rem for &Number` (value/number.rs).
fn rsass_mod(a: f64, b: f64) -> f64 {
    let result = a % b;
    if a != 0.0 && (b.is_sign_negative() != a.is_sign_negative()) {
        if b.is_finite() {
            result + b
        } else {
            f64::NAN
        }
    } else {
        result
    }
}

fn fmt_num(x: f64) -> String {
    if x.is_nan() {
        "calc(NaN)".into()
    } else if x.is_infinite() {
        if x > 0.0 { "calc(infinity)".into() } else { "calc(-infinity)".into() }
    } else if x == 0.0 {
        "0".into()
    } else if x.fract() == 0.0 && x.abs() < 1e15 {
        format!("{}", x as i64)
    } else {
        format!("{x}")
    }
}

fn fmt_v(v: &V) -> String {
    match v {
        V::Num(x) => fmt_num(*x),
        V::Bool(b) => b.to_string(),
        V::Uneval(s) | V::Raw(s) => s.clone(),
    }
}

fn truthy(v: &V) -> bool {
    !matches!(v, V::Bool(false))
}

fn v_eq(a: &V, b: &V) -> bool {
    match (a, b) {
        (V::Num(x), V::Num(y)) => x == y, // NaN != NaN, -0 == 0
        (V::Bool(x), V::Bool(y)) => x == y,
        (V::Uneval(x), V::Uneval(y)) | (V::Raw(x), V::Raw(y)) => x == y,
        _ => false,
    }
}

fn eval(a: &Ast, sem: Sem) -> Result<V, String> {
    Ok(match a {
        Ast::Num(x) => V::Num(*x),
        Ast::Bool(b) => V::Bool(*b),
        Ast::Neg(x) => match eval(x, sem)? {
            V::Num(x) => V::Num(-x),
            v => return Err(format!("ill-typed: -{}", fmt_v(&v))),
        },
        Ast::Not(x) => match eval(x, sem)? {
            V::Uneval(s) | V::Raw(s) => V::Raw(format!("not {s}")),
            v => V::Bool(!truthy(&v)),
        },
        Ast::Bin(op, l, r) => match op.kind() {
            Kind::Logic => {
                let lv = eval(l, sem)?;
                let take_right = if *op == Op::And { truthy(&lv) } else { !truthy(&lv) };
                if take_right {
                    eval(r, sem)?
                } else {
                    lv
                }
            }
            Kind::Equ => {
                let e = v_eq(&eval(l, sem)?, &eval(r, sem)?);
                V::Bool(if *op == Op::Eq { e } else { !e })
            }
            Kind::Rel => match (eval(l, sem)?, eval(r, sem)?) {
                (V::Num(x), V::Num(y)) => V::Bool(match op {
                    Op::Lt => x < y,
                    Op::Le => x <= y,
                    Op::Gt => x > y,
                    _ => x >= y,
                }),
                (x, y) => {
                    if sem.uneval_rel {
                        V::Uneval(format!("{} {} {}", fmt_v(&x), op.text(), fmt_v(&y)))
                    } else {
                        return Err(format!(
                            "ill-typed: {} {} {}",
                            fmt_v(&x),
                            op.text(),
                            fmt_v(&y)
                        ));
                    }
                }
            },
            Kind::Arith => match (eval(l, sem)?, eval(r, sem)?) {
                (V::Num(x), V::Num(y)) => V::Num(match op {
                    Op::Mul => x * y,
                    Op::Add => x + y,
                    Op::Sub => x - y,
                    _ => {
                        if sem.rsass_modulo {
                            rsass_mod(x, y)
                        } else {
                            sass_mod(x, y)
                        }
                    }
                }),
                (x, y) => {
                    return Err(format!(
                        "ill-typed: {} {} {}",
                        fmt_v(&x),
                        op.text(),
                        fmt_v(&y)
                    ))
                }
            },
        },
    })
}

/// What a declaration `b: <expr>` shows for the value.
#[derive(Clone, Debug, PartialEq, Eq, Hash)]
enum Shown {
    Text(String),
    /// first line of the error message
    Error(String),
}

fn shown_of(v: Result<V, String>) -> Shown {
    match v {
        Ok(V::Uneval(s)) => Shown::Error(format!("Undefined operation \"{s}\".")),
        Ok(v) => Shown::Text(fmt_v(&v)),
        Err(e) => Shown::Error(e),
    }
}

fn observe(out: &Out) -> Result<Shown, String> {
    match out {
        Out::Css(s) => Ok(Shown::Text(if s == "-0" { "0".into() } else { s.clone() })),
        Out::Err(e) => Ok(Shown::Error(e.lines().next().unwrap_or("").to_string())),
        Out::Panic(p) => Err(p.clone()),
    }
}

// ---------------------------------------------------------------------------
// the check of one case
// ---------------------------------------------------------------------------

fn variant_name(g: Grammar, sem: Sem) -> String {
    let mut parts = Vec::new();
    if g.andor_one_level {
        parts.push("andor-one-level");
    }
    if g.eqrel_one_level {
        parts.push("eqrel-one-level");
    }
    if sem.rsass_modulo {
        parts.push("modulo-sign");
    }
    parts.join("+")
}

fn check(c: &Case) -> Verdict {
    let toks = match tokenize(&c.src) {
        Ok(t) => t,
        Err(e) => panic!("harness: cannot tokenize {:?}: {e}", c.src),
    };
    let ast = match parse(&toks, SASS) {
        Ok(a) => a,
        Err(e) => panic!("harness: cannot parse {:?}: {e}", c.src),
    };
    if type_of(&ast).is_none() {
        panic!("harness: generated expression is ill-typed: {:?}", c.src);
    }
    let want = match eval(&ast, SASS_SEM) {
        Ok(v) => Shown::Text(fmt_v(&v)),
        Err(e) => panic!("harness: reference evaluation failed for {:?}: {e}", c.src),
    };
    let out = rs::eval_expr("", &c.src, Fmt::EXPANDED);
    let got = match observe(&out) {
        Ok(g) => g,
        Err(p) => {
            let site = p.split(": ").next().unwrap_or("?").to_string();
            let site = site.rsplitn(2, ':').last().unwrap_or("?").to_string();
            return Verdict::fail_sig(format!("panic:{site}"), format!("{}: panic {p}", c.src));
        }
    };
    if got == want {
        return Verdict::pass(&got);
    }
    // known-defect variants, smallest set of switches first
    let variants: [(bool, bool, bool); 7] = [
        (false, false, true),
        (true, false, false),
        (false, true, false),
        (true, false, true),
        (false, true, true),
        (true, true, false),
        (true, true, true),
    ];
    for (a, b, m) in variants {
        let g = Grammar {
            andor_one_level: a,
            eqrel_one_level: b,
        };
        let sem = Sem {
            rsass_modulo: m,
            uneval_rel: b,
        };
        let Ok(vast) = parse(&toks, g) else { continue };
        let pred = shown_of(eval(&vast, sem));
        if pred == got {
            return Verdict::fail_sig(
                variant_name(g, sem),
                format!(
                    "{}: got {got:?}, Sass grammar gives {want:?}; real output equals the known-defect model [{}]",
                    c.src,
                    variant_name(g, sem)
                ),
            );
        }
    }
    Verdict::fail(format!("{}: got {got:?}, expected {want:?}", c.src))
}

// ---------------------------------------------------------------------------
// enumeration: typed trees printed with minimal parentheses
// ---------------------------------------------------------------------------

#[derive(Clone, Debug)]
struct Item {
    s: Box<str>,
    ty: Ty,
    /// Sass level of the top operator; 7 for atoms and unary expressions
    lvl: u8,
    /// a positive numeric literal (unary minus prints it as a signed literal)
    pos_leaf: bool,
}

fn leaves() -> Vec<Item> {
    let mut v = Vec::new();
    for n in ["1", "2", "3"] {
        v.push(Item {
            s: n.into(),
            ty: Ty::N,
            lvl: 7,
            pos_leaf: true,
        });
    }
    for b in ["true", "false"] {
        v.push(Item {
            s: b.into(),
            ty: Ty::B,
            lvl: 7,
            pos_leaf: false,
        });
    }
    v
}

fn join(l: &Item, op: Op, r: &Item) -> Option<Item> {
    let ty = join_ty(op, l.ty, r.ty)?;
    let lvl = SASS.level(op);
    let mut s = String::with_capacity(l.s.len() + r.s.len() + 10);
    // left-associative levels: the left operand may be of the same level
    if l.lvl < lvl {
        s.push('(');
        s.push_str(&l.s);
        s.push(')');
    } else {
        s.push_str(&l.s);
    }
    s.push(' ');
    s.push_str(op.text());
    s.push(' ');
    if r.lvl <= lvl {
        s.push('(');
        s.push_str(&r.s);
        s.push(')');
    } else {
        s.push_str(&r.s);
    }
    Some(Item {
        s: s.into(),
        ty,
        lvl,
        pos_leaf: false,
    })
}

fn wrap_unary(x: &Item) -> Vec<Item> {
    let mut v = Vec::new();
    let inner = if x.lvl < 7 {
        format!("({})", x.s)
    } else {
        x.s.to_string()
    };
    v.push(Item {
        s: format!("not {inner}").into(),
        ty: Ty::B,
        lvl: 7,
        pos_leaf: false,
    });
    if x.ty == Ty::N {
        let s = if x.pos_leaf {
            format!("-{}", x.s)
        } else {
            format!("-({})", x.s)
        };
        v.push(Item {
            s: s.into(),
            ty: Ty::N,
            lvl: 7,
            pos_leaf: false,
        });
    }
    v
}

/// tables[k][u]: all typed trees with k binary and u unary operators.
fn build_tables(ops: &[Op], max_k: usize, max_u: usize, budget: impl Fn(usize, usize) -> bool) -> Vec<Vec<Vec<Item>>> {
    let mut t: Vec<Vec<Vec<Item>>> = vec![vec![Vec::new(); max_u + 1]; max_k + 1];
    for k in 0..=max_k {
        for u in 0..=max_u {
            if !budget(k, u) {
                continue;
            }
            let mut items = Vec::new();
            if k == 0 && u == 0 {
                items = leaves();
            }
            if u >= 1 {
                for x in &t[k][u - 1] {
                    items.extend(wrap_unary(x));
                }
            }
            if k >= 1 {
                for i in 0..k {
                    let j = k - 1 - i;
                    for ui in 0..=u {
                        let uj = u - ui;
                        for &op in ops {
                            for l in &t[i][ui] {
                                for r in &t[j][uj] {
                                    if let Some(it) = join(l, op, r) {
                                        items.push(it);
                                    }
                                }
                            }
                        }
                    }
                }
            }
            t[k][u] = items;
        }
    }
    t
}

/// Lazily: all trees with exactly `k` binary operators (no unary) whose
/// subtrees come from `t[..k]`.
fn compose_lazy(t: Arc<Vec<Vec<Item>>>, ops: &'static [Op], k: usize) -> impl Iterator<Item = Case> {
    (0..k).flat_map(move |i| {
        let j = k - 1 - i;
        let t = t.clone();
        ops.iter().flat_map(move |&op| {
            let t = t.clone();
            (0..t[i].len()).flat_map(move |li| {
                let t = t.clone();
                (0..t[j].len()).filter_map(move |ri| {
                    join(&t[i][li], op, &t[j][ri]).map(|it| Case { src: it.s.into() })
                })
            })
        })
    })
}

/// Flat chains `x0 op1 x1 ... opn xn` without parentheses.  Leaves next to an
/// arithmetic or relational operator are numbers; the others range over
/// {number, boolean}; two value patterns; ill-typed chains are dropped.
fn chains(ops_set: &'static [Op], n: usize) -> impl Iterator<Item = Case> {
    let nums_a = ["1", "2", "3", "1", "2", "3", "1", "2"];
    let nums_b = ["3", "1", "2", "2", "3", "1", "3", "2"];
    let bool_a = ["true", "false", "false", "true", "false", "true", "true", "false"];
    let bool_b = ["false", "false", "true", "false", "true", "true", "false", "true"];
    vp::gen::seqs(ops_set.len(), n).flat_map(move |ops| {
        let ops: Vec<Op> = ops.iter().map(|i| ops_set[*i]).collect();
        let free: Vec<usize> = (0..=n)
            .filter(|&p| {
                let tight = |o: Op| matches!(o.kind(), Kind::Arith | Kind::Rel);
                !(p > 0 && tight(ops[p - 1])) && !(p < n && tight(ops[p]))
            })
            .collect();
        let mut out = Vec::new();
        for mask in 0..(1u32 << free.len()) {
            for pat in 0..2 {
                let mut s = String::new();
                for p in 0..=n {
                    let is_bool = free
                        .iter()
                        .position(|f| *f == p)
                        .map(|k| mask & (1 << k) != 0)
                        .unwrap_or(false);
                    let leaf = match (is_bool, pat) {
                        (false, 0) => nums_a[p],
                        (false, _) => nums_b[p],
                        (true, 0) => bool_a[p],
                        (true, _) => bool_b[p],
                    };
                    if p > 0 {
                        s.push(' ');
                        s.push_str(ops[p - 1].text());
                        s.push(' ');
                    }
                    s.push_str(leaf);
                }
                let typed = tokenize(&s)
                    .ok()
                    .and_then(|t| parse(&t, SASS).ok())
                    .and_then(|a| type_of(&a))
                    .is_some();
                if typed {
                    out.push(Case { src: s });
                }
            }
        }
        out
    })
}

fn main() {
    let ck = Check::from_args("C15");
    let quick = ck.quick();
    ck.rule("type-directed expression trees over {1,2,3,true,false} and * % + - < <= > >= == != and or (arithmetic/relational only over numeric subtrees), printed with minimal parentheses, one case per distinct string; plus the same with 1-2 unary -/not at any node; plus flat chains; distinct = distinct source text; outcome = printed value or error head");
    ck.assume("the reference evaluator's Sass table: or < and < ==,!= < <,<=,>,>= < +,- < *,% ; all left-associative; unary -/not bind tightest; % is floored modulo; and/or short-circuit and return an operand");

    // In replay mode only the section of the recorded case runs; nothing is enumerated.
    let replay = ck.is_replay();
    let none = || std::iter::empty::<Case>();

    // ---- section 1: all trees, full operator set
    if replay {
        ck.run("trees-full", "", none(), check);
    } else {
        let full_k = if quick { 2 } else { 3 };
        let t_full = build_tables(ALL_OPS, full_k, 0, |_, _| true);
        let small: Vec<Case> = (0..=full_k)
            .flat_map(|k| t_full[k][0].iter().map(|it| Case { src: it.s.to_string() }))
            .collect();
        ck.run(
            "trees-full",
            if quick {
                "every typed tree with <= 2 binary operators, all 12 operators, 5 leaves"
            } else {
                "every typed tree with <= 3 binary operators, all 12 operators, 5 leaves"
            },
            small.into_iter(),
            check,
        );
    }

    // ---- section 2 (quick): three operators over 8 operators (thorough covers
    // three operators with all 12 in trees-full)
    if replay {
        ck.run("trees-3", "", none(), check);
    } else if quick {
        let t = build_tables(OPS8, 3, 0, |_, _| true);
        let cases: Vec<Case> = t[3][0].iter().map(|it| Case { src: it.s.to_string() }).collect();
        ck.run(
            "trees-3",
            "every typed tree with exactly 3 binary operators over * % + - < == and or, 5 leaves",
            cases.into_iter(),
            check,
        );
    }

    // ---- section 3 (thorough): deepest tier, one or two operators per level
    if replay {
        ck.run("trees-4", "", none(), check);
    } else if !quick {
        let t_core = build_tables(CORE_OPS, 3, 0, |_, _| true);
        let flat: Vec<Vec<Item>> = t_core.into_iter().map(|mut v| v.swap_remove(0)).collect();
        let flat = Arc::new(flat);
        ck.run(
            "trees-4",
            "every typed tree with exactly 4 binary operators over * + - < == and or, 5 leaves",
            compose_lazy(flat, CORE_OPS, 4),
            check,
        );
    }

    // ---- section 4: unary operators at any node
    if replay {
        ck.run("unary", "", none(), check);
    } else {
        // quick: k<=2 with 1 unary, k<=1 with 2; thorough: k<=2 with <=2, k=3 (core ops) with 1
        let t = build_tables(ALL_OPS, 2, 2, |k, u| u <= 1 || !quick || k <= 1);
        let mut cases: Vec<Case> = Vec::new();
        for u in 1..=2 {
            for k in 0..=2 {
                cases.extend(t[k][u].iter().map(|it| Case { src: it.s.to_string() }));
            }
        }
        if !quick {
            let t3 = build_tables(CORE_OPS, 3, 1, |_, _| true);
            cases.extend(t3[3][1].iter().map(|it| Case { src: it.s.to_string() }));
        }
        ck.run(
            "unary",
            if quick {
                "trees with <= 2 binary operators and 1 unary -/not at any node, <= 1 binary and 2 unary"
            } else {
                "trees with <= 2 binary operators and 1..2 unary -/not at any node (12 ops); 3 binary (7 ops) and 1 unary"
            },
            cases.into_iter(),
            check,
        );
    }

    // ---- section 5: long flat chains
    if replay {
        ck.run("chains", "", none(), check);
    } else {
        let lens: Vec<(&'static [Op], usize)> = if quick {
            vec![(CHAIN_OPS, 4)]
        } else {
            vec![(CHAIN_OPS, 4), (CHAIN_OPS, 5), (CORE_OPS, 6)]
        };
        ck.run(
            "chains",
            if quick {
                "parenthesis-free chains of 4 operators over 10 operators, 2 value patterns"
            } else {
                "parenthesis-free chains of 4..5 operators over 10 operators and of 6 operators over 7 operators, 2 value patterns"
            },
            lens.into_iter().flat_map(|(o, n)| chains(o, n)),
            check,
        );
    }

    ck.finish()
}
