//! C21 Evaluated content is never silently dropped.
//!
//! Space: every ordered forest of top-level statements with <= N nodes (all
//! shapes, <= 3 children) plus every container *chain* up to depth D over
//!   containers  R rule            N nested property block `font: {..}`
//!               M @media          S @supports        U unknown at-rule   K @keyframes frame
//!               F @font-face      A @at-root         B @at-root e
//!               I mixin body (@include)              T content block (@include w {..})
//!               Q @if true        E @else branch     L @each (2 rounds)  O @for   W @while
//!               X @import "f"     Y @use "f"         Z @forward "f"      J meta.load-css("f")
//!               P @import of a plain CSS file f.css
//!               (X/Y/Z/J/P: the children are the content of an in-memory file)
//!   markers     d declaration     p custom property  a `@mkN x;`         b `@mkN x {y: v}`
//!               l `@layer mkN;`   g `@page mkN {y: v}`  c loud comment   i `@import url(mkN.css)`
//! Oracle: the compilation fails, or every marker (all are reached) is found in
//! the parsed output (vp::css) at least as often as evaluation reaches it.
//! `@error` sections: the same containers with `@error` statements (leaf e) and
//! functions whose body reaches `@error`, called from every kind of expression
//! position; the compilation must fail.

use serde::{Deserialize, Serialize};
use std::collections::{BTreeMap, BTreeSet, HashMap};
use vp::css::{self, Node as CssNode, Tok};
use vp::report::{Check, Verdict};
use vp::rs::{self, Fmt, Out};

#[derive(Clone, Debug, Hash, Serialize, Deserialize)]
struct Case {
    /// encoded forest of top-level statements, e.g. `R(N(M(d))d)`
    tree: String,
}

#[derive(Clone, Debug)]
struct N {
    k: char,
    ch: Vec<N>,
}

const MARKERS: &[char] = &['d', 'p', 'a', 'b', 'l', 'g', 'c', 'i'];
const CONTAINERS: &[char] = &[
    'R', 'N', 'M', 'S', 'U', 'K', 'F', 'A', 'B', 'I', 'T', 'Q', 'E', 'L', 'O', 'W', 'X', 'Y', 'Z', 'J', 'P',
];
/// function call sites (error sections only): the children are the function body
const CALLSITES: &[char] = &['1', '2', '3', '4', '5', '6', '7', '8', '9'];
/// statements allowed in a function body
const FN_BODY: &[char] = &['e', 'Q', 'E', 'L', 'O', 'W'];

fn is_leaf(k: char) -> bool {
    MARKERS.contains(&k) || k == 'e'
}

// ---------- tree encoding ----------

fn parse_forest(s: &str) -> Option<Vec<N>> {
    fn forest(b: &[u8], i: &mut usize) -> Option<Vec<N>> {
        let mut out = Vec::new();
        while *i < b.len() && b[*i] != b')' {
            let k = b[*i] as char;
            *i += 1;
            let mut ch = Vec::new();
            if *i < b.len() && b[*i] == b'(' {
                *i += 1;
                ch = forest(b, i)?;
                if *i >= b.len() || b[*i] != b')' {
                    return None;
                }
                *i += 1;
            }
            let cont = CONTAINERS.contains(&k) || CALLSITES.contains(&k);
            if !(is_leaf(k) && ch.is_empty() || cont && !ch.is_empty()) {
                return None;
            }
            out.push(N { k, ch });
        }
        Some(out)
    }
    let b = s.as_bytes();
    let mut i = 0;
    let f = forest(b, &mut i)?;
    if i != b.len() {
        return None;
    }
    Some(f)
}

// ---------- enumeration ----------

struct Gen {
    leaves: Vec<char>,
    conts: Vec<char>,
    /// max children per node
    maxk: usize,
    trees: HashMap<(usize, usize), std::rc::Rc<Vec<String>>>,
}

impl Gen {
    fn new(leaves: &[char], conts: &[char], maxk: usize) -> Gen {
        Gen {
            leaves: leaves.to_vec(),
            conts: conts.to_vec(),
            maxk,
            trees: HashMap::new(),
        }
    }
    fn tree(&mut self, n: usize, d: usize) -> std::rc::Rc<Vec<String>> {
        if let Some(t) = self.trees.get(&(n, d)) {
            return t.clone();
        }
        let mut out = Vec::new();
        if d >= 1 && n == 1 {
            for l in &self.leaves {
                out.push(l.to_string());
            }
        } else if d >= 2 && n >= 2 {
            let mut inner = Vec::new();
            let k = self.maxk;
            self.forests(n - 1, d - 1, k, &mut String::new(), &mut inner);
            for c in self.conts.clone() {
                for f in &inner {
                    out.push(format!("{c}({f})"));
                }
            }
        }
        let rc = std::rc::Rc::new(out);
        self.trees.insert((n, d), rc.clone());
        rc
    }
    /// all forests with exactly n nodes, 1..=k trees, depth <= d
    fn forests(&mut self, n: usize, d: usize, k: usize, prefix: &mut String, out: &mut Vec<String>) {
        if k == 0 {
            return;
        }
        for i in 1..=n {
            let ts = self.tree(i, d);
            for t in ts.iter() {
                let len = prefix.len();
                prefix.push_str(t);
                if i == n {
                    out.push(prefix.clone());
                } else {
                    self.forests(n - i, d, k - 1, prefix, out);
                }
                prefix.truncate(len);
            }
        }
    }
}

// ---------- program printer ----------

#[derive(Default)]
struct Printer {
    id: usize,
    files: Vec<(String, String)>,
    /// (id, kind, how often evaluation reaches it)
    markers: Vec<(usize, char, usize)>,
    /// marker ids inside each swallow root (see `lost_by_nsrule`)
    lost: BTreeSet<usize>,
    /// comment markers (ids), and `@error`s reachable only through a comment
    comment_only_errors: bool,
}

#[derive(Clone, Copy)]
struct Pc {
    mult: usize,
    /// the CssDestination the statement is pushed to is a nested property block
    in_ns: bool,
    /// inside an at-rule with a body that is pushed to a nested property block
    swallowed: bool,
}

impl Printer {
    /// returns (definitions to put before the enclosing top-level statement, text)
    fn node(&mut self, n: &N, pc: Pc) -> (String, String) {
        self.id += 1;
        let i = self.id;
        let mark = |me: &mut Printer| {
            me.markers.push((i, n.k, pc.mult));
            if pc.swallowed {
                me.lost.insert(i);
            }
        };
        // an at-rule with a body pushed to a nested property block is lost as a whole
        let body_at = |pc: Pc| Pc {
            in_ns: false,
            swallowed: pc.swallowed || pc.in_ns,
            ..pc
        };
        let plain = |pc: Pc| Pc { in_ns: false, ..pc };
        match n.k {
            'd' => {
                mark(self);
                (String::new(), format!("mk{i}: v;"))
            }
            'p' => {
                mark(self);
                (String::new(), format!("--mk{i}: v;"))
            }
            'a' => {
                mark(self);
                (String::new(), format!("@mk{i} x;"))
            }
            'b' => {
                self.markers.push((i, n.k, pc.mult));
                if pc.swallowed || pc.in_ns {
                    self.lost.insert(i);
                }
                (String::new(), format!("@mk{i} x {{ y: v }}"))
            }
            'l' => {
                mark(self);
                (String::new(), format!("@layer mk{i};"))
            }
            'g' => {
                self.markers.push((i, n.k, pc.mult));
                if pc.swallowed || pc.in_ns {
                    self.lost.insert(i);
                }
                (String::new(), format!("@page mk{i} {{ y: v }}"))
            }
            'c' => {
                mark(self);
                (String::new(), format!("/* mk{i} */"))
            }
            'i' => {
                mark(self);
                (String::new(), format!("@import url(mk{i}.css);"))
            }
            'e' => (String::new(), format!("@error \"boom{i}\";")),
            'R' => self.block("b", &n.ch, plain(pc)),
            'N' => self.block("font:", &n.ch, Pc { in_ns: true, ..pc }),
            'M' => self.block("@media m", &n.ch, body_at(pc)),
            'S' => self.block("@supports (s: s)", &n.ch, body_at(pc)),
            'U' => self.block("@foo bar", &n.ch, body_at(pc)),
            'K' => {
                let (d, t) = self.block("from", &n.ch, body_at(pc));
                (d, format!("@keyframes k{i} {{ {t} }}"))
            }
            'F' => self.block("@font-face", &n.ch, body_at(pc)),
            'A' => self.block("@at-root", &n.ch, pc),
            'B' => self.block("@at-root e", &n.ch, plain(pc)),
            'I' => {
                let (d, t) = self.block(&format!("@mixin m{i}"), &n.ch, pc);
                (format!("{d}{t}\n"), format!("@include m{i};"))
            }
            'T' => {
                let (d, t) = self.block(&format!("@include w{i}"), &n.ch, pc);
                (format!("{d}@mixin w{i} {{ @content }}\n"), t)
            }
            'Q' => self.block("@if true", &n.ch, pc),
            'E' => {
                let (d, t) = self.block("@else", &n.ch, pc);
                (d, format!("@if false {{ }} {t}"))
            }
            'L' => self.block(
                "@each $x in 1 2",
                &n.ch,
                Pc {
                    mult: pc.mult * 2,
                    ..pc
                },
            ),
            'O' => self.block("@for $x from 1 through 1", &n.ch, pc),
            'W' => {
                // the counter is declared next to the loop and set in the loop body's own
                // scope, so the loop ends whatever rsass does with enclosing scopes
                let (d, t) = self.block(&format!("@while $w{i} < 1"), &n.ch, pc);
                let t = t.replacen('{', &format!("{{ $w{i}: 1;"), 1);
                (d, format!("$w{i}: 0; {t}"))
            }
            'X' | 'Y' | 'Z' | 'J' | 'P' => {
                // a loaded file starts at its own top level; only load-css keeps the destination
                // a module (@use/@forward) is evaluated once however often the rule is reached
                let inner = match n.k {
                    'J' => pc,
                    'X' | 'P' => plain(pc),
                    _ => Pc { mult: 1, ..plain(pc) },
                };
                let text = self.file(&n.ch, inner);
                let ext = if n.k == 'P' { "css" } else { "scss" };
                self.files.push((format!("f{i}.{ext}"), text));
                let stmt = match n.k {
                    'X' | 'P' => format!("@import \"f{i}\";"),
                    'Y' => format!("@use \"f{i}\";"),
                    'Z' => format!("@forward \"f{i}\";"),
                    _ => format!("@include meta.load-css(\"f{i}\");"),
                };
                (String::new(), stmt)
            }
            '1'..='9' => {
                // function whose body is the children; called from one kind of position
                let (d, t) = self.block(&format!("@function fn{i}()"), &n.ch, plain(pc));
                let t = format!("{} @return 1; }}", t.strip_suffix('}').unwrap_or(&t));
                let call = format!("fn{i}()");
                let site = match n.k {
                    '1' => format!("z{i}: {call};"),
                    '2' => format!("$v{i}: {call};"),
                    '3' => format!("@if {call} == 1 {{ }}"),
                    '4' => format!("b#{{{call}}} {{ z{i}: v }}"),
                    '5' => format!("@media #{{{call}}} {{ b {{ z{i}: v }} }}"),
                    '6' => format!("z#{{{call}}}: v;"),
                    '7' => {
                        if pc.mult > 0 {
                            self.comment_only_errors = true;
                        }
                        format!("/* z #{{{call}}} */")
                    }
                    '8' => format!("@each $x in {call} {{ }}"),
                    _ => format!("@include n{i}({call});"),
                };
                let defs = if n.k == '9' {
                    format!("{d}{t}\n@mixin n{i}($a) {{ }}\n")
                } else {
                    format!("{d}{t}\n")
                };
                (defs, site)
            }
            _ => unreachable!(),
        }
    }

    fn block(&mut self, header: &str, ch: &[N], pc: Pc) -> (String, String) {
        let mut defs = String::new();
        let mut text = format!("{header} {{ ");
        for c in ch {
            let (d, t) = self.node(c, pc);
            defs.push_str(&d);
            text.push_str(&t);
            text.push(' ');
        }
        text.push('}');
        (defs, text)
    }

    fn file(&mut self, ch: &[N], pc: Pc) -> String {
        let mut text = String::new();
        for c in ch {
            let (d, t) = self.node(c, pc);
            text.push_str(&d);
            text.push_str(&t);
            text.push('\n');
        }
        if text.contains("meta.") {
            text = format!("@use \"sass:meta\";\n{text}");
        }
        text
    }
}

struct Program {
    root: String,
    files: Vec<(String, String)>,
    markers: Vec<(usize, char, usize)>,
    lost: BTreeSet<usize>,
    comment_only_errors: bool,
}

fn build(forest: &[N]) -> Program {
    let mut p = Printer::default();
    let root = p.file(
        forest,
        Pc {
            mult: 1,
            in_ns: false,
            swallowed: false,
        },
    );
    Program {
        root,
        files: p.files,
        markers: p.markers,
        lost: p.lost,
        comment_only_errors: p.comment_only_errors,
    }
}

fn show(p: &Program) -> String {
    let mut s = p.root.replace('\n', " ");
    for (n, t) in &p.files {
        s.push_str(&format!(" [{n}: {}]", t.replace('\n', " ")));
    }
    s
}

// ---------- observation ----------

/// how often each marker id occurs in the output, by the kind of place it must occur in
fn count_markers(nodes: &[CssNode], out: &mut BTreeMap<(char, usize), usize>) {
    fn id_of(s: &str) -> Option<usize> {
        let p = s.rfind("mk")?;
        let digits: String = s[p + 2..].chars().take_while(|c| c.is_ascii_digit()).collect();
        digits.parse().ok()
    }
    for n in nodes {
        match n {
            CssNode::Rule { body, .. } => count_markers(body, out),
            CssNode::AtRule { name, prelude, body } => {
                let kind = match (name.as_str(), body.is_some()) {
                    ("layer", false) => Some(('l', css::toks_text(prelude))),
                    ("page", true) => Some(('g', css::toks_text(prelude))),
                    ("import", false) => prelude.iter().find_map(|t| match t {
                        Tok::Url(u) => Some(('i', u.clone())),
                        _ => None,
                    }),
                    (n, false) if n.starts_with("mk") => Some(('a', n.to_string())),
                    (n, true) if n.starts_with("mk") => Some(('b', n.to_string())),
                    _ => None,
                };
                if let Some((k, text)) = kind {
                    if let Some(i) = id_of(&text) {
                        *out.entry((k, i)).or_insert(0) += 1;
                    }
                }
                if let Some(b) = body {
                    count_markers(b, out);
                }
            }
            CssNode::Decl { name, .. } => {
                if let Some(i) = id_of(name) {
                    let k = if name.starts_with("--") { 'p' } else { 'd' };
                    // a declaration marker inside a nested property block is `font-mkN`
                    if k == 'p' && *name == format!("--mk{i}")
                        || k == 'd' && (*name == format!("mk{i}") || name.ends_with(&format!("-mk{i}")))
                    {
                        *out.entry((k, i)).or_insert(0) += 1;
                    }
                }
            }
            CssNode::Comment(c) => {
                if let Some(i) = id_of(c) {
                    *out.entry(('c', i)).or_insert(0) += 1;
                }
            }
            CssNode::Junk(_) => {}
        }
    }
}

fn panic_verdict(p: &str, prog: &Program) -> Verdict {
    let site = p.split(": ").next().unwrap_or("?");
    let site = site.rsplitn(2, ':').last().unwrap_or(site);
    Verdict::fail_sig(format!("panic:{site}"), format!("panic {p} on {}", show(prog)))
}

fn compile(prog: &Program, fmt: Fmt) -> Out {
    let files: Vec<(&str, &str)> = prog.files.iter().map(|(n, t)| (n.as_str(), t.as_str())).collect();
    rs::compile_files(&files, "root.scss", prog.root.as_bytes(), fmt)
}

fn check_markers(c: &Case) -> Verdict {
    let Some(forest) = parse_forest(&c.tree) else {
        return Verdict::fail(format!("bad case encoding {:?}", c.tree));
    };
    let prog = build(&forest);
    let mut obs: Vec<String> = Vec::new();
    for fmt in [Fmt::EXPANDED, Fmt::COMPRESSED] {
        let style = if fmt.compressed { "compressed" } else { "expanded" };
        match compile(&prog, fmt) {
            Out::Panic(p) => return panic_verdict(&p, &prog),
            Out::Err(e) => obs.push(format!("err:{}", e.lines().next().unwrap_or(""))),
            Out::Css(text) => {
                let nodes = css::parse(css::strip_charset(&text));
                let mut found = BTreeMap::new();
                count_markers(&nodes, &mut found);
                let mut missing: BTreeSet<usize> = BTreeSet::new();
                for (i, k, mult) in &prog.markers {
                    if *k == 'c' && fmt.compressed {
                        continue; // plain loud comments are not part of compressed output
                    }
                    if found.get(&(*k, *i)).copied().unwrap_or(0) < *mult {
                        missing.insert(*i);
                    }
                }
                if !missing.is_empty() {
                    let expect_lost: BTreeSet<usize> = prog
                        .lost
                        .iter()
                        .copied()
                        .filter(|i| {
                            !(fmt.compressed
                                && prog.markers.iter().any(|(j, k, _)| j == i && *k == 'c'))
                        })
                        .collect();
                    let detail = format!(
                        "{style}: compilation succeeded but markers {missing:?} are not in the output {text:?} of {}",
                        show(&prog)
                    );
                    if missing == expect_lost {
                        return Verdict::fail_sig("at-rule-in-nested-property-block-swallowed", detail);
                    }
                    return Verdict::fail(detail);
                }
                obs.push(format!("ok:{}", css::toks_text(&css::fold_ws(&css::tokenize(&text), false))));
            }
        }
    }
    if obs.iter().all(|o| o.starts_with("err:")) {
        // the layout is rejected in both styles: nothing can have been dropped silently
        return Verdict::Trivial;
    }
    Verdict::pass(&(obs, prog.markers.len()))
}

fn check_errors(c: &Case) -> Verdict {
    let Some(forest) = parse_forest(&c.tree) else {
        return Verdict::fail(format!("bad case encoding {:?}", c.tree));
    };
    let prog = build(&forest);
    let mut obs = Vec::new();
    for fmt in [Fmt::EXPANDED, Fmt::COMPRESSED] {
        let style = if fmt.compressed { "compressed" } else { "expanded" };
        match compile(&prog, fmt) {
            Out::Panic(p) => return panic_verdict(&p, &prog),
            Out::Err(e) => {
                let head = e.lines().next().unwrap_or("").to_string();
                obs.push(if head.contains("boom") { format!("boom:{e}") } else { head });
            }
            Out::Css(text) => {
                let detail = format!(
                    "{style}: @error is reached but the compilation succeeded with {text:?}: {}",
                    show(&prog)
                );
                if fmt.compressed && prog.comment_only_errors && only_comment_errors(&forest) {
                    // known defect model: compressed style does not evaluate loud comments at all;
                    // strict: the output must be what the program without the comment gives
                    let stripped = strip_comment_sites(&prog);
                    if compile(&stripped, fmt) == Out::Css(text) {
                        return Verdict::fail_sig("compressed-skips-comment-interpolation", detail);
                    }
                }
                return Verdict::fail(detail);
            }
        }
    }
    if obs.iter().all(|o| !o.starts_with("boom:")) {
        // rejected for another reason before the @error was reached
        return Verdict::Trivial;
    }
    Verdict::pass(&obs)
}

/// every `@error` of the program sits in a function that is only called from a comment
fn only_comment_errors(forest: &[N]) -> bool {
    fn has_e(n: &N) -> bool {
        n.k == 'e' || n.ch.iter().any(has_e)
    }
    fn rec(n: &N) -> bool {
        if n.k == '7' {
            return true;
        }
        if n.k == 'e' {
            return false;
        }
        n.ch.iter().all(|c| !has_e(c) || rec(c))
    }
    forest.iter().all(|n| !has_e(n) || rec(n))
}

fn strip_comment_sites(p: &Program) -> Program {
    fn strip(s: &str) -> String {
        let mut out = String::new();
        let mut rest = s;
        while let Some(a) = rest.find("/* z #{") {
            out.push_str(&rest[..a]);
            match rest[a..].find("*/") {
                Some(b) => rest = &rest[a + b + 2..],
                None => {
                    rest = "";
                }
            }
        }
        out.push_str(rest);
        out
    }
    Program {
        root: strip(&p.root),
        files: p.files.iter().map(|(n, t)| (n.clone(), strip(t))).collect(),
        markers: vec![],
        lost: BTreeSet::new(),
        comment_only_errors: false,
    }
}

/// a plain CSS file holds CSS only: markers, rules and CSS at-rules (Sass statements,
/// `@error` included, are not evaluated there and `@import` is not resolved)
fn admissible_css(forest: &[N]) -> bool {
    fn css_only(n: &N) -> bool {
        (MARKERS.contains(&n.k) || ['R', 'M', 'S', 'U', 'K', 'F'].contains(&n.k)) && n.ch.iter().all(css_only)
    }
    fn rec(n: &N) -> bool {
        if n.k == 'P' {
            n.ch.iter().all(css_only)
        } else {
            n.ch.iter().all(rec)
        }
    }
    forest.iter().all(rec)
}

/// error sections: at least one @error, function bodies hold only what Sass allows there
fn admissible_err(forest: &[N]) -> bool {
    fn has_e(n: &N) -> bool {
        n.k == 'e' || n.ch.iter().any(has_e)
    }
    fn body_ok(n: &N) -> bool {
        FN_BODY.contains(&n.k) && n.ch.iter().all(body_ok)
    }
    fn rec(n: &N) -> bool {
        if CALLSITES.contains(&n.k) {
            return n.ch.iter().all(body_ok) && n.ch.iter().any(has_e);
        }
        n.ch.iter().all(rec)
    }
    forest.iter().any(has_e) && forest.iter().all(rec) && admissible_css(forest)
}

fn main() {
    let ck = Check::from_args("C21");
    let quick = ck.quick();
    ck.rule("forests of top-level statements with <= N nodes (<= 3 children) and all container chains up to depth D over 21 container kinds (rule, nested property block, @media, @supports, unknown at-rule, @keyframes frame, @font-face, @at-root +/- selector, mixin body, content block, @if, @else, @each, @for, @while, @import/@use/@forward/meta.load-css of an in-memory .scss file, @import of an in-memory .css file) x 8 marker kinds (declaration, custom property, body-less/with-body unknown at-rule, @layer, @page, loud comment, css @import), both styles; @error sections: the same containers with @error leaves, and functions reaching @error called from 9 kinds of expression position; distinct = distinct program; outcome = per style error head or number of markers found");
    ck.assume("every generated statement is reached by evaluation (conditions are literally true, loops run, mixins are included, files are loaded)");
    ck.assume("an error result is always acceptable for the marker sections (many layouts are invalid Sass)");

    // ---- markers: all shapes
    let n_full = if quick { 3 } else { 4 };
    {
        let mut g = Gen::new(MARKERS, CONTAINERS, 3);
        let mut cases = Vec::new();
        for n in 1..=n_full {
            let mut fs = Vec::new();
            g.forests(n, n, 3, &mut String::new(), &mut fs);
            cases.extend(
                fs.into_iter()
                    .filter(|t| parse_forest(t).is_some_and(|f| admissible_css(&f)))
                    .map(|tree| Case { tree }),
            );
        }
        ck.run(
            "markers-forests",
            &format!("all forests <= {n_full} nodes, <= 3 children"),
            cases.into_iter(),
            check_markers,
        );
    }
    // ---- markers: chains
    let d_chain = if quick { 4 } else { 5 };
    {
        // quick tier: one marker of each family at the end of the long chains
        let markers: &[char] = if quick { &['d', 'a', 'g', 'c'] } else { MARKERS };
        let mut g = Gen::new(markers, CONTAINERS, 1);
        let mut cases = Vec::new();
        for n in (n_full + 1)..=d_chain {
            let mut fs = Vec::new();
            g.forests(n, n, 1, &mut String::new(), &mut fs);
            cases.extend(
                fs.into_iter()
                    .filter(|t| parse_forest(t).is_some_and(|f| admissible_css(&f)))
                    .map(|tree| Case { tree }),
            );
        }
        ck.run(
            "markers-chains",
            &format!(
                "container chains of depth {}..={d_chain} ending in one marker ({} marker kinds)",
                n_full + 1,
                markers.len()
            ),
            cases.into_iter(),
            check_markers,
        );
    }
    // ---- @error in every statement position
    {
        let mut g = Gen::new(&['e', 'd'], CONTAINERS, 3);
        let mut cases = Vec::new();
        for n in 1..=n_full {
            let mut fs = Vec::new();
            g.forests(n, n, 3, &mut String::new(), &mut fs);
            for tree in fs {
                if parse_forest(&tree).is_some_and(|f| admissible_err(&f)) {
                    cases.push(Case { tree });
                }
            }
        }
        let mut g = Gen::new(&['e'], CONTAINERS, 1);
        for n in (n_full + 1)..=d_chain {
            let mut fs = Vec::new();
            g.forests(n, n, 1, &mut String::new(), &mut fs);
            cases.extend(
                fs.into_iter()
                    .filter(|t| parse_forest(t).is_some_and(|f| admissible_err(&f)))
                    .map(|tree| Case { tree }),
            );
        }
        ck.run(
            "error-statement",
            &format!("forests <= {n_full} nodes over containers x {{@error, declaration}} with >= 1 @error; chains to depth {d_chain}"),
            cases.into_iter(),
            check_errors,
        );
    }
    // ---- @error inside functions
    {
        let mut conts: Vec<char> = CONTAINERS.to_vec();
        conts.extend_from_slice(CALLSITES);
        let mut g = Gen::new(&['e'], &conts, 1);
        let mut cases = Vec::new();
        let dmax = if quick { 4 } else { 5 };
        for n in 2..=dmax {
            let mut fs = Vec::new();
            g.forests(n, n, 1, &mut String::new(), &mut fs);
            for tree in fs {
                let has_fn = tree.chars().any(|c| CALLSITES.contains(&c));
                if has_fn && parse_forest(&tree).is_some_and(|f| admissible_err(&f)) {
                    cases.push(Case { tree });
                }
            }
        }
        ck.run(
            "error-in-function",
            &format!("chains to depth {dmax}: containers > call site (9 kinds) > function body (@if/@else/@each/@for/@while) > @error"),
            cases.into_iter(),
            check_errors,
        );
    }
    ck.finish()
}
