//! C16 Variable assignment follows Sass scoping.
//!
//! Space: every small *program* (ordered statement tree, compact notation in
//! brackets) over
//!   leaves   `$v: <n>` [v=]  `!global` [vg]  `!default` [vd]  `!default !global` [vb]
//!            `$v: null` [vn]  probe of `$v` [v?]                      (v in {x, y})
//!   openers  style rule [R], `@if true` [I], `@if false {} @else` [L], `@each $y` [E],
//!            `@for $y` [F], `@while` (two rounds) [W], `@media` [M], `@supports` [S],
//!            `@at-root` [A],
//!            mixin($y)+include, declared at the root [T] / declared in place [H],
//!            function($y)+call, declared at the root [U] / declared in place [V],
//!            `@include c { ... }` [C] (content block; the helper mixin `c` has its
//!            own locals `$x`, `$y` before `@content`)
//! up to a statement count and nesting depth 4 (only nestings that are legal Sass:
//! no rules/mixins inside functions, no declarations inside control directives /
//! mixins), plus the family of all nesting orders of openers up to depth 4 with a
//! declaration at a chosen level, an assignment at the bottom and a probe at
//! every level.  `$y` is the name every loop and every parameter binds, `$x` is
//! never bound.  An assignment writes its own statement number, so every write
//! is identifiable.
//!
//! A probe emits `z{p<id>: <value>|u}` (`u` = `variable-exists` said no); inside
//! a function body it appends to a global list `$l<id>` that is printed at the end.
//! Observation = for every probe id the sequence of emitted values.
//!
//! Oracle (R-env): dart-sass' `Environment`, restated: a stack of scopes (maps
//! shared by reference with closures), `semi_global` flag, `!global`, `!default`,
//! one scope per rule / at-rule / flow-control statement (one per *loop*, not per
//! iteration), callables run on the closure of their declaration, content blocks
//! on the closure of the include site.  (Cross-checked by hand against the
//! sass-spec cases libsass/variable_scoping/{lexical_scope,root_scope,defaults,
//! blead_global/*}.)
//!
//! Known-defect variants: four switches on the same interpreter, each one the
//! restatement of one thing rsass' scope handling does differently.  A failing
//! case is signed with the smallest set of switches whose prediction equals the
//! real output exactly; anything else is an unsigned failure (VIOLATION).
//!
//! Triage aids: `c16 --show "<program>"` prints the SCSS, rsass' output and all
//! model predictions; `c16 --scss <file>` compiles a file as it is.

use serde::{Deserialize, Serialize};
use std::cell::RefCell;
use std::collections::{BTreeMap, HashMap};
use std::rc::Rc;
use vp::report::{Check, Verdict};
use vp::rs::{self, Fmt, Out};

#[derive(Clone, Debug, Hash, Serialize, Deserialize)]
struct Case {
    /// program in the compact notation, e.g. `x= F( x= x? ) x?`
    prog: String,
}

// ---------------------------------------------------------------------------
// programs
// ---------------------------------------------------------------------------

#[derive(Clone, Copy, PartialEq, Eq, Debug, Hash)]
enum Var {
    X,
    Y,
}

impl Var {
    fn name(self) -> &'static str {
        match self {
            Var::X => "x",
            Var::Y => "y",
        }
    }
    fn ix(self) -> usize {
        self as usize
    }
}

#[derive(Clone, Copy, PartialEq, Eq, Debug, Hash)]
enum Leaf {
    /// `$v: <id>;`
    Plain(Var),
    /// `$v: <id> !global;`
    Global(Var),
    /// `$v: <id> !default;`
    Default(Var),
    /// `$v: <id> !default !global;`
    Both(Var),
    /// `$v: null;`
    Null(Var),
    /// emit the value of `$v` or `u`
    Probe(Var),
}

impl Leaf {
    fn code(self) -> String {
        let (v, c) = match self {
            Leaf::Plain(v) => (v, '='),
            Leaf::Global(v) => (v, 'g'),
            Leaf::Default(v) => (v, 'd'),
            Leaf::Both(v) => (v, 'b'),
            Leaf::Null(v) => (v, 'n'),
            Leaf::Probe(v) => (v, '?'),
        };
        format!("{}{}", v.name(), c)
    }
    fn parse(t: &str) -> Option<Leaf> {
        let mut cs = t.chars();
        let v = match cs.next()? {
            'x' => Var::X,
            'y' => Var::Y,
            _ => return None,
        };
        let l = match cs.next()? {
            '=' => Leaf::Plain(v),
            'g' => Leaf::Global(v),
            'd' => Leaf::Default(v),
            'b' => Leaf::Both(v),
            'n' => Leaf::Null(v),
            '?' => Leaf::Probe(v),
            _ => return None,
        };
        if cs.next().is_some() {
            return None;
        }
        Some(l)
    }
    fn is_probe(self) -> bool {
        matches!(self, Leaf::Probe(_))
    }
}

#[derive(Clone, Copy, PartialEq, Eq, Debug, Hash, PartialOrd, Ord)]
enum Kind {
    Rule,
    If,
    /// `@if false {} @else {..}`
    Else,
    Each,
    For,
    While,
    Media,
    /// `@supports (a: b) {..}` (generic at-rule path)
    Supports,
    /// `@at-root {..}`
    AtRoot,
    /// `@mixin m($y){..}` hoisted to the start of the stylesheet, `@include m(61)` in place
    MixTop,
    /// `@mixin m($y){..} @include m(61)` both in place (only below rules / @media)
    MixHere,
    FunTop,
    FunHere,
    /// `@include c {..}` with `@mixin c{$x:90;$y:91;@content}` declared at the root
    Content,
}

/// The openers of the main sections.
const MAIN_KINDS: [Kind; 12] = [
    Kind::Rule,
    Kind::If,
    Kind::Else,
    Kind::Each,
    Kind::For,
    Kind::While,
    Kind::Media,
    Kind::MixTop,
    Kind::MixHere,
    Kind::FunTop,
    Kind::FunHere,
    Kind::Content,
];

const ALL_KINDS: [Kind; 14] = [
    Kind::Rule,
    Kind::If,
    Kind::Else,
    Kind::Each,
    Kind::For,
    Kind::While,
    Kind::Media,
    Kind::Supports,
    Kind::AtRoot,
    Kind::MixTop,
    Kind::MixHere,
    Kind::FunTop,
    Kind::FunHere,
    Kind::Content,
];

impl Kind {
    fn code(self) -> char {
        match self {
            Kind::Rule => 'R',
            Kind::If => 'I',
            Kind::Else => 'L',
            Kind::Each => 'E',
            Kind::For => 'F',
            Kind::While => 'W',
            Kind::Media => 'M',
            Kind::Supports => 'S',
            Kind::AtRoot => 'A',
            Kind::MixTop => 'T',
            Kind::MixHere => 'H',
            Kind::FunTop => 'U',
            Kind::FunHere => 'V',
            Kind::Content => 'C',
        }
    }
    fn parse(c: char) -> Option<Kind> {
        ALL_KINDS.iter().copied().find(|k| k.code() == c)
    }
    fn is_loop(self) -> bool {
        matches!(self, Kind::Each | Kind::For | Kind::While)
    }
}

/// Lexical context of a statement list (decides which openers are legal Sass).
#[derive(Clone, Copy, PartialEq, Eq, Hash, Debug)]
struct Ctx {
    /// lexically inside a function body
    in_func: bool,
    /// every ancestor is a style rule, @media, @supports or @at-root (true at the root)
    chain_rm: bool,
    /// number of ancestors
    depth: usize,
}

impl Ctx {
    const TOP: Ctx = Ctx {
        in_func: false,
        chain_rm: true,
        depth: 0,
    };
    fn allows(self, k: Kind) -> bool {
        if self.in_func {
            // only flow control and calls of root-level functions
            return matches!(
                k,
                Kind::If | Kind::Else | Kind::Each | Kind::For | Kind::While | Kind::FunTop
            );
        }
        match k {
            // declarations in place: not in control directives, mixins, content
            // blocks; at the root they are the same thing as the hoisted variant
            Kind::MixHere | Kind::FunHere => self.chain_rm && self.depth >= 1,
            _ => true,
        }
    }
    fn child(self, k: Kind) -> Ctx {
        Ctx {
            in_func: self.in_func || matches!(k, Kind::FunTop | Kind::FunHere),
            chain_rm: self.chain_rm
                && matches!(k, Kind::Rule | Kind::Media | Kind::Supports | Kind::AtRoot),
            depth: self.depth + 1,
        }
    }
}

#[derive(Clone, Debug)]
enum Stmt {
    Leaf(usize, Leaf),
    Block(usize, Kind, Vec<Stmt>),
}

/// Tree without ids (enumeration).
#[derive(Clone, Debug)]
enum Tree {
    Leaf(Leaf),
    Block(Kind, Vec<Tree>),
}

fn encode(ts: &[Tree], out: &mut String) {
    for t in ts {
        if !out.is_empty() && !out.ends_with(' ') {
            out.push(' ');
        }
        match t {
            Tree::Leaf(l) => out.push_str(&l.code()),
            Tree::Block(k, body) => {
                out.push(k.code());
                out.push_str("( ");
                encode(body, out);
                out.push_str(" )");
            }
        }
    }
}

fn encode_prog(ts: &[Tree]) -> String {
    let mut s = String::new();
    encode(ts, &mut s);
    s
}

/// Parse the compact notation; checks legality of the nesting.  Ids are
/// pre-order statement numbers starting at 1.
fn parse_prog(src: &str) -> Result<Vec<Stmt>, String> {
    fn list(
        toks: &[&str],
        i: &mut usize,
        next: &mut usize,
        ctx: Ctx,
        nested: bool,
    ) -> Result<Vec<Stmt>, String> {
        let mut out = Vec::new();
        while *i < toks.len() {
            let t = toks[*i];
            if t == ")" {
                if !nested {
                    return Err("unbalanced )".into());
                }
                *i += 1;
                return Ok(out);
            }
            *i += 1;
            if let Some(l) = Leaf::parse(t) {
                *next += 1;
                out.push(Stmt::Leaf(*next, l));
                continue;
            }
            let mut cs = t.chars();
            let k = cs.next().and_then(Kind::parse);
            match (k, cs.next(), cs.next()) {
                (Some(k), Some('('), None) => {
                    if !ctx.allows(k) {
                        return Err(format!("opener {t} is not legal here"));
                    }
                    *next += 1;
                    let id = *next;
                    let body = list(toks, i, next, ctx.child(k), true)?;
                    out.push(Stmt::Block(id, k, body));
                }
                _ => return Err(format!("bad token {t:?}")),
            }
        }
        if nested {
            return Err("missing )".into());
        }
        Ok(out)
    }
    let toks: Vec<&str> = src.split_whitespace().collect();
    let mut i = 0;
    let mut next = 0;
    list(&toks, &mut i, &mut next, Ctx::TOP, false)
}

// ---------------------------------------------------------------------------
// printing a program as SCSS
// ---------------------------------------------------------------------------

const EACH_VALUES: [u32; 2] = [81, 82];
const FOR_VALUES: [u32; 2] = [71, 72];
const MIXIN_ARG: u32 = 61;
const FUNC_ARG: u32 = 62;

struct Printer {
    prelude: String,
    logs: Vec<usize>,
    uses_content: bool,
}

impl Printer {
    fn stmts(&mut self, ss: &[Stmt], in_func: bool, out: &mut String) {
        for s in ss {
            match s {
                Stmt::Leaf(id, l) => {
                    let line = match *l {
                        Leaf::Plain(v) => format!("${}: {id};\n", v.name()),
                        Leaf::Global(v) => format!("${}: {id} !global;\n", v.name()),
                        Leaf::Default(v) => format!("${}: {id} !default;\n", v.name()),
                        Leaf::Both(v) => format!("${}: {id} !default !global;\n", v.name()),
                        Leaf::Null(v) => format!("${}: null;\n", v.name()),
                        Leaf::Probe(v) => {
                            let n = v.name();
                            let e = format!("if(variable-exists({n}), inspect(${n}), u)");
                            if in_func {
                                self.logs.push(*id);
                                format!("$l{id}: append($l{id}, {e}) !global;\n")
                            } else {
                                format!("z{{p{id}: {e}}}\n")
                            }
                        }
                    };
                    out.push_str(&line);
                }
                Stmt::Block(id, k, body) => {
                    let child_in_func = in_func || matches!(k, Kind::FunTop | Kind::FunHere);
                    let mut b = String::new();
                    self.stmts(body, child_in_func, &mut b);
                    match k {
                        Kind::Rule => out.push_str(&format!("a{{\n{b}}}\n")),
                        Kind::If => out.push_str(&format!("@if true{{\n{b}}}\n")),
                        Kind::Else => out.push_str(&format!("@if false{{}}@else{{\n{b}}}\n")),
                        Kind::Supports => out.push_str(&format!("@supports (a: b){{\n{b}}}\n")),
                        Kind::AtRoot => out.push_str(&format!("@at-root{{\n{b}}}\n")),
                        Kind::Each => out.push_str(&format!(
                            "@each $y in {} {}{{\n{b}}}\n",
                            EACH_VALUES[0], EACH_VALUES[1]
                        )),
                        Kind::For => out.push_str(&format!(
                            "@for $y from {} through {}{{\n{b}}}\n",
                            FOR_VALUES[0], FOR_VALUES[1]
                        )),
                        Kind::While => out.push_str(&format!(
                            "$w{id}: 0 !global;\n@while $w{id} < 2{{\n$w{id}: $w{id} + 1 !global;\n{b}}}\n"
                        )),
                        Kind::Media => out.push_str(&format!("@media print{{\n{b}}}\n")),
                        Kind::MixTop => {
                            self.prelude.push_str(&format!("@mixin m{id}($y){{\n{b}}}\n"));
                            out.push_str(&format!("@include m{id}({MIXIN_ARG});\n"));
                        }
                        Kind::MixHere => {
                            out.push_str(&format!(
                                "@mixin m{id}($y){{\n{b}}}\n@include m{id}({MIXIN_ARG});\n"
                            ));
                        }
                        Kind::FunTop => {
                            self.prelude
                                .push_str(&format!("@function f{id}($y){{\n{b}@return 0;\n}}\n"));
                            out.push_str(&format!("$r: f{id}({FUNC_ARG});\n"));
                        }
                        Kind::FunHere => {
                            out.push_str(&format!(
                                "@function f{id}($y){{\n{b}@return 0;\n}}\n$r: f{id}({FUNC_ARG});\n"
                            ));
                        }
                        Kind::Content => {
                            self.uses_content = true;
                            out.push_str(&format!("@include c{{\n{b}}}\n"));
                        }
                    }
                }
            }
        }
    }
}

fn render(prog: &[Stmt]) -> String {
    let mut p = Printer {
        prelude: String::new(),
        logs: Vec::new(),
        uses_content: false,
    };
    let mut body = String::new();
    p.stmts(prog, false, &mut body);
    let mut src = String::new();
    if p.uses_content {
        src.push_str("@mixin c{\n$x: 90;\n$y: 91;\n@content;\n}\n");
    }
    for id in &p.logs {
        src.push_str(&format!("$l{id}: ();\n"));
    }
    src.push_str(&p.prelude);
    src.push_str(&body);
    for id in &p.logs {
        src.push_str(&format!("z{{l{id}: inspect($l{id})}}\n"));
    }
    src
}

/// probe id ("p3" / "l3") -> emitted values in order
type Obs = BTreeMap<String, Vec<String>>;

/// Read the observation out of expanded CSS.
fn observe(css: &str) -> Result<Obs, String> {
    let mut obs = Obs::new();
    for line in css.lines() {
        let t = line.trim();
        let Some(t) = t.strip_suffix(';') else {
            continue;
        };
        let Some((name, val)) = t.split_once(": ") else {
            continue;
        };
        let mut cs = name.chars();
        let first = cs.next();
        let rest: &str = cs.as_str();
        if !(matches!(first, Some('p' | 'l'))
            && !rest.is_empty()
            && rest.bytes().all(|b| b.is_ascii_digit()))
        {
            return Err(format!("unexpected declaration {t:?}"));
        }
        let ok = |w: &str| w == "u" || w == "null" || w.bytes().all(|b| b.is_ascii_digit());
        if first == Some('p') {
            if !ok(val) {
                return Err(format!("unexpected probe value {t:?}"));
            }
            obs.entry(name.to_string()).or_default().push(val.to_string());
        } else if val != "()" {
            for w in val.split_whitespace() {
                if !ok(w) {
                    return Err(format!("unexpected log value {t:?}"));
                }
                obs.entry(name.to_string()).or_default().push(w.to_string());
            }
        }
    }
    Ok(obs)
}

// ---------------------------------------------------------------------------
// R-env and its known-defect switches
// ---------------------------------------------------------------------------

#[derive(Clone, Copy, PartialEq, Eq, Debug)]
enum Val {
    Int(u32),
    Null,
}

type Vars = [Option<Val>; 2];
type ScopeRc = Rc<RefCell<Vars>>;

/// What rsass does differently (each `true` replaces one rule of R-env).
#[derive(Clone, Copy, PartialEq, Eq, Debug, Default)]
struct Switches {
    /// `Scope::set_variable` inserts into the current scope only: an assignment
    /// never updates a declaring enclosing scope, neither a local one nor (from
    /// top-level flow control) the global one.
    assign_current: bool,
    /// transform.rs: `@if` and `@each` bodies run in the enclosing scope itself
    /// (no scope of their own); `@each` saves / restores the loop variables of
    /// the enclosing scope instead.
    flow_shares: bool,
    /// transform.rs: `@for` opens a fresh scope per iteration instead of one per loop.
    for_per_iter: bool,
    /// variablescope.rs `eval_body` (function bodies): `@if`, `@each` and `@for`
    /// run in the function's scope itself and leave the loop variable behind.
    func_flat: bool,
}

const SWITCH_NAMES: [&str; 4] = [
    "assign-current-scope-only",
    "if-each-share-enclosing-scope",
    "for-scope-per-iteration",
    "function-flow-control-unscoped",
];

impl Switches {
    fn from_mask(m: u32) -> Switches {
        Switches {
            assign_current: m & 1 != 0,
            flow_shares: m & 2 != 0,
            for_per_iter: m & 4 != 0,
            func_flat: m & 8 != 0,
        }
    }
    fn name_of_mask(m: u32) -> String {
        let mut parts = Vec::new();
        for (i, n) in SWITCH_NAMES.iter().enumerate() {
            if m & (1 << i) != 0 {
                parts.push(*n);
            }
        }
        parts.join("+")
    }
}

/// Masks ordered by number of switches, then numerically.
fn masks_smallest_first() -> Vec<u32> {
    let mut v: Vec<u32> = (1..16).collect();
    v.sort_by_key(|m| (m.count_ones(), *m));
    v
}

struct Env {
    scopes: Vec<ScopeRc>,
    semi_global: bool,
}

impl Env {
    fn root() -> Env {
        Env {
            scopes: vec![Rc::new(RefCell::new([None, None]))],
            semi_global: true,
        }
    }
    /// Closure: the list is copied, the maps are shared.
    fn closure_of(scopes: &[ScopeRc]) -> Env {
        Env {
            scopes: scopes.to_vec(),
            semi_global: true,
        }
    }
    fn lookup(&self, v: Var) -> Option<Val> {
        self.scopes.iter().rev().find_map(|s| s.borrow()[v.ix()])
    }
    fn index_of(&self, v: Var) -> Option<usize> {
        (0..self.scopes.len())
            .rev()
            .find(|i| self.scopes[*i].borrow()[v.ix()].is_some())
    }
    fn enter(&mut self, semi_global: bool) -> bool {
        let was = self.semi_global;
        self.semi_global = semi_global && was;
        self.scopes.push(Rc::new(RefCell::new([None, None])));
        was
    }
    fn leave(&mut self, was: bool) {
        self.scopes.pop();
        self.semi_global = was;
    }
    fn set_local(&mut self, v: Var, val: Option<Val>) {
        let last = self.scopes.len() - 1;
        self.scopes[last].borrow_mut()[v.ix()] = val;
    }
    fn get_local(&self, v: Var) -> Option<Val> {
        self.scopes[self.scopes.len() - 1].borrow()[v.ix()]
    }
    fn assign(&mut self, v: Var, val: Val, global: bool, guarded: bool, sw: Switches) {
        if guarded {
            if let Some(Val::Int(_)) = self.lookup(v) {
                return;
            }
        }
        let last = self.scopes.len() - 1;
        let ix = if global || last == 0 {
            0
        } else if sw.assign_current {
            last
        } else {
            match self.index_of(v) {
                None => last,
                Some(0) if !self.semi_global => last,
                Some(i) => i,
            }
        };
        self.scopes[ix].borrow_mut()[v.ix()] = Some(val);
    }
}

struct Interp {
    sw: Switches,
    obs: Obs,
}

impl Interp {
    fn exec(&mut self, env: &mut Env, ss: &[Stmt], in_func: bool) {
        for s in ss {
            match s {
                Stmt::Leaf(id, l) => match *l {
                    Leaf::Plain(v) => env.assign(v, Val::Int(*id as u32), false, false, self.sw),
                    Leaf::Global(v) => env.assign(v, Val::Int(*id as u32), true, false, self.sw),
                    Leaf::Default(v) => env.assign(v, Val::Int(*id as u32), false, true, self.sw),
                    Leaf::Both(v) => env.assign(v, Val::Int(*id as u32), true, true, self.sw),
                    Leaf::Null(v) => env.assign(v, Val::Null, false, false, self.sw),
                    Leaf::Probe(v) => {
                        let text = match env.lookup(v) {
                            None => "u".to_string(),
                            Some(Val::Null) => "null".to_string(),
                            Some(Val::Int(n)) => n.to_string(),
                        };
                        let key = format!("{}{id}", if in_func { 'l' } else { 'p' });
                        self.obs.entry(key).or_default().push(text);
                    }
                },
                Stmt::Block(_, k, body) => self.block(env, *k, body, in_func),
            }
        }
    }

    fn block(&mut self, env: &mut Env, k: Kind, body: &[Stmt], in_func: bool) {
        let flat = if in_func {
            self.sw.func_flat
        } else {
            self.sw.flow_shares
        };
        match k {
            Kind::Rule | Kind::Media | Kind::Supports | Kind::AtRoot => {
                let was = env.enter(false);
                self.exec(env, body, in_func);
                env.leave(was);
            }
            Kind::If | Kind::Else => {
                if flat {
                    self.exec(env, body, in_func);
                } else {
                    let was = env.enter(true);
                    self.exec(env, body, in_func);
                    env.leave(was);
                }
            }
            Kind::Each | Kind::For => {
                let values = if k == Kind::Each {
                    EACH_VALUES
                } else {
                    FOR_VALUES
                };
                let unscoped = if in_func {
                    self.sw.func_flat
                } else {
                    k == Kind::Each && self.sw.flow_shares
                };
                if unscoped {
                    let saved = env.get_local(Var::Y);
                    for v in values {
                        env.set_local(Var::Y, Some(Val::Int(v)));
                        self.exec(env, body, in_func);
                    }
                    if !in_func {
                        // store_local_values / restore_local_values
                        env.set_local(Var::Y, saved);
                    }
                } else if !in_func && k == Kind::For && self.sw.for_per_iter {
                    for v in values {
                        let was = env.enter(true);
                        env.set_local(Var::Y, Some(Val::Int(v)));
                        self.exec(env, body, in_func);
                        env.leave(was);
                    }
                } else {
                    let was = env.enter(true);
                    for v in values {
                        env.set_local(Var::Y, Some(Val::Int(v)));
                        self.exec(env, body, in_func);
                    }
                    env.leave(was);
                }
            }
            Kind::While => {
                let was = env.enter(true);
                for _ in 0..2 {
                    self.exec(env, body, in_func);
                }
                env.leave(was);
            }
            Kind::MixTop | Kind::MixHere | Kind::FunTop | Kind::FunHere => {
                let hoisted = matches!(k, Kind::MixTop | Kind::FunTop);
                let is_fun = matches!(k, Kind::FunTop | Kind::FunHere);
                let mut e2 = if hoisted {
                    Env::closure_of(&env.scopes[..1])
                } else {
                    Env::closure_of(&env.scopes)
                };
                let was = e2.enter(false);
                let arg = if is_fun { FUNC_ARG } else { MIXIN_ARG };
                e2.set_local(Var::Y, Some(Val::Int(arg)));
                self.exec(&mut e2, body, is_fun);
                e2.leave(was);
            }
            Kind::Content => {
                // the helper mixin's own locals live in a scope on the root
                // closure that nothing else can see; the block runs on the
                // closure of the include site
                let mut e2 = Env::closure_of(&env.scopes);
                let was = e2.enter(false);
                self.exec(&mut e2, body, in_func);
                e2.leave(was);
            }
        }
    }
}

fn model(prog: &[Stmt], sw: Switches) -> Obs {
    let mut it = Interp {
        sw,
        obs: Obs::new(),
    };
    let mut env = Env::root();
    it.exec(&mut env, prog, false);
    it.obs
}

// ---------------------------------------------------------------------------
// enumeration (count / unrank over the legal nestings)
// ---------------------------------------------------------------------------

struct Alpha {
    leaves: Vec<Leaf>,
    kinds: Vec<Kind>,
    max_depth: usize,
}

struct Gen<'a> {
    a: &'a Alpha,
    memo: RefCell<HashMap<(usize, Ctx), u64>>,
}

impl<'a> Gen<'a> {
    fn new(a: &'a Alpha) -> Self {
        Gen {
            a,
            memo: RefCell::new(HashMap::new()),
        }
    }
    fn kinds(&self, ctx: Ctx) -> Vec<Kind> {
        if ctx.depth >= self.a.max_depth {
            return Vec::new();
        }
        self.a.kinds.iter().copied().filter(|k| ctx.allows(*k)).collect()
    }
    /// number of statement lists with exactly `n` statements in context `ctx`
    fn count(&self, n: usize, ctx: Ctx) -> u64 {
        if n == 0 {
            return 1;
        }
        if let Some(c) = self.memo.borrow().get(&(n, ctx)) {
            return *c;
        }
        let mut total = self.a.leaves.len() as u64 * self.count(n - 1, ctx);
        for k in self.kinds(ctx) {
            for m in 1..n {
                total += self.count(m, ctx.child(k)) * self.count(n - 1 - m, ctx);
            }
        }
        self.memo.borrow_mut().insert((n, ctx), total);
        total
    }
    fn unrank(&self, n: usize, ctx: Ctx, mut k: u64) -> Vec<Tree> {
        if n == 0 {
            return Vec::new();
        }
        let rest_n = self.count(n - 1, ctx);
        let leaf_total = self.a.leaves.len() as u64 * rest_n;
        if k < leaf_total {
            let mut out = vec![Tree::Leaf(self.a.leaves[(k / rest_n) as usize])];
            out.extend(self.unrank(n - 1, ctx, k % rest_n));
            return out;
        }
        k -= leaf_total;
        for kind in self.kinds(ctx) {
            let cctx = ctx.child(kind);
            for m in 1..n {
                let rest = self.count(n - 1 - m, ctx);
                let block = self.count(m, cctx) * rest;
                if k < block {
                    let mut out = vec![Tree::Block(kind, self.unrank(m, cctx, k / rest))];
                    out.extend(self.unrank(n - 1 - m, ctx, k % rest));
                    return out;
                }
                k -= block;
            }
        }
        unreachable!("rank out of range")
    }
}

/// Programs that can say something: at least one probe, and the last leaf is a
/// probe unless it sits inside a loop (an assignment nothing can read afterwards
/// is the same program as the one without it).
fn informative(ts: &[Tree]) -> bool {
    fn has_probe(ts: &[Tree]) -> bool {
        ts.iter().any(|t| match t {
            Tree::Leaf(l) => l.is_probe(),
            Tree::Block(_, b) => has_probe(b),
        })
    }
    /// (last leaf is a probe, last leaf is inside a loop)
    fn last(ts: &[Tree], in_loop: bool) -> (bool, bool) {
        match ts.last() {
            None => (false, in_loop),
            Some(Tree::Leaf(l)) => (l.is_probe(), in_loop),
            Some(Tree::Block(k, b)) => last(b, in_loop || k.is_loop()),
        }
    }
    if !has_probe(ts) {
        return false;
    }
    let (probe, in_loop) = last(ts, false);
    probe || in_loop
}

fn programs(a: &Alpha, min_n: usize, max_n: usize) -> impl Iterator<Item = Case> + '_ {
    let g = Rc::new(Gen::new(a));
    (min_n..=max_n).flat_map(move |n| {
        let g = g.clone();
        let total = g.count(n, Ctx::TOP);
        (0..total).filter_map(move |k| {
            let t = g.unrank(n, Ctx::TOP, k);
            if informative(&t) {
                Some(Case {
                    prog: encode_prog(&t),
                })
            } else {
                None
            }
        })
    })
}

/// All legal nesting orders `K1( K2( .. Kd( <assign> v? ) v? ) v? ) v?` of depth
/// 1..=max_d with a plain declaration of the variable at the start of level
/// `decl` (or nowhere).
fn nestings(
    kinds: &[Kind],
    min_d: usize,
    max_d: usize,
    vars: &[Var],
    bottoms: &[fn(Var) -> Leaf],
) -> Vec<Case> {
    fn chains(kinds: &[Kind], d: usize, ctx: Ctx, cur: &mut Vec<Kind>, out: &mut Vec<Vec<Kind>>) {
        if d == 0 {
            out.push(cur.clone());
            return;
        }
        for k in kinds {
            if ctx.allows(*k) {
                cur.push(*k);
                chains(kinds, d - 1, ctx.child(*k), cur, out);
                cur.pop();
            }
        }
    }
    fn build(chain: &[Kind], level: usize, decl: Option<usize>, v: Var, bottom: Leaf) -> Vec<Tree> {
        let mut out = Vec::new();
        if decl == Some(level) {
            out.push(Tree::Leaf(Leaf::Plain(v)));
        }
        if level == chain.len() {
            out.push(Tree::Leaf(bottom));
            out.push(Tree::Leaf(Leaf::Probe(v)));
        } else {
            out.push(Tree::Block(
                chain[level],
                build(chain, level + 1, decl, v, bottom),
            ));
            out.push(Tree::Leaf(Leaf::Probe(v)));
        }
        out
    }
    let mut cases = Vec::new();
    for d in min_d..=max_d {
        let mut cs = Vec::new();
        chains(kinds, d, Ctx::TOP, &mut Vec::new(), &mut cs);
        for chain in &cs {
            for v in vars {
                for b in bottoms {
                    // declaration nowhere, or at the start of level 0..d-1
                    for decl in std::iter::once(None).chain((0..d).map(Some)) {
                        cases.push(Case {
                            prog: encode_prog(&build(chain, 0, decl, *v, b(*v))),
                        });
                    }
                }
            }
        }
    }
    cases
}

// ---------------------------------------------------------------------------
// the check
// ---------------------------------------------------------------------------

fn show_obs(o: &Obs) -> String {
    let parts: Vec<String> = o
        .iter()
        .filter(|(_, v)| !v.is_empty())
        .map(|(k, v)| format!("{k}={}", v.join(",")))
        .collect();
    format!("[{}]", parts.join(" "))
}

fn normal(mut o: Obs) -> Obs {
    o.retain(|_, v| !v.is_empty());
    o
}

fn check(c: &Case) -> Verdict {
    let prog = match parse_prog(&c.prog) {
        Ok(p) => p,
        Err(e) => return Verdict::fail(format!("case does not parse: {e}")),
    };
    let src = render(&prog);
    let want = normal(model(&prog, Switches::default()));
    let out = rs::compile_str(&src, Fmt::EXPANDED);
    let got = match &out {
        Out::Css(css) => match observe(css) {
            Ok(o) => normal(o),
            Err(e) => {
                return Verdict::fail(format!(
                    "{}: output not understood ({e}); expected {}",
                    c.prog,
                    show_obs(&want)
                ))
            }
        },
        Out::Panic(p) => {
            let site = p.split(": ").next().unwrap_or("?");
            let site = site.rsplitn(2, ':').last().unwrap_or(site);
            return Verdict::fail_sig(
                format!("panic:{site}"),
                format!("{}: panic {p}; expected {}", c.prog, show_obs(&want)),
            );
        }
        Out::Err(e) => {
            return Verdict::fail(format!(
                "{}: rejected: {}; expected {}",
                c.prog,
                e.lines().next().unwrap_or(""),
                show_obs(&want)
            ))
        }
    };
    if got == want {
        return Verdict::pass(&got);
    }
    for m in masks_smallest_first() {
        if normal(model(&prog, Switches::from_mask(m))) == got {
            return Verdict::fail_sig(
                Switches::name_of_mask(m),
                format!("{}: got {} expected {}", c.prog, show_obs(&got), show_obs(&want)),
            );
        }
    }
    Verdict::fail(format!(
        "{}: got {} expected {} (rsass' known behaviour would give {})",
        c.prog,
        show_obs(&got),
        show_obs(&want),
        show_obs(&normal(model(&prog, Switches::from_mask(15))))
    ))
}

fn show(prog_src: &str) {
    rs::init_process();
    let prog = match parse_prog(prog_src) {
        Ok(p) => p,
        Err(e) => {
            println!("parse error: {e}");
            return;
        }
    };
    let src = render(&prog);
    println!("--- scss\n{src}--- rsass");
    match rs::compile_str(&src, Fmt::EXPANDED) {
        Out::Css(css) => {
            println!("{css}--- observed {:?}", observe(&css).map(|o| show_obs(&normal(o))));
        }
        o => println!("{}", o.short()),
    }
    println!("--- R-env    {}", show_obs(&normal(model(&prog, Switches::default()))));
    for m in 1..16 {
        println!(
            "--- {:<2} {} {}",
            m,
            show_obs(&normal(model(&prog, Switches::from_mask(m)))),
            Switches::name_of_mask(m)
        );
    }
}

fn main() {
    let args: Vec<String> = std::env::args().collect();
    if let Some(i) = args.iter().position(|a| a == "--show") {
        show(args.get(i + 1).map(String::as_str).unwrap_or(""));
        return;
    }
    if let Some(i) = args.iter().position(|a| a == "--scss") {
        // triage aid: compile a file as it is
        rs::init_process();
        let src = std::fs::read_to_string(args.get(i + 1).map(String::as_str).unwrap_or("")).unwrap_or_default();
        match rs::compile_str(&src, Fmt::EXPANDED) {
            Out::Css(css) => println!("{css}"),
            o => println!("{}", o.short()),
        }
        return;
    }

    let ck = Check::from_args("C16");
    let quick = ck.quick();
    ck.rule("every statement tree (leaves: $v: n / !global / !default / !default !global / null / probe, v in {x,y}; openers: rule, @if, @else, @each $y, @for $y, @while, @media, @supports, @at-root, mixin($y)+include declared at root or in place, function($y)+call likewise, @include with content block) with at most N statements and nesting depth <= 4 that is legal Sass, contains a probe and does not end in an unreadable assignment; plus every legal nesting order of openers up to depth 4 with a declaration at one level, an assignment at the bottom and a probe at every level; distinct = distinct program; outcome = per probe the sequence of emitted values (or the defect signature)");
    ck.assume("R-env restates dart-sass' Environment (scope stack shared with closures, semi-global flow control at the root, one scope per loop, !global, !default); its lookup caches are taken to be transparent");
    ck.assume("`variable-exists`, `inspect`, `if()`, `append` and `!global` writes to dedicated log variables work (they carry the probes)");

    use Leaf::*;
    use Var::*;

    // ---- section 1: all small programs, full alphabet
    let full = Alpha {
        leaves: vec![
            Plain(X),
            Global(X),
            Default(X),
            Null(X),
            Probe(X),
            Plain(Y),
            Probe(Y),
        ],
        kinds: MAIN_KINDS.to_vec(),
        max_depth: 4,
    };
    let n1 = ck.tier.pick(4, 5);
    ck.run(
        "small-programs",
        &format!("<= {n1} statements, depth <= 4, 7 leaf kinds, 12 openers"),
        programs(&full, 1, n1),
        check,
    );

    // ---- section 2: one statement more, one variable, the core openers
    let core = Alpha {
        leaves: vec![Plain(X), Global(X), Default(X), Probe(X)],
        kinds: vec![
            Kind::Rule,
            Kind::If,
            Kind::For,
            Kind::MixTop,
            Kind::FunTop,
            Kind::Content,
        ],
        max_depth: 4,
    };
    let n2 = ck.tier.pick(5, 6);
    ck.run(
        "small-programs-x",
        &format!(
            "{}..={n2} statements, depth <= 4, $x only (plain/!global/!default/probe), {} openers",
            n1 + 1,
            core.kinds.len()
        ),
        programs(&core, n1 + 1, n2),
        check,
    );

    // ---- section 3: the loop variable / parameter name, flags on $y
    let yalpha = Alpha {
        leaves: vec![
            Plain(Y),
            Global(Y),
            Default(Y),
            Both(Y),
            Null(Y),
            Probe(Y),
        ],
        kinds: vec![
            Kind::Rule,
            Kind::If,
            Kind::Each,
            Kind::For,
            Kind::MixTop,
            Kind::FunTop,
        ],
        max_depth: 4,
    };
    let n3 = ck.tier.pick(4, 5);
    ck.run(
        "bound-name-y",
        &format!("<= {n3} statements, $y only (all flags incl. !default !global), openers that bind $y + rule/@if"),
        programs(&yalpha, 1, n3),
        check,
    );

    // ---- section 4: the other block kinds (generic at-rule, @at-root, @else)
    let other = Alpha {
        leaves: vec![Plain(X), Global(X), Default(X), Both(X), Probe(X)],
        kinds: vec![
            Kind::Rule,
            Kind::Else,
            Kind::Supports,
            Kind::AtRoot,
            Kind::For,
        ],
        max_depth: 4,
    };
    let n4 = ck.tier.pick(4, 5);
    ck.run(
        "other-blocks",
        &format!("<= {n4} statements, $x only (all flags), openers rule/@else/@supports/@at-root/@for"),
        programs(&other, 1, n4),
        check,
    );

    // ---- section 5: every nesting order
    let bottoms: Vec<fn(Var) -> Leaf> = vec![Plain, Global, Default];
    let core_chain = [
        Kind::Rule,
        Kind::If,
        Kind::For,
        Kind::MixTop,
        Kind::FunTop,
        Kind::Content,
    ];
    let cases = if quick {
        let mut v = nestings(&ALL_KINDS, 1, 2, &[X, Y], &bottoms);
        v.extend(nestings(&MAIN_KINDS, 3, 3, &[X, Y], &bottoms[..1]));
        v.extend(nestings(&core_chain, 4, 4, &[X], &bottoms[..1]));
        v
    } else {
        let mut v = nestings(&ALL_KINDS, 1, 3, &[X, Y], &bottoms);
        v.extend(nestings(&MAIN_KINDS, 4, 4, &[X], &bottoms));
        v.extend(nestings(&MAIN_KINDS, 4, 4, &[Y], &bottoms[..1]));
        v
    };
    ck.run(
        "nesting-orders",
        if quick {
            "legal opener chains x declaration level: depth <= 2 all 14 openers x {x,y} x {plain,!global,!default}; depth 3 12 openers x {x,y} x plain; depth 4 6 openers x $x x plain"
        } else {
            "legal opener chains x declaration level: depth <= 3 all 14 openers x {x,y} x {plain,!global,!default}; depth 4 12 openers x ($x x 3 flags + $y x plain)"
        },
        cases.into_iter(),
        check,
    );

    ck.finish()
}
