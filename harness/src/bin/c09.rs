//! C09 rsass's own CSS output reads back as the same stylesheet.
//!
//! Round trip (relational oracle, both sides are real executions):
//!   out1 = compile(SCSS source, expanded)            -- rs::compile_str
//!   out2 = compile_css(out1, expanded)               -- SourceFile::css_bytes + parser::css::file
//!   required: out2 == out1 after removing blank lines.
//! Space: stylesheets over exactly the construct list of the statement
//!   * `grid`        selector alphabet x value alphabet x wrappers {none, 4 @media,
//!                   3 @supports}; values in @font-face; values x keyframe selectors
//!   * `selectors`   ordered selector pairs: nested, `&`-suffixed, listed
//!   * `values`      ordered value pairs: space list, comma list, call arguments
//!   * `structure`   sequences of <= 3 statements over rules, comments, at-rules,
//!                   nested at-rules
//!   * `unicode`     strings / identifiers of <= 3 characters over 14 code-point
//!                   class representatives x the places text can appear in
//! A generated source that rsass rejects is counted as trivial (reported in the
//! evidence notes), it says nothing about the round trip.

use serde::{Deserialize, Serialize};
use std::sync::atomic::{AtomicU64, Ordering};
use vp::report::{Check, Verdict};
use vp::rs::{self, Fmt, Out};

#[derive(Clone, Debug, Hash, Serialize, Deserialize)]
struct Prog {
    src: String,
}

static REJECTED: AtomicU64 = AtomicU64::new(0);

const SELECTORS: &[&str] = &[
    "a",
    "*",
    ".b",
    "#c",
    "a.b",
    "a#c.b",
    ".b.c",
    "*.b",
    "[d]",
    "a[d]",
    "[d=e]",
    "[d=\"e f\"]",
    "[d='e']",
    "[d~=e]",
    "[d|=e]",
    "[d^=\"e\"]",
    "[d$=e]",
    "[d*=e i]",
    "a:hover",
    "a::before",
    "a:not(.b)",
    "a:not(b, c)",
    "a:nth-child(2n+1)",
    "a:nth-of-type(odd)",
    ":is(a, .b)",
    ":root",
    "a:hover::after",
    "a b",
    "a > b",
    "a + b",
    "a ~ b",
    "a > b + c ~ d e",
    "a, b",
    "a.b > #c, [d] e",
    "A",
    "a-b_c",
];

const VALUES: &[&str] = &[
    // identifiers
    "e", "-e", "e-f", "E", "e_f", "--e", "-webkit-e",
    // numbers with units
    "0", "1", "-1", "0.5", "-0.5", ".5", "1.5px", "-0.5em", "100%", "1e3", "1.25turn", "0.0001s", "10px", "1.0", "0.50",
    "12345.6789px", "0px",
    // hex colours
    "#f00", "#ff0000", "#FFAA00", "#abc", "#a1b2c3", "#abcd", "#aabbccdd",
    // quoted strings
    "\"q\"", "'q'", "\"a b\"", "\"a\\\"b\"", "'a\"b'", "\"a'b\"", "\"\"", "\"\\\\\"", "\"a\\a b\"", "\"/* c */\"", "\"a;b{c}\"",
    // url()
    "url(a.png)", "url(\"a.png\")", "url('a.png')", "url(a/b.png?c=d)", "url(data:image/png;base64,AA==)", "url(http://e.f/g.png)",
    "url(\"a b.png\")", "url(a.png#frag)",
    // simple function calls
    "f(a)", "f(a, b)", "f(1px, \"q\")", "translate(1px, -2px)", "f(g(a))", "f()", "f(#f00)", "f(url(a.png))", "rotate(0.5turn)",
    "format(\"woff\")", "local(\"F\")", "f(a b)", "f(a, b c)",
];

/// (open, close)
const WRAPPERS: &[(&str, &str)] = &[
    ("", ""),
    ("@media screen{", "}"),
    ("@media (min-width: 100px){", "}"),
    ("@media screen and (min-width: 100px), print{", "}"),
    ("@media not print{", "}"),
    ("@supports (a: b){", "}"),
    ("@supports not (a: b){", "}"),
    ("@supports (a: b) and (c: d){", "}"),
];

const FRAMES: &[&str] = &["from", "to", "50%", "0%", "12.5%", "from, to", "0%, 50%, 100%"];

/// statements for the `structure` section
const STATEMENTS: &[&str] = &[
    "a{p:e}",
    "b{q:f;r:g}",
    "/* c */",
    "/* a\n * b */",
    "/*! k */",
    // star runs next to the delimiters and inside
    "/** d **/",
    "/***/",
    "/* a ** b ***/",
    "a{/* c **/p:e}",
    "@media screen{a{p:e}}",
    "@supports (a: b){a{p:e}}",
    "@font-face{font-family:\"F\";src:url(f.woff)}",
    "@keyframes k{from{p:e}to{p:f}}",
    "@media screen{/* c */a{p:e}/* d */}",
    "a{/* c */p:e;/* d */q:f;/* e */}",
    "a{/* c */}",
    "@media screen{@media (a: b){a{p:e}}}",
    "@supports (a: b){@media screen{a{p:e}}}",
    "@media screen{@supports (a: b){a{p:e}}}",
    "@supports (a: b){@supports (c: d){a{p:e}}}",
    "@media screen{@font-face{font-family:\"F\"}}",
    "@media screen{@keyframes k{from{p:e}}}",
    "@supports (a: b){@font-face{font-family:\"F\"}}",
    "@supports (a: b){@keyframes k{from{p:e}}}",
    "@supports (a: b){/* c */}",
    "@font-face{/* c */font-family:\"F\"}",
    "@keyframes k{/* c */from{p:e}}",
    "@keyframes k{from{/* c */p:e}}",
    "a{p:e}/* c */",
    "@media screen{a{p:e}b{q:f}}",
    "a{b{p:e}c{q:f}}",
    "a{p:e;b{q:f}r:g}",
    "a{/* a\n * b */p:e}",
    "@media screen{/* a\n * b */a{p:e}}",
    "@media screen{a{/* a\nb */p:e}}",
];

// ---------------------------------------------------------------------------
// unicode section
// ---------------------------------------------------------------------------

const CLASSES: &[char] = &[
    'a', '1', '-', ' ', '"', '\'', '\\', '\n', '\u{7f}', '{', '\u{e9}', '\u{a0}', '\u{e000}', '\u{1f600}',
];

fn enc_string(content: &str, q: char) -> String {
    let mut s = String::new();
    s.push(q);
    for c in content.chars() {
        if c == q || c == '\\' {
            s.push('\\');
            s.push(c);
        } else if (c as u32) < 0x20 || c == '\u{7f}' {
            s.push_str(&format!("\\{:x} ", c as u32));
        } else {
            s.push(c);
        }
    }
    s.push(q);
    s
}

/// SCSS source of an identifier with exactly this content.
fn enc_ident(content: &str) -> String {
    let mut s = String::new();
    for (i, c) in content.chars().enumerate() {
        let raw = c.is_ascii_alphabetic() || c == '_' || (c as u32) > 0xa0 || (i > 0 && (c.is_ascii_digit() || c == '-'));
        if raw {
            s.push(c);
        } else if c == '-' {
            s.push_str("\\-");
        } else {
            s.push_str(&format!("\\{:x} ", c as u32));
        }
    }
    s
}

/// places: (template, kind) with kind s = double-quoted string, q = single-quoted
/// string, i = identifier, c = raw comment text
const PLACES: &[(&str, char)] = &[
    ("a{p:X}", 's'),
    ("a{p:X}", 'q'),
    ("a{p:X}", 'i'),
    (".X{p:e}", 'i'),
    ("#X{p:e}", 'i'),
    ("X{p:e}", 'i'),
    ("[d=X]{p:e}", 's'),
    ("[X]{p:e}", 'i'),
    ("a:X{p:e}", 'i'),
    ("a{p:url(X)}", 's'),
    ("a{p:f(X)}", 's'),
    ("a{p:f(X)}", 'i'),
    ("a{X:e}", 'i'),
    ("@font-face{font-family:X}", 's'),
    ("@keyframes X{from{p:e}}", 'i'),
    ("/*X*/", 'c'),
    ("a{/*X*/p:e}", 'c'),
    ("@media screen{a{p:X}}", 's'),
    ("a{p:X X}", 's'),
    ("a{p:e, X}", 'i'),
];

fn place(tpl: &str, kind: char, content: &str) -> Option<String> {
    let x = match kind {
        's' => enc_string(content, '"'),
        'q' => enc_string(content, '\''),
        'i' => {
            if content.is_empty() {
                return None;
            }
            enc_ident(content)
        }
        _ => content.to_string(),
    };
    Some(tpl.replace('X', &x))
}

// ---------------------------------------------------------------------------
// oracle
// ---------------------------------------------------------------------------

fn no_blank_lines(s: &str) -> Vec<&str> {
    s.lines().filter(|l| !l.trim().is_empty()).collect()
}

/// "L:C" of the first position line of an error message
fn err_pos(e: &str) -> Option<(usize, usize)> {
    let l = e.lines().find(|l| l.trim_start().starts_with("- "))?;
    let l = l.trim_start().trim_start_matches("- ");
    let (p, _) = l.split_once(' ')?;
    let (a, b) = p.split_once(':')?;
    Some((a.parse().ok()?, b.parse().ok()?))
}

/// Outcome of one read-back of `css`.
enum Back {
    Same,
    Differs(String),
    Rejected(String),
    Panic(String),
}

fn read_back(css1: &str) -> Back {
    match rs::compile_css(css1.as_bytes(), Fmt::EXPANDED) {
        Out::Css(css2) => {
            let a = no_blank_lines(css1);
            let b = no_blank_lines(&css2);
            if a == b {
                Back::Same
            } else {
                let k = a.iter().zip(b.iter()).position(|(x, y)| x != y).unwrap_or(a.len().min(b.len()));
                Back::Differs(format!(
                    "line {k}: printed {:?}, read back and printed {:?}",
                    a.get(k).copied().unwrap_or("<end>"),
                    b.get(k).copied().unwrap_or("<end>")
                ))
            }
        }
        Out::Err(e) => {
            let at = err_pos(&e)
                .and_then(|(l, c)| css1.lines().nth(l.saturating_sub(1)).map(|line| (line, c)))
                .map(|(line, c)| format!(" at {:?} col {c}", line))
                .unwrap_or_default();
            Back::Rejected(format!("{:?}{at}", e.lines().next().unwrap_or("")))
        }
        Out::Panic(site) => Back::Panic(site),
    }
}

// ---- known-defect repairs: each removes exactly one trigger from the first
// output; a failure is signed with the smallest set of repairs after which the
// read-back reproduces the (repaired) text.

/// unquoted `url(..)` whose content holds `;`: content replaced by `x`
fn repair_url_semicolon(s: &str) -> String {
    let mut out = String::new();
    let mut rest = s;
    while let Some(p) = rest.find("url(") {
        out.push_str(&rest[..p + 4]);
        let after = &rest[p + 4..];
        let quoted = after.starts_with('"') || after.starts_with('\'');
        match after.find(')') {
            Some(e) if !quoted && after[..e].contains(';') => {
                out.push('x');
                rest = &after[e..];
            }
            _ => rest = after,
        }
    }
    out.push_str(rest);
    out
}

/// `\"` inside a double-quoted string (printed when the text holds both kinds
/// of quotes): replaced by `q`.  Escapes are read pairwise, so `\\"` stays.
fn repair_escaped_dquote(s: &str) -> String {
    let mut out = String::new();
    let mut it = s.chars().peekable();
    while let Some(c) = it.next() {
        if c == '\\' {
            match it.next() {
                Some('"') => out.push('q'),
                Some(d) => {
                    out.push(c);
                    out.push(d);
                }
                None => out.push(c),
            }
        } else {
            out.push(c);
        }
    }
    out
}

/// a non-ASCII character that is not alphanumeric (emoji, no-break space, ..):
/// fine in CSS identifiers, unknown to the reader's identifier rule
#[allow(dead_code)]
fn repair_non_alnum(s: &str) -> String {
    let odd = |c: char| !c.is_ascii() && !c.is_alphanumeric();
    let mut out = String::new();
    let mut it = s.chars();
    while let Some(c) = it.next() {
        if c == '\\' {
            // escapes are read pairwise; `\<char>` (how rsass prints U+00A0 in an
            // identifier) goes as a whole
            match it.next() {
                Some(d) if odd(d) => out.push('z'),
                Some(d) => {
                    out.push(c);
                    out.push(d);
                }
                None => out.push(c),
            }
        } else if odd(c) {
            out.push('z');
        } else {
            out.push(c);
        }
    }
    out
}

/// `\{` or `\}` in an at-rule prelude (the reader's prelude rule stops at any brace)
fn repair_escaped_brace(s: &str) -> String {
    s.lines()
        .map(|l| {
            if l.trim_start().starts_with('@') {
                l.replace("\\{", "z").replace("\\}", "z")
            } else {
                l.to_string()
            }
        })
        .collect::<Vec<_>>()
        .join("\n")
        + "\n"
}

/// a comment that continues on further lines: each read-back indents the
/// continuation lines once more; the repair joins the lines
fn repair_multiline_comment(s: &str) -> String {
    let mut out = String::new();
    let mut rest = s;
    while let Some(p) = rest.find("/*") {
        out.push_str(&rest[..p]);
        let after = &rest[p..];
        let e = after.find("*/").map(|e| e + 2).unwrap_or(after.len());
        let joined: Vec<&str> = after[..e].lines().map(str::trim).collect();
        out.push_str(&joined.join(" "));
        rest = &after[e..];
    }
    out.push_str(rest);
    out
}

/// an at-rule prelude that ends in an escape is printed with the escape's
/// terminating blank plus the separating blank; the reader trims both and the
/// printer adds one
fn repair_prelude_escape_space(s: &str) -> String {
    s.lines()
        .map(|l| if l.trim_start().starts_with('@') && l.ends_with("  {") { format!("{} {{", &l[..l.len() - 3]) } else { l.to_string() })
        .collect::<Vec<_>>()
        .join("\n")
        + "\n"
}

/// `\e000`-style escape of a private-use character, printed without a terminator
fn repair_private_use(s: &str) -> String {
    s.replace("\\e000", "x")
}

/// an at-rule nested in `@supports`: the outer `@supports ..` becomes `@media x`
fn repair_supports_parent(s: &str) -> String {
    s.lines()
        .map(|l| {
            let t = l.trim_start();
            if t.starts_with("@supports ") && t.ends_with('{') {
                format!("{}@media x {{", &l[..l.len() - t.len()])
            } else {
                l.to_string()
            }
        })
        .collect::<Vec<_>>()
        .join("\n")
        + "\n"
}

type Repair = (&'static str, fn(&str) -> String);

const REPAIRS: &[Repair] = &[
    ("css-reader-url-with-semicolon", repair_url_semicolon),
    ("css-reader-escaped-dquote", repair_escaped_dquote),
    ("private-use-escape-unterminated", repair_private_use),
    ("css-reader-at-rule-inside-supports", repair_supports_parent),
    // "css-reader-non-alphanumeric-ident-char" (repair_non_alnum) was repaired in
    // /repo (4a9f638, dd7881a): it is no longer a candidate explanation
    ("at-rule-prelude-trailing-escape-space", repair_prelude_escape_space),
    ("css-reader-escaped-brace-in-prelude", repair_escaped_brace),
    ("comment-continuation-indent-grows", repair_multiline_comment),
];

fn known_defects(css1: &str) -> Option<String> {
    let n = REPAIRS.len();
    let mut masks: Vec<u32> = (1..(1u32 << n)).collect();
    masks.sort_by_key(|m| (m.count_ones(), *m));
    for m in masks {
        let mut text = css1.to_string();
        let mut names = Vec::new();
        let mut all_changed = true;
        for (k, (name, f)) in REPAIRS.iter().enumerate() {
            if m & (1 << k) != 0 {
                let t2 = f(&text);
                if t2 == text {
                    all_changed = false;
                    break;
                }
                text = t2;
                names.push(*name);
            }
        }
        if !all_changed {
            continue;
        }
        // the marker line belongs to the non-ASCII text a repair may have removed
        if let Some(rest) = text.strip_prefix("@charset \"UTF-8\";\n") {
            if rest.is_ascii() {
                text = rest.to_string();
            }
        }
        if let Back::Same = read_back(&text) {
            return Some(names.join("+"));
        }
    }
    None
}

fn run_prog(p: &Prog) -> Verdict {
    let o1 = rs::compile_str(&p.src, Fmt::EXPANDED);
    let css1 = match &o1 {
        Out::Css(c) => c,
        _ => {
            REJECTED.fetch_add(1, Ordering::Relaxed);
            return Verdict::Trivial;
        }
    };
    let out1 = vp::report::truncate(css1, 200);
    let detail = match read_back(css1) {
        Back::Same => return Verdict::pass(css1),
        Back::Differs(d) => format!("{d}; out1 {out1:?}"),
        Back::Rejected(e) => format!("the CSS reader rejects rsass' own output: {e}; out1 {out1:?}"),
        Back::Panic(site) => {
            let s = site.split(": ").next().unwrap_or(&site);
            let s = s.rsplit_once(':').map(|x| x.0).unwrap_or(s);
            return Verdict::fail_sig(format!("panic:{s}"), format!("the CSS reader panics on rsass' own output: {site}; out1 {out1:?}"));
        }
    };
    match known_defects(css1) {
        Some(sig) => Verdict::fail_sig(sig, detail),
        None => Verdict::fail(detail),
    }
}

fn main() {
    let ck = Check::from_args("C09");
    let quick = ck.quick();
    ck.rule("stylesheets over the construct list of the statement: 36 selectors x 63 values x 8 wrappers (+ @font-face, @keyframes x 7 frame selectors); ordered selector pairs (nested, &-suffix, list); ordered value pairs (space, comma, call); sequences of <= 3 of 28 statements; strings/identifiers of <= 3 chars over 14 code-point classes x 20 places; each compiled to expanded CSS, re-read with SourceFile::css_bytes, printed again and compared up to blank lines; distinct = distinct source; outcome = the first output");
    ck.assume("text equality up to blank lines is what 'the same stylesheet' means for two outputs of the same printer");

    // ---- grid
    {
        let mut v = Vec::new();
        for (open, close) in WRAPPERS {
            for s in SELECTORS {
                for val in VALUES {
                    v.push(Prog { src: format!("{open}{s}{{p:{val}}}{close}\n") });
                }
            }
        }
        for val in VALUES {
            v.push(Prog { src: format!("@font-face{{p:{val}}}\n") });
            v.push(Prog { src: format!("@font-face{{font-family:{val};src:{val}}}\n") });
            for f in FRAMES {
                v.push(Prog { src: format!("@keyframes k{{{f}{{p:{val}}}}}\n") });
            }
            for p in ["-webkit-p", "p-q", "P"] {
                v.push(Prog { src: format!("a{{{p}:{val}}}\n") });
            }
        }
        ck.run(
            "grid",
            &format!("{} selectors x {} values x {} wrappers; values in @font-face, @keyframes x {} frame selectors, 3 property names", SELECTORS.len(), VALUES.len(), WRAPPERS.len(), FRAMES.len()),
            v.into_iter(),
            run_prog,
        );
    }

    // ---- selector pairs
    {
        let mut v = Vec::new();
        for a in SELECTORS {
            for b in SELECTORS {
                v.push(Prog { src: format!("{a}{{{b}{{p:e}}}}\n") });
                v.push(Prog { src: format!("{a}, {b}{{p:e}}\n") });
                if !b.contains(' ') && !b.starts_with('a') && !b.starts_with('*') && !b.starts_with('A') {
                    v.push(Prog { src: format!("{a}{{&{b}{{p:e}}}}\n") });
                }
                if !quick {
                    v.push(Prog { src: format!("{a}{{> {b}{{p:e}}}}\n") });
                    v.push(Prog { src: format!("@media screen{{{a}{{{b}{{p:e}}}}}}\n") });
                }
            }
        }
        ck.run("selectors", "ordered selector pairs: nested, listed, &-suffixed (thorough: + child combinator, inside @media)", v.into_iter(), run_prog);
    }

    // ---- value pairs
    {
        let mut v = Vec::new();
        for a in VALUES {
            for b in VALUES {
                v.push(Prog { src: format!("a{{p:{a} {b}}}\n") });
                v.push(Prog { src: format!("a{{p:{a}, {b}}}\n") });
                if !quick {
                    v.push(Prog { src: format!("a{{p:f({a}, {b})}}\n") });
                    v.push(Prog { src: format!("a{{p:{a};q:{b}}}\n") });
                }
            }
        }
        if !quick {
            for a in VALUES {
                for b in VALUES {
                    for c in VALUES {
                        v.push(Prog { src: format!("a{{p:{a} {b}, {c}}}\n") });
                    }
                }
            }
        }
        ck.run("values", "ordered value pairs: space list, comma list (thorough: + call arguments, two declarations, all triples `A B, C`)", v.into_iter(), run_prog);
    }

    // ---- structure
    {
        let max = if quick { 2 } else { 4 };
        let v: Vec<Prog> = vp::gen::seqs_range(STATEMENTS.len(), 1, max)
            .map(|ix| Prog { src: ix.iter().map(|i| STATEMENTS[*i]).collect::<Vec<_>>().join("\n") + "\n" })
            .collect();
        ck.run(
            "structure",
            &format!("all sequences of 1..={max} of {} statements", STATEMENTS.len()),
            v.into_iter(),
            run_prog,
        );
    }

    // ---- unicode
    {
        let mut texts: Vec<String> = vec![String::new()];
        for len in 1..=4 {
            for ix in vp::gen::seqs(CLASSES.len(), len) {
                texts.push(ix.iter().map(|i| CLASSES[*i]).collect());
            }
        }
        let mut v = Vec::new();
        for (k, (tpl, kind)) in PLACES.iter().enumerate() {
            for t in &texts {
                // quick tier: length 3 only for the first eight places;
                // thorough tier: length 4 for the first five
                let len = t.chars().count();
                if (quick && k >= 8 && len == 3) || (len == 4 && (quick || k >= 5)) {
                    continue;
                }
                if let Some(src) = place(tpl, *kind, t) {
                    v.push(Prog { src: format!("{src}\n") });
                }
            }
        }
        ck.run(
            "unicode",
            if quick {
                "texts of <= 3 chars over 14 classes x 8 places, <= 2 chars x 12 more places"
            } else {
                "texts of <= 4 chars over 14 classes x 5 places, <= 3 chars x 15 more places"
            },
            v.into_iter(),
            run_prog,
        );
    }

    ck.note("sources_rejected_by_rsass", serde_json::json!(REJECTED.load(Ordering::Relaxed)));
    ck.finish()
}
