//! C22 Placeholder selectors never reach the output.
//!
//! Space: (flat) every selector list of 1..3 complex selectors over an
//! alphabet of normal selectors, placeholders in every position of a
//! complex/compound selector and placeholders inside `:not()`, `:is()`,
//! `:where()`, `:has()`, `:matches()`, `:-moz-any()`, `::slotted()`, `:host()`
//! arguments (alone, mixed with normal members, nested in each other), both
//! output styles; (nested) nests of depth 2..3 where `&` moves placeholders into
//! compounds and pseudo arguments; (pseudo-depth) all pseudo-argument trees of
//! depth <= 3 over {`%p`, `b`, `b %p`} x {not, is, has}; (omission) declaration
//! placement around removed/kept rules; (nth-of) `:nth-child(An+B of S)`.
//! Oracle (R-sel): structural selector AST, dart-sass parent resolution, and
//! placeholder filtering: a complex selector is removed iff a compound holds a
//! placeholder or a selector pseudo other than `:not` whose argument list is
//! removed entirely; `:not(<all removed>)` disappears from its compound; a
//! compound reduced to nothing is `*` -- or, second accepted reading, is
//! simplified away where that keeps the meaning (`:is(*)` vanishes, a list with
//! a universal member is `*`).  An empty member in a selector list or an empty
//! pseudo argument is never accepted.

use serde::{Deserialize, Serialize};
use vp::report::{Check, Verdict};
use vp::rs::{self, Fmt, Out};

// ======================================================================
// R-sel: selector model (self-contained; the same text is used by c19.rs)
// ======================================================================

#[derive(Clone, Debug, PartialEq, Eq)]
enum Arg {
    None,
    Other(String),
    Sel(List),
    /// `:nth-child(<prefix> of <list>)`
    Nth(String, List),
}

#[derive(Clone, Debug, PartialEq, Eq)]
enum Simple {
    /// `&` with suffix ("" = none)
    Parent(String),
    /// type selector including `*`
    Type(String),
    Placeholder(String),
    Id(String),
    Class(String),
    Attr(String),
    Pseudo { name: String, element: bool, arg: Arg },
}

#[derive(Clone, Debug, PartialEq, Eq)]
struct Compound {
    s: Vec<Simple>,
    /// this compound is the result of substituting `&` (rsass re-parses and
    /// "unifies" such compounds; only used by the known-defect variants)
    via_parent: bool,
}

#[derive(Clone, Copy, Debug, PartialEq, Eq)]
enum Comb {
    Desc,
    Child,
    Next,
    Sib,
}

impl Comb {
    fn sym(self) -> &'static str {
        match self {
            Comb::Desc => "",
            Comb::Child => ">",
            Comb::Next => "+",
            Comb::Sib => "~",
        }
    }
}

#[derive(Clone, Debug, PartialEq, Eq)]
struct Complex {
    lead: Option<Comb>,
    /// (combinator before this compound, compound); the combinator of the
    /// first entry is ignored.
    parts: Vec<(Comb, Compound)>,
}

type List = Vec<Complex>;

const SELECTOR_PSEUDOS: &[&str] = &[
    "not",
    "is",
    "matches",
    "where",
    "current",
    "any",
    "has",
    "host",
    "host-context",
    "slotted",
];

fn unvendor(name: &str) -> &str {
    if let Some(rest) = name.strip_prefix('-') {
        if let Some(i) = rest.find('-') {
            return &rest[i + 1..];
        }
    }
    name
}

fn is_ident_char(c: u8) -> bool {
    c.is_ascii_alphanumeric() || c == b'-' || c == b'_'
}

/// Split at commas outside parentheses/brackets.
fn split_top(s: &str, sep: u8) -> Vec<String> {
    let mut out = Vec::new();
    let mut depth = 0i32;
    let mut cur = String::new();
    for &b in s.as_bytes() {
        match b {
            b'(' | b'[' => depth += 1,
            b')' | b']' => depth -= 1,
            _ => {}
        }
        if b == sep && depth == 0 {
            out.push(cur.clone());
            cur.clear();
        } else {
            cur.push(b as char);
        }
    }
    out.push(cur);
    out
}

fn parse_list(s: &str) -> Result<List, String> {
    split_top(s, b',')
        .iter()
        .map(|c| parse_complex(c.trim()))
        .collect()
}

fn parse_complex(s: &str) -> Result<Complex, String> {
    let b = s.as_bytes();
    let mut i = 0;
    let mut lead = None;
    let mut parts: Vec<(Comb, Compound)> = Vec::new();
    let mut pending: Option<Comb> = None;
    let mut first = true;
    while i < b.len() {
        match b[i] {
            b' ' | b'\n' | b'\t' => {
                if pending.is_none() && !first {
                    pending = Some(Comb::Desc);
                }
                i += 1;
            }
            c @ (b'>' | b'+' | b'~') => {
                let k = match c {
                    b'>' => Comb::Child,
                    b'+' => Comb::Next,
                    _ => Comb::Sib,
                };
                if first {
                    if lead.is_some() {
                        return Err("two leading combinators".into());
                    }
                    lead = Some(k);
                } else {
                    if matches!(pending, Some(p) if p != Comb::Desc) {
                        return Err("two combinators in a row".into());
                    }
                    pending = Some(k);
                }
                i += 1;
            }
            _ => {
                // a compound: up to whitespace/combinator at depth 0
                let start = i;
                let mut depth = 0i32;
                while i < b.len() {
                    match b[i] {
                        b'(' | b'[' => depth += 1,
                        b')' | b']' => depth -= 1,
                        b' ' | b'>' | b'+' | b'~' | b'\n' | b'\t' if depth == 0 => break,
                        _ => {}
                    }
                    i += 1;
                }
                let comp = parse_compound(&s[start..i])?;
                parts.push((pending.take().unwrap_or(Comb::Desc), comp));
                first = false;
            }
        }
    }
    if matches!(pending, Some(p) if p != Comb::Desc) {
        return Err("trailing combinator".into());
    }
    if parts.is_empty() {
        return Err("empty complex selector".into());
    }
    Ok(Complex { lead, parts })
}

fn take_ident(b: &[u8], i: &mut usize) -> String {
    let start = *i;
    while *i < b.len() && is_ident_char(b[*i]) {
        *i += 1;
    }
    String::from_utf8_lossy(&b[start..*i]).to_string()
}

fn parse_compound(s: &str) -> Result<Compound, String> {
    let b = s.as_bytes();
    let mut i = 0;
    let mut out = Vec::new();
    while i < b.len() {
        match b[i] {
            b'&' => {
                if i != 0 {
                    return Err("\"&\" may only used at the beginning of a compound selector".into());
                }
                i += 1;
                let suffix = take_ident(b, &mut i);
                out.push(Simple::Parent(suffix));
            }
            b'*' => {
                i += 1;
                out.push(Simple::Type("*".into()));
            }
            b'.' => {
                i += 1;
                out.push(Simple::Class(take_ident(b, &mut i)));
            }
            b'#' => {
                i += 1;
                out.push(Simple::Id(take_ident(b, &mut i)));
            }
            b'%' => {
                i += 1;
                out.push(Simple::Placeholder(take_ident(b, &mut i)));
            }
            b'[' => {
                let start = i;
                while i < b.len() && b[i] != b']' {
                    i += 1;
                }
                i += 1;
                out.push(Simple::Attr(s[start..i.min(s.len())].to_string()));
            }
            b':' => {
                i += 1;
                let element = i < b.len() && b[i] == b':';
                if element {
                    i += 1;
                }
                let name = take_ident(b, &mut i);
                let mut arg = Arg::None;
                if i < b.len() && b[i] == b'(' {
                    let start = i + 1;
                    let mut depth = 0i32;
                    while i < b.len() {
                        match b[i] {
                            b'(' => depth += 1,
                            b')' => {
                                depth -= 1;
                                if depth == 0 {
                                    break;
                                }
                            }
                            _ => {}
                        }
                        i += 1;
                    }
                    let inner = &s[start..i];
                    i += 1;
                    let un = unvendor(&name);
                    if SELECTOR_PSEUDOS.contains(&un) {
                        arg = Arg::Sel(parse_list(inner)?);
                    } else if matches!(un, "nth-child" | "nth-last-child") && inner.contains(" of ") {
                        let (p, l) = inner.split_once(" of ").unwrap();
                        arg = Arg::Nth(p.trim().to_string(), parse_list(l)?);
                    } else {
                        arg = Arg::Other(inner.to_string());
                    }
                }
                out.push(Simple::Pseudo { name, element, arg });
            }
            c if is_ident_char(c) => {
                if !out.is_empty() {
                    return Err(format!("type selector after other simple selectors in {s:?}"));
                }
                out.push(Simple::Type(take_ident(b, &mut i)));
            }
            c => return Err(format!("unexpected {:?} in compound {s:?}", c as char)),
        }
    }
    if out.is_empty() {
        return Err("empty compound".into());
    }
    Ok(Compound {
        s: out,
        via_parent: false,
    })
}

// ---------- parent resolution (dart-sass resolveParentSelectors) ----------

fn arg_has_parent(a: &Arg) -> bool {
    match a {
        Arg::Sel(l) | Arg::Nth(_, l) => l.iter().any(complex_has_parent),
        _ => false,
    }
}

fn compound_has_parent(c: &Compound) -> bool {
    c.s.iter().any(|s| match s {
        Simple::Parent(_) => true,
        Simple::Pseudo { arg, .. } => arg_has_parent(arg),
        _ => false,
    })
}

fn complex_has_parent(c: &Complex) -> bool {
    c.parts.iter().any(|(_, c)| compound_has_parent(c))
}

/// number of compounds of this complex selector that start with `&`
fn direct_parents(c: &Complex) -> usize {
    c.parts
        .iter()
        .filter(|(_, c)| matches!(c.s.first(), Some(Simple::Parent(_))))
        .count()
}

fn flatten_vertically<T>(lists: Vec<Vec<T>>) -> Vec<T> {
    let mut its: Vec<std::vec::IntoIter<T>> = lists.into_iter().map(Vec::into_iter).collect();
    let mut out = Vec::new();
    loop {
        let mut any = false;
        for it in &mut its {
            if let Some(x) = it.next() {
                out.push(x);
                any = true;
            }
        }
        if !any {
            break;
        }
    }
    out
}

fn add_suffix(s: &Simple, suffix: &str) -> Result<Simple, String> {
    Ok(match s {
        Simple::Type(t) if t != "*" => Simple::Type(format!("{t}{suffix}")),
        Simple::Class(t) => Simple::Class(format!("{t}{suffix}")),
        Simple::Id(t) => Simple::Id(format!("{t}{suffix}")),
        Simple::Placeholder(t) => Simple::Placeholder(format!("{t}{suffix}")),
        Simple::Pseudo {
            name,
            element,
            arg: Arg::None,
        } => Simple::Pseudo {
            name: format!("{name}{suffix}"),
            element: *element,
            arg: Arg::None,
        },
        other => return Err(format!("Selector {other:?} can't have a suffix")),
    })
}

fn is_pseudo_element(s: &Simple) -> bool {
    match s {
        Simple::Pseudo { name, element, .. } => {
            *element
                || matches!(
                    name.as_str(),
                    "after" | "before" | "first-letter" | "first-line" | "marker" | "placeholder" | "selection"
                )
        }
        _ => false,
    }
}

/// Known-defect switches of the parser/resolver (all false = reference).
/// rsass keeps a compound as fields by kind and re-parses + "unifies" the
/// text of every `&`-substituted compound; each switch is one consequence.
#[derive(Clone, Copy, Debug, Default, PartialEq, Eq)]
struct Rq {
    /// simple selectors reordered by kind: type, placeholders, id, classes, attributes, pseudos
    canon: bool,
    /// the pseudo-element of a `&`-substituted compound moves last
    pe_last: bool,
    /// `&`-substituted compound: duplicate classes/placeholders removed, only the
    /// first pseudo-element kept; any compound: only the last id kept
    dedup: bool,
    /// `&`-substituted `:host` compound with a type, class or `:hover`: the
    /// complex selector disappears
    host_drop: bool,
}

fn normalize_compound(c: &mut Compound, rq: Rq) {
    for s in &mut c.s {
        if let Simple::Pseudo { arg: Arg::Sel(l) | Arg::Nth(_, l), .. } = s {
            normalize_list(l, rq);
        }
    }
    if rq.dedup {
        let last_id = c.s.iter().rposition(|s| matches!(s, Simple::Id(_)));
        let mut i = 0;
        c.s.retain(|s| {
            let keep = !matches!(s, Simple::Id(_)) || Some(i) == last_id;
            i += 1;
            keep
        });
        if c.via_parent {
            let mut seen: Vec<Simple> = Vec::new();
            let mut pe_seen = false;
            c.s.retain(|s| match s {
                Simple::Class(_) | Simple::Placeholder(_) => {
                    if seen.contains(s) {
                        false
                    } else {
                        seen.push(s.clone());
                        true
                    }
                }
                s if is_pseudo_element(s) => {
                    let keep = !pe_seen;
                    pe_seen = true;
                    keep
                }
                _ => true,
            });
        }
    }
    if rq.canon {
        c.s.sort_by_key(rank);
    }
    if rq.pe_last && c.via_parent {
        let (pe, mut rest): (Vec<Simple>, Vec<Simple>) = c.s.drain(..).partition(is_pseudo_element);
        rest.extend(pe);
        c.s = rest;
    }
}

fn normalize_list(l: &mut List, rq: Rq) {
    if rq == Rq::default() {
        return;
    }
    for c in l {
        for (_, comp) in &mut c.parts {
            normalize_compound(comp, rq);
        }
    }
}

/// rsass "unifies" the substituted
/// compound and drops the complex selector when a `:host`/`:host-context`
/// compound also has a type, class or `:hover`.
fn host_dropped(c: &Compound) -> bool {
    let host = c.s.iter().any(|s| matches!(s, Simple::Pseudo{name, ..} if name == "host" || name == "host-context"));
    host
        && c.s.iter().any(|s| match s {
            Simple::Type(_) | Simple::Class(_) => true,
            Simple::Pseudo { name, .. } => name == "hover",
            _ => false,
        })
}

fn resolve_arg(a: &Arg, parent: &List, rq: Rq) -> Result<Arg, String> {
    Ok(match a {
        Arg::Sel(l) if l.iter().any(complex_has_parent) => Arg::Sel(resolve(l, parent, false, rq)?),
        Arg::Nth(p, l) if l.iter().any(complex_has_parent) => {
            Arg::Nth(p.clone(), resolve(l, parent, false, rq)?)
        }
        other => other.clone(),
    })
}

fn resolve_compound(c: &Compound, parent: &List, rq: Rq) -> Result<Option<Vec<Complex>>, String> {
    if !compound_has_parent(c) {
        return Ok(None);
    }
    let mut simples = Vec::new();
    for s in &c.s {
        simples.push(match s {
            Simple::Pseudo { name, element, arg } => Simple::Pseudo {
                name: name.clone(),
                element: *element,
                arg: resolve_arg(arg, parent, rq)?,
            },
            o => o.clone(),
        });
    }
    let suffix = match &simples[0] {
        Simple::Parent(sfx) => sfx.clone(),
        _ => {
            return Ok(Some(vec![Complex {
                lead: None,
                parts: vec![(
                    Comb::Desc,
                    Compound {
                        s: simples,
                        via_parent: false,
                    },
                )],
            }]))
        }
    };
    let mut out = Vec::new();
    for p in parent {
        let mut parts = p.parts.clone();
        let (comb, last) = parts.pop().ok_or("empty parent")?;
        let mut ls = last.s.clone();
        if !suffix.is_empty() {
            let l = ls.pop().ok_or("empty parent compound")?;
            ls.push(add_suffix(&l, &suffix)?);
        }
        ls.extend(simples[1..].iter().cloned());
        let mut nc = Compound {
            s: ls,
            via_parent: true,
        };
        normalize_compound(&mut nc, rq);
        if rq.host_drop && host_dropped(&nc) {
            continue;
        }
        parts.push((comb, nc));
        out.push(Complex { lead: p.lead, parts });
    }
    Ok(Some(out))
}

/// `inner` resolved against `parent`.  `implicit`: complex selectors without
/// `&` get the parent prepended (style rules) or stay (pseudo arguments).
fn resolve(inner: &List, parent: &List, implicit: bool, rq: Rq) -> Result<List, String> {
    let mut per_complex: Vec<Vec<Complex>> = Vec::new();
    for c in inner {
        if !complex_has_parent(c) {
            if !implicit {
                per_complex.push(vec![c.clone()]);
                continue;
            }
            let mut v = Vec::new();
            for p in parent {
                let mut parts = p.parts.clone();
                for (i, (k, comp)) in c.parts.iter().enumerate() {
                    let k = if i == 0 { c.lead.unwrap_or(Comb::Desc) } else { *k };
                    parts.push((k, comp.clone()));
                }
                v.push(Complex { lead: p.lead, parts });
            }
            per_complex.push(v);
            continue;
        }
        let mut acc: Vec<Complex> = Vec::new();
        for (idx, (k, comp)) in c.parts.iter().enumerate() {
            match resolve_compound(comp, parent, rq)? {
                None => {
                    if idx == 0 {
                        acc = vec![Complex {
                            lead: c.lead,
                            parts: vec![(Comb::Desc, comp.clone())],
                        }];
                    } else {
                        for a in &mut acc {
                            a.parts.push((*k, comp.clone()));
                        }
                    }
                }
                Some(rs) => {
                    if idx == 0 {
                        acc = rs
                            .into_iter()
                            .map(|mut r| {
                                if c.lead.is_some() {
                                    r.lead = c.lead;
                                }
                                r
                            })
                            .collect();
                    } else {
                        let prev = std::mem::take(&mut acc);
                        for a in &prev {
                            for r in &rs {
                                let mut n = a.clone();
                                for (j, (rk, rc)) in r.parts.iter().enumerate() {
                                    let rk = if j == 0 { *k } else { *rk };
                                    n.parts.push((rk, rc.clone()));
                                }
                                acc.push(n);
                            }
                        }
                    }
                }
            }
        }
        per_complex.push(acc);
    }
    Ok(flatten_vertically(per_complex))
}

// ---------- placeholder filtering and printing ----------

/// Print flags.  All false = the reference (dart-sass) text.  The others
/// are *known-defect variants* used only to compute failure signatures.
#[derive(Clone, Copy, Debug, Default, PartialEq, Eq)]
struct Pf {
    compressed: bool,
    /// rsass omits `*` before class/id/placeholder/pseudo
    star_drop: bool,
    /// rsass prints a compound emptied by `:not(%p)` as nothing
    nostar: bool,
}

fn rank(s: &Simple) -> u8 {
    match s {
        Simple::Parent(_) => 0,
        Simple::Type(_) => 1,
        Simple::Placeholder(_) => 2,
        Simple::Id(_) => 3,
        Simple::Class(_) => 4,
        Simple::Attr(_) => 5,
        Simple::Pseudo { .. } => 6,
    }
}

/// Text of a compound; None = the compound is invisible (it holds a
/// placeholder, or a selector pseudo other than `:not` whose argument has no
/// visible member), so its complex selector is not emitted.
fn print_compound(c: &Compound, pf: Pf) -> Option<String> {
    let sep = if pf.compressed { "," } else { ", " };
    let others = c.s.iter().any(|s| {
        matches!(
            s,
            Simple::Class(_) | Simple::Placeholder(_) | Simple::Id(_) | Simple::Pseudo { .. }
        )
    });
    let mut out = String::new();
    for s in &c.s {
        match s {
            Simple::Parent(sfx) => {
                out.push('&');
                out.push_str(sfx);
            }
            Simple::Type(t) => {
                if t == "*" && pf.star_drop && others {
                    continue;
                }
                out.push_str(t);
            }
            Simple::Placeholder(_) => return None,
            Simple::Id(t) => {
                out.push('#');
                out.push_str(t);
            }
            Simple::Class(t) => {
                out.push('.');
                out.push_str(t);
            }
            Simple::Attr(t) => out.push_str(t),
            Simple::Pseudo { name, element, arg } => {
                let args = match arg {
                    Arg::None => String::new(),
                    Arg::Other(t) => format!("({t})"),
                    Arg::Sel(l) => {
                        let texts = print_list_in(l, pf, unvendor(name) == "is");
                        if texts.is_empty() {
                            if unvendor(name) == "not" {
                                // `:not(%p)` is semantically `*`
                                continue;
                            }
                            return None;
                        }
                        format!("({})", texts.join(sep))
                    }
                    Arg::Nth(p, l) => {
                        let texts = print_list_in(l, pf, false);
                        if texts.is_empty() {
                            return None;
                        }
                        format!("({p} of {})", texts.join(sep))
                    }
                };
                out.push(':');
                if *element {
                    out.push(':');
                }
                out.push_str(name);
                out.push_str(&args);
            }
        }
    }
    if out.is_empty() && !pf.nostar {
        out.push('*');
    }
    Some(out)
}

/// Text of a complex selector (None = invisible) and whether it starts with
/// a compound printed as nothing that is followed by more (defect variant only).
fn print_complex(c: &Complex, pf: Pf) -> Option<(String, bool)> {
    let sp = if pf.compressed { "" } else { " " };
    let mut out = String::new();
    let mut prev_empty = true;
    let mut leading_empty = false;
    for (i, (k, comp)) in c.parts.iter().enumerate() {
        let text = print_compound(comp, pf)?;
        if i == 0 {
            if let Some(l) = c.lead {
                out.push_str(l.sym());
                out.push_str(sp);
            }
            leading_empty = text.is_empty() && c.parts.len() > 1;
        } else if *k == Comb::Desc {
            out.push(' ');
        } else {
            if !prev_empty {
                out.push_str(sp);
            }
            out.push_str(k.sym());
            out.push_str(sp);
        }
        prev_empty = text.is_empty();
        out.push_str(&text);
    }
    Some((out, leading_empty))
}

/// The visible complex selectors of a list, printed, in order.
/// `in_is`: the list is the argument of `:is()` (defect variant `nostar`:
/// rsass takes an emptied first compound for a leading combinator and drops
/// the complex selector).
fn print_list_in(l: &List, pf: Pf, in_is: bool) -> Vec<String> {
    l.iter()
        .filter_map(|c| print_complex(c, pf))
        .filter(|(_, le)| !(pf.nostar && in_is && *le))
        .map(|(t, _)| t)
        .collect()
}

/// Selector texts of an emitted rule; None = the rule is not emitted.
fn rule_selectors(l: &List, pf: Pf) -> Option<Vec<String>> {
    let v = print_list_in(l, pf, false);
    if v.is_empty() {
        return None;
    }
    if pf.nostar && v.len() == 1 && v[0].is_empty() {
        // Rule::write prints `*` when the selector text came out empty
        return Some(vec!["*".into()]);
    }
    Some(v)
}

// ---------- second accepted reading: semantic simplification ----------
// A compound reduced to nothing matches everything ("Any"): `:is(.., Any, ..)`
// disappears, `:not(.., Any, ..)` matches nothing, a list with an Any member is
// `*`.  (This is what rsass' own Opt algebra aims at.)

enum Opt<T> {
    Some(T),
    Any,
    None,
}

fn simp_list(l: &List, compressed: bool) -> Opt<Vec<String>> {
    let mut out = Vec::new();
    for c in l {
        match simp_complex(c, compressed) {
            Opt::Some(t) => out.push(t),
            Opt::Any => return Opt::Any,
            Opt::None => {}
        }
    }
    if out.is_empty() {
        Opt::None
    } else {
        Opt::Some(out)
    }
}

fn simp_complex(c: &Complex, compressed: bool) -> Opt<String> {
    let sp = if compressed { "" } else { " " };
    let mut out = String::new();
    let single = c.parts.len() == 1 && c.lead.is_none();
    for (i, (k, comp)) in c.parts.iter().enumerate() {
        let text = match simp_compound(comp, compressed) {
            Opt::None => return Opt::None,
            Opt::Any => {
                if single {
                    return Opt::Any;
                }
                "*".to_string()
            }
            Opt::Some(t) => t,
        };
        if i == 0 {
            if let Some(l) = c.lead {
                out.push_str(l.sym());
                out.push_str(sp);
            }
        } else if *k == Comb::Desc {
            out.push(' ');
        } else {
            out.push_str(sp);
            out.push_str(k.sym());
            out.push_str(sp);
        }
        out.push_str(&text);
    }
    Opt::Some(out)
}

fn simp_compound(c: &Compound, compressed: bool) -> Opt<String> {
    let sep = if compressed { "," } else { ", " };
    let mut out = String::new();
    for s in &c.s {
        match s {
            Simple::Placeholder(_) => return Opt::None,
            Simple::Pseudo {
                name,
                element,
                arg: Arg::Sel(l),
            } => {
                let not = unvendor(name) == "not";
                match (simp_list(l, compressed), not) {
                    (Opt::Some(t), _) => {
                        out.push(':');
                        if *element {
                            out.push(':');
                        }
                        out.push_str(name);
                        out.push('(');
                        out.push_str(&t.join(sep));
                        out.push(')');
                    }
                    (Opt::Any, false) | (Opt::None, true) => {}
                    (Opt::None, false) | (Opt::Any, true) => return Opt::None,
                }
            }
            other => {
                let one = Compound {
                    s: vec![other.clone()],
                    via_parent: false,
                };
                let pf = Pf {
                    compressed,
                    nostar: true,
                    ..Pf::default()
                };
                match print_compound(&one, pf) {
                    Some(t) => out.push_str(&t),
                    None => return Opt::None,
                }
            }
        }
    }
    if out.is_empty() {
        Opt::Any
    } else {
        Opt::Some(out)
    }
}

fn rule_selectors_simplified(l: &List, compressed: bool) -> Option<Vec<String>> {
    match simp_list(l, compressed) {
        Opt::Some(v) => Some(v),
        Opt::Any => Some(vec!["*".into()]),
        Opt::None => None,
    }
}

// ======================================================================
// Programs: a nest of rules with declarations
// ======================================================================

#[derive(Clone, Debug, Hash, Serialize, Deserialize)]
struct Case {
    /// selector lists, outermost first
    sels: Vec<String>,
    /// bit 2i: a declaration before the nested rule at level i,
    /// bit 2i+1: a declaration after it (innermost level: around `x: y`)
    decls: u32,
    compressed: bool,
}

fn source(c: &Case) -> String {
    fn level(c: &Case, i: usize, out: &mut String) {
        out.push_str(&c.sels[i]);
        out.push('{');
        if c.decls >> (2 * i) & 1 == 1 {
            out.push_str(&format!("b{i}:{i};"));
        }
        if i + 1 < c.sels.len() {
            level(c, i + 1, out);
        } else {
            out.push_str("x:y;");
        }
        if c.decls >> (2 * i + 1) & 1 == 1 {
            out.push_str(&format!("a{i}:{i};"));
        }
        out.push('}');
    }
    let mut s = String::new();
    level(c, 0, &mut s);
    s
}

type Block = (Vec<String>, Vec<(String, String)>);

/// Quirk switches (all false = reference behaviour).
#[derive(Clone, Copy, Debug, Default, PartialEq, Eq)]
struct Quirks {
    pf: Pf,
    rq: Rq,
    /// use the "semantic simplification" reading for placeholder filtering
    simplified: bool,
    /// old Sass: declarations after a nested rule are hoisted into one block
    hoist: bool,
}

/// Expected blocks of the program, or Err when Sass rejects it.
fn expected(c: &Case, q: Quirks) -> Result<Vec<Block>, String> {
    let mut resolved: Vec<List> = Vec::new();
    for (i, s) in c.sels.iter().enumerate() {
        let mut l = parse_list(s)?;
        normalize_list(&mut l, q.rq);
        if i == 0 {
            if l.iter().any(complex_has_parent) {
                return Err("Top-level selectors may not contain the parent selector \"&\".".into());
            }
            resolved.push(l);
        } else {
            let r = resolve(&l, &resolved[i - 1], true, q.rq)?;
            resolved.push(r);
        }
    }
    let n = c.sels.len();
    let texts: Vec<Option<Vec<String>>> = resolved
        .iter()
        .map(|l| {
            if q.simplified {
                rule_selectors_simplified(l, c.compressed)
            } else {
                rule_selectors(l, q.pf)
            }
        })
        .collect();
    // walk the nest in source order
    let mut blocks: Vec<Block> = Vec::new();
    fn walk(c: &Case, i: usize, n: usize, texts: &[Option<Vec<String>>], hoist: bool, blocks: &mut Vec<Block>) {
        let before = c.decls >> (2 * i) & 1 == 1;
        let after = c.decls >> (2 * i + 1) & 1 == 1;
        let mut cur: Vec<(String, String)> = Vec::new();
        let flush = |cur: &mut Vec<(String, String)>, blocks: &mut Vec<Block>| {
            if !cur.is_empty() {
                if let Some(t) = &texts[i] {
                    blocks.push((t.clone(), std::mem::take(cur)));
                }
                cur.clear();
            }
        };
        if before {
            cur.push((format!("b{i}"), format!("{i}")));
        }
        if i + 1 < n {
            if hoist {
                if after {
                    cur.push((format!("a{i}"), format!("{i}")));
                }
                flush(&mut cur, blocks);
                walk(c, i + 1, n, texts, hoist, blocks);
            } else {
                flush(&mut cur, blocks);
                walk(c, i + 1, n, texts, hoist, blocks);
                if after {
                    cur.push((format!("a{i}"), format!("{i}")));
                }
                flush(&mut cur, blocks);
            }
        } else {
            cur.push(("x".into(), "y".into()));
            if after {
                cur.push((format!("a{i}"), format!("{i}")));
            }
            flush(&mut cur, blocks);
        }
    }
    walk(c, 0, n, &texts, q.hoist, &mut blocks);
    Ok(blocks)
}

/// Parse rsass' output into (selector list, declarations) blocks.
fn parse_blocks(css: &str) -> Option<Vec<Block>> {
    let mut out = Vec::new();
    let mut rest = css;
    loop {
        let t = rest.trim_start_matches('\n');
        if t.is_empty() {
            return Some(out);
        }
        // selector: up to `{` outside parens/brackets
        let mut depth = 0i32;
        let mut open = None;
        for (i, b) in t.bytes().enumerate() {
            match b {
                b'(' | b'[' => depth += 1,
                b')' | b']' => depth -= 1,
                b'{' if depth == 0 => {
                    open = Some(i);
                    break;
                }
                _ => {}
            }
        }
        let open = open?;
        let sel = &t[..open];
        let sel = sel.strip_suffix(' ').unwrap_or(sel);
        let close = t[open..].find('}')? + open;
        let body = &t[open + 1..close];
        let mut decls = Vec::new();
        for d in body.split(';') {
            let d = d.trim();
            if d.is_empty() {
                continue;
            }
            let (n, v) = d.split_once(':')?;
            decls.push((n.trim().to_string(), v.trim().to_string()));
        }
        let sels: Vec<String> = split_top(sel, b',')
            .into_iter()
            .enumerate()
            .map(|(i, s)| match s.strip_prefix(' ') {
                Some(t) if i > 0 => t.to_string(),
                _ => s,
            })
            .collect();
        out.push((sels, decls));
        rest = &t[close + 1..];
    }
}

fn panic_site(p: &str) -> String {
    // file + normalised message (no line number): survives unrelated edits
    vp::rs::panic_site(p)
}

fn same_modulo_order(a: &[Block], b: &[Block]) -> bool {
    a.len() == b.len()
        && a.iter().zip(b).all(|(x, y)| {
            let mut xs = x.0.clone();
            let mut ys = y.0.clone();
            xs.sort();
            ys.sort();
            xs == ys && x.1 == y.1
        })
}

fn judge(c: &Case) -> Verdict {
    let src = source(c);
    let fmt = if c.compressed { Fmt::COMPRESSED } else { Fmt::EXPANDED };
    let out = rs::compile_str(&src, fmt);
    let base = Quirks {
        pf: Pf {
            compressed: c.compressed,
            ..Pf::default()
        },
        ..Quirks::default()
    };
    let want = expected(c, base);
    let css = match (&want, &out) {
        (Err(_), Out::Err(_)) => return Verdict::pass("rejected"),
        (Err(e), Out::Panic(p)) => {
            return Verdict::fail_sig(
                format!("panic:{}", panic_site(p)),
                format!("{src}: Sass reports an error ({e}); rsass panics: {p}"),
            )
        }
        (Ok(_), Out::Panic(p)) => {
            return Verdict::fail_sig(format!("panic:{}", panic_site(p)), format!("{src}: panic {p}"))
        }
        (Ok(w), Out::Err(e)) => return Verdict::fail(format!("{src}: expected {w:?}, got error {e}")),
        (_, Out::Css(css)) => css,
    };
    let Some(got) = parse_blocks(css) else {
        return Verdict::fail(format!("{src}: output does not parse into rule blocks: {css:?}"));
    };
    // several `&` in one complex selector under a parent list: the order of
    // the cross product is not fixed by the statement
    let multi = c
        .sels
        .iter()
        .filter_map(|s| parse_list(s).ok())
        .any(|l| l.iter().any(|c| direct_parents(c) >= 2));
    let want_text = match &want {
        Ok(w) => format!("{w:?}"),
        Err(e) => format!("an error ({})", vp::report::truncate(e, 120)),
    };
    if let Ok(w) = &want {
        // every accepted reading: placeholder reading x declaration placement
        let mut accepted = vec![w.clone()];
        for (simplified, hoist) in [(false, true), (true, false), (true, true)] {
            if let Ok(w) = expected(c, Quirks { simplified, hoist, ..base }) {
                if !accepted.contains(&w) {
                    accepted.push(w);
                }
            }
        }
        if accepted.contains(&got) {
            return Verdict::pass(&got);
        }
        if multi && accepted.iter().any(|w| same_modulo_order(w, &got)) {
            return Verdict::pass(&("modulo-order", &got));
        }
    }
    // known-defect variants: the smallest set of switches that reproduces
    // the observed output exactly
    let mut combos: Vec<u32> = (1..64).collect();
    combos.sort_by_key(|m| (m.count_ones(), *m));
    for m in combos {
        let q = Quirks {
            pf: Pf {
                compressed: c.compressed,
                star_drop: m & 4 != 0,
                nostar: m & 8 != 0,
            },
            rq: Rq {
                canon: m & 1 != 0,
                pe_last: m & 2 != 0,
                host_drop: m & 16 != 0,
                dedup: m & 32 != 0,
            },
            ..Quirks::default()
        };
        if let Ok(w) = expected(c, q) {
            if w == got || (multi && same_modulo_order(&w, &got)) {
                let sig: Vec<&str> = (0..6).filter(|i| m >> i & 1 == 1).map(|i| QUIRK_NAMES[i]).collect();
                return Verdict::fail_sig(sig.join("+"), format!("{src}: got {got:?}, expected {want_text}"));
            }
        }
    }
    Verdict::fail(format!("{src}: got {got:?}, expected {want_text}"))
}

const QUIRK_NAMES: [&str; 6] = ["canon-order", "pe-last", "star-dropped", "empty-compound", "host-dropped", "dedup"];

// ======================================================================
// Alphabets
// ======================================================================

/// Complex selectors for flat lists.
const FLAT: &[&str] = &[
    "a",
    "a b",
    "%p",
    "a %p",
    "%p > b",
    "a%p",
    ":not(%p)",
    "a:not(%p)",
    "a:not(%p, b)",
    ":is(%p, a)",
    "a:is(%p)",
    ":not(:is(%p))",
    "a :not(%p) d",
    "a:is(b %p, c)",
    "a:has(%p)",
    ":is(:not(%p))",
    ".k > d",
    "%p.k",
    "a + %p ~ b",
    "a:not(:is(%p), c)",
    ":not(%p) > b",
    "b > :not(%p)",
    "a:where(%p, b)",
    "a:has(> %p, + b)",
    // ---- quick tier stops here
    ":not(:not(%p))",
    "a:not(b %p)",
    "a::slotted(%p)",
    "a:matches(%p, b)",
    ":-moz-any(%p, b)",
    "a:not(%p):not(%q)",
    ":not(%p):not(%q)",
    "a:is(%p, %q)",
    "a:not(%p):hover",
    "a:host(%p)",
    ":host-context(%p, b) c",
    "a:not(:not(%p))",
];
const FLAT_QUICK: usize = 24;

/// Outer complex selectors for nests.
const N_OUTER: &[&str] = &["a", "%p", "a %p", ".k%p", "a:not(%p)", ":not(%p)", "a:is(%p, b)"];

/// Inner complex selectors for nests.
const N_INNER: &[&str] = &[
    "b",
    "%q",
    "&",
    "& b",
    "b &",
    "&%q",
    "&:hover",
    "&:not(%q)",
    ":not(&)",
    ":is(&, b)",
    ":is(&)",
    "b:not(&)",
    "&-s",
    ":not(:is(&))",
    "&:is(%q, b)",
    ":not(&) b",
    "b:has(&)",
];

/// Selector lists of `min..=max` members over `alpha`.
fn lists(alpha: &[&str], min: usize, max: usize) -> Vec<String> {
    vp::gen::seqs_range(alpha.len(), min, max)
        .map(|idx| idx.iter().map(|i| alpha[*i]).collect::<Vec<_>>().join(", "))
        .collect()
}

fn case(sels: Vec<String>, decls: u32, compressed: bool) -> Case {
    Case {
        sels,
        decls,
        compressed,
    }
}

/// Pseudo-argument trees: T0 = leaves, T(d+1) = T0 + {pre:f(L)}, L = lists of
/// 1..=width members of T(d).
fn pseudo_trees(leaves: &[&str], heads: &[&str], prefixes: &[&str], depth: usize, width: usize) -> Vec<String> {
    let mut cur: Vec<String> = leaves.iter().map(|s| s.to_string()).collect();
    for _ in 0..depth {
        let mut next: Vec<String> = leaves.iter().map(|s| s.to_string()).collect();
        for pre in prefixes {
            for f in heads {
                for idx in vp::gen::seqs_range(cur.len(), 1, width) {
                    let l: Vec<&str> = idx.iter().map(|i| cur[*i].as_str()).collect();
                    next.push(format!("{pre}:{f}({})", l.join(", ")));
                }
            }
        }
        cur = next;
    }
    cur
}

fn main() {
    let ck = Check::from_args("C22");
    let quick = ck.quick();
    ck.rule("flat: every list of 1..3 complex selectors over a 36-element alphabet (24 quick) of placeholder layouts x 2 styles; nested: outer lists x inner lists (x third level) with `&` carrying placeholders into compounds and pseudo arguments; pseudo-depth: every pseudo-argument tree of depth <= 2 (lists of 1..2) and depth 3 (single member); omission: declaration masks around removed rules; distinct = distinct (selector chain, declaration mask, style); outcome = emitted (selector list, declarations) blocks");
    ck.assume("the reference filter implements dart-sass' visibility rules (placeholder => complex selector invisible; `:not(invisible)` => omitted; empty compound => `*`) and additionally accepts the meaning-preserving simplification of emptied compounds; rsass' block framing is parsed loosely");

    // ---- flat lists
    let flat: &[&str] = if quick { &FLAT[..FLAT_QUICK] } else { FLAT };
    let mut fc = Vec::new();
    for compressed in [false, true] {
        for l in lists(flat, 1, 3) {
            fc.push(case(vec![l], 0, compressed));
        }
        if !quick {
            for l in lists(&FLAT[..FLAT_QUICK], 4, 4) {
                fc.push(case(vec![l], 0, compressed));
            }
        }
    }
    ck.run(
        "flat",
        if quick { "lists of 1..3 over 24 complex selectors x 2 styles" } else { "lists of 1..3 over 36 complex selectors + lists of 4 over 24, x 2 styles" },
        fc.into_iter(),
        judge,
    );

    // ---- nests
    let o1 = lists(N_OUTER, 1, 1);
    let o2 = lists(N_OUTER, 1, 2);
    let i1 = lists(N_INNER, 1, 1);
    let i2 = lists(N_INNER, 1, 2);
    let mut nc = Vec::new();
    for o in &o2 {
        for i in &i2 {
            nc.push(case(vec![o.clone(), i.clone()], 0, false));
        }
    }
    ck.run(
        "nested2",
        "outer lists 1..2 of 7 x inner lists 1..2 of 17",
        nc.into_iter(),
        judge,
    );
    let mut nc3 = Vec::new();
    {
        let (oo, mid, last): (&Vec<String>, &Vec<String>, &Vec<String>) =
            if quick { (&o1, &i1, &i2) } else { (&o2, &i2, &i2) };
        for o in oo {
            for m in mid {
                for l in last {
                    nc3.push(case(vec![o.clone(), m.clone(), l.clone()], 0, false));
                }
            }
        }
    }
    ck.run(
        "nested3",
        if quick { "7 outer x 17 inner x inner lists 1..2 of 17" } else { "outer lists 1..2 of 7 x (inner lists 1..2 of 17)^2" },
        nc3.into_iter(),
        judge,
    );

    // ---- pseudo argument trees
    let leaves = ["%p", "b", "b %p"];
    let heads: &[&str] = if quick { &["not", "is"] } else { &["not", "is", "has"] };
    let t2 = pseudo_trees(&leaves, heads, &["", "c"], 2, 2);
    let mut pc: Vec<Case> = t2.iter().map(|s| case(vec![s.clone()], 0, false)).collect();
    let mut bound = format!("depth 2, lists of 1..2, heads {heads:?}, prefixes ['', 'c']: {}", t2.len());
    if !quick {
        // depth 3: one more level around every depth-2 tree (single member)
        let mut n = 0;
        let mut have: std::collections::HashSet<String> = t2.iter().cloned().collect();
        for pre in ["", "c"] {
            for f in heads {
                for t in &t2 {
                    // (trees of lower depth wrapped once are already in the depth-2 set)
                    let sel = format!("{pre}:{f}({t})");
                    if have.insert(sel.clone()) {
                        pc.push(case(vec![sel], 0, false));
                        n += 1;
                    }
                }
            }
        }
        bound.push_str(&format!("; depth 3 single member: {n}"));
    }
    ck.run("pseudo-depth", &bound, pc.into_iter(), judge);

    // ---- omission of whole rules, declarations around removed/kept rules
    let chains: &[&[&str]] = &[
        &["%p"],
        &["a, %p"],
        &["%p", "a"],
        &["a", "%q"],
        &["%p", ":not(&)"],
        &["a, %p", "b"],
        &["%p", "&, b"],
        &["a", "%q", "b"],
        &["a", ":is(%q, &)", "b"],
        &["%p", "a", ":not(&)"],
        &["a", "&%q", "&, :not(&)"],
        &[":not(%p)", "%q", "b"],
    ];
    let mut oc = Vec::new();
    for ch in chains {
        for compressed in [false, true] {
            for mask in 0..(1u32 << (2 * ch.len())) {
                oc.push(case(ch.iter().map(|s| s.to_string()).collect(), mask, compressed));
            }
        }
    }
    ck.run("omission", "12 chains x all declaration masks x 2 styles", oc.into_iter(), judge);

    // ---- `:nth-child(An+B of S)`
    let nth = [
        "a:nth-child(2n+1 of %p)",
        "a:nth-child(2n+1 of b)",
        "a:nth-child(2n+1 of %p, b)",
        "a:nth-child(2n+1 of b, %p)",
        "a:nth-last-child(odd of b, %p), c",
        ":nth-child(even of %p), c",
        "a:nth-child(2n+1 of :not(%p))",
        "a:nth-child(2n+1 of b:not(%p))",
    ];
    ck.run(
        "nth-of",
        "8 selectors",
        nth.iter().map(|s| case(vec![s.to_string()], 0, false)),
        judge,
    );

    ck.finish()
}
