//! C29 Math functions compute the specified values.
//!
//! Space: every function of the statement (abs ceil floor round percentage div
//! min max clamp pow sqrt log exp sin cos tan asin acos atan atan2) in its
//! `math.` form and, where one exists, its global form  x  a boundary-number
//! alphabet (0, -0, +-0.5 ties, 2^52-0.5, 2^53, tiny, huge, +-infinity, NaN)  x
//! unit situations {none, px, deg, rad, turn, %, em}; two-argument functions on
//! all ordered pairs of numbers x unit pairs {equal, convertible, unitless
//! mixed, incompatible, %}; min/max on all singles, pairs and triples and clamp
//! on all triples of a value-with-unit alphabet with convertible, incompatible
//! and unknown-relation units, NaN and infinities.
//! Oracle (R-math): f64 reference computation written here (unit table, IEEE
//! functions of the Rust std), compared after parsing the printed value, at
//! output precision 10 with 1-ulp slack; "must be an error" where the
//! statement says so.

use serde::{Deserialize, Serialize};
use vp::report::{Check, Verdict};
use vp::rs::{self, Fmt, Out};

const PRELUDE: &str = "@use \"sass:math\";";

// ---------------------------------------------------------------- arguments

#[derive(Clone, Debug, Hash, Serialize, Deserialize, PartialEq)]
struct Arg {
    /// decimal literal, or "inf" / "-inf" / "nan"
    lit: String,
    unit: String,
}

fn arg(lit: &str, unit: &str) -> Arg {
    Arg {
        lit: lit.to_string(),
        unit: unit.to_string(),
    }
}

impl Arg {
    fn v(&self) -> f64 {
        match self.lit.as_str() {
            "inf" => f64::INFINITY,
            "-inf" => f64::NEG_INFINITY,
            "nan" => f64::NAN,
            s => s.parse().unwrap_or(f64::NAN),
        }
    }
    /// SassScript source producing exactly this number.
    fn src(&self) -> String {
        let u = &self.unit;
        match self.lit.as_str() {
            "inf" => format!("math.div(1{u},0)"),
            "-inf" => format!("math.div(-1{u},0)"),
            "nan" => format!("math.div(0{u},0)"),
            s => format!("{s}{u}"),
        }
    }
    /// How the number reads inside a calculation that is emitted unevaluated.
    fn disp(&self) -> String {
        disp(self.v(), &self.unit)
    }
}

fn fmt10(v: f64) -> String {
    if v.abs() >= 1e15 {
        // shortest round-trip digits, zero padded (no fraction digits are left)
        return format!("{v}");
    }
    let mut s = format!("{v:.10}");
    if s.contains('.') {
        while s.ends_with('0') {
            s.pop();
        }
        if s.ends_with('.') {
            s.pop();
        }
    }
    if s == "-0" {
        s = "0".into();
    }
    s
}

fn disp(v: f64, u: &str) -> String {
    if v.is_finite() {
        return format!("{}{u}", fmt10(v));
    }
    let n = if v.is_nan() {
        "NaN"
    } else if v > 0.0 {
        "infinity"
    } else {
        "-infinity"
    };
    if u.is_empty() {
        format!("calc({n})")
    } else {
        format!("calc({n} * 1{u})")
    }
}

// ---------------------------------------------------------------- R-unit

fn class(u: &str) -> &'static str {
    match u {
        "" => "none",
        "px" | "in" | "cm" | "mm" | "pt" | "pc" | "q" => "len",
        "deg" | "rad" | "grad" | "turn" => "angle",
        "s" | "ms" => "time",
        "%" => "pct",
        "em" => "em",
        _ => "other",
    }
}

/// size of one `u` in the base unit of its class (px, deg, s)
fn factor(u: &str) -> f64 {
    match u {
        "px" => 1.0,
        "in" => 96.0,
        "cm" => 96.0 / 2.54,
        "mm" => 96.0 / 25.4,
        "pt" => 96.0 / 72.0,
        "pc" => 16.0,
        "q" => 96.0 / 101.6,
        "deg" => 1.0,
        "rad" => 180.0 / std::f64::consts::PI,
        "grad" => 0.9,
        "turn" => 360.0,
        "s" => 1.0,
        "ms" => 0.001,
        _ => 1.0,
    }
}

fn convertible(a: &str, b: &str) -> bool {
    a == b || (class(a) == class(b) && matches!(class(a), "len" | "angle" | "time"))
}

fn convert(v: f64, from: &str, to: &str) -> Option<f64> {
    if from == to {
        Some(v)
    } else if convertible(from, to) {
        Some(v * factor(from) / factor(to))
    } else {
        None
    }
}

/// The CSS type of a unit when it is known: numbers with different known
/// types can never be compared; `%` is unknown (may stand for any type).
fn css_type(u: &str) -> Option<&'static str> {
    match class(u) {
        "none" => Some("number"),
        "len" | "em" => Some("length"),
        "angle" => Some("angle"),
        "time" => Some("time"),
        _ => None,
    }
}

// ---------------------------------------------------------------- observation

#[derive(Clone, Debug, PartialEq)]
enum Obs {
    Num(f64, String),
    Text(String),
    Err(String),
    Panic(String),
}

fn observe(out: &Out) -> Obs {
    match out {
        Out::Err(e) => Obs::Err(e.lines().next().unwrap_or("").to_string()),
        Out::Panic(p) => Obs::Panic(p.clone()),
        Out::Css(s) => parse_value(s),
    }
}

fn parse_value(s: &str) -> Obs {
    if let Some(inner) = s.strip_prefix("calc(").and_then(|t| t.strip_suffix(')')) {
        let (n, u) = match inner.split_once(" * 1") {
            Some((n, u)) => (n, u),
            None => (inner, ""),
        };
        let v = match n {
            "NaN" => f64::NAN,
            "infinity" => f64::INFINITY,
            "-infinity" => f64::NEG_INFINITY,
            _ => return Obs::Text(s.to_string()),
        };
        if u.chars().all(|c| c.is_ascii_alphabetic() || c == '%') {
            return Obs::Num(v, u.to_string());
        }
        return Obs::Text(s.to_string());
    }
    let b = s.as_bytes();
    let mut i = 0;
    if i < b.len() && b[i] == b'-' {
        i += 1;
    }
    let d0 = i;
    while i < b.len() && b[i].is_ascii_digit() {
        i += 1;
    }
    if i < b.len() && b[i] == b'.' {
        i += 1;
        while i < b.len() && b[i].is_ascii_digit() {
            i += 1;
        }
    }
    if i == d0 {
        return Obs::Text(s.to_string());
    }
    let (n, u) = s.split_at(i);
    if !(u.chars().all(|c| c.is_ascii_alphabetic()) || u == "%") {
        return Obs::Text(s.to_string());
    }
    match n.parse::<f64>() {
        Ok(v) => Obs::Num(v, u.to_string()),
        Err(_) => Obs::Text(s.to_string()),
    }
}

/// Equal at output precision 10 with slack: half a unit of the 10th decimal
/// plus about three ulps (relative 8e-16) for the 16-significant-digit cap
/// and one-ulp differences in how a conversion factor is formed.
fn close(g: f64, c: f64) -> bool {
    if c.is_nan() || g.is_nan() {
        return c.is_nan() && g.is_nan();
    }
    if c.is_infinite() || g.is_infinite() {
        return c == g;
    }
    (g - c).abs() <= 0.5e-10 * (1.0 + 1e-6) + c.abs() * 8e-16
}

// ---------------------------------------------------------------- expectation

#[derive(Default, Debug)]
struct Exp {
    /// acceptable numeric results (value, unit)
    nums: Vec<(f64, String)>,
    /// acceptable interval of numeric results (lo, hi, unit)
    range: Option<(f64, f64, String)>,
    /// an error is acceptable
    err: bool,
    /// acceptable exact texts (an unevaluated calculation)
    texts: Vec<String>,
}

impl Exp {
    fn num(v: f64, u: &str) -> Exp {
        Exp {
            nums: vec![(v, u.to_string())],
            ..Default::default()
        }
    }
    fn error() -> Exp {
        Exp {
            err: true,
            ..Default::default()
        }
    }
    fn accepts(&self, o: &Obs) -> bool {
        match o {
            Obs::Panic(_) => false,
            Obs::Err(_) => self.err,
            Obs::Text(t) => self.texts.iter().any(|x| text_eq(x, t)),
            Obs::Num(g, u) => {
                self.nums.iter().any(|(c, cu)| cu == u && close(*g, *c))
                    || self.range.as_ref().is_some_and(|(lo, hi, ru)| {
                        ru == u && !g.is_nan() && *g >= *lo - tol(*lo) && *g <= *hi + tol(*hi)
                    })
            }
        }
    }
    fn describe(&self) -> String {
        let mut parts = Vec::new();
        for (v, u) in &self.nums {
            parts.push(disp(*v, u));
        }
        if let Some((lo, hi, u)) = &self.range {
            parts.push(format!("[{lo:e}..{hi:e}]{u}"));
        }
        if self.err {
            parts.push("<error>".into());
        }
        for t in &self.texts {
            parts.push(format!("text {t:?}"));
        }
        parts.join(" | ")
    }
}

fn tol(c: f64) -> f64 {
    if c.is_finite() {
        0.5e-10 * (1.0 + 1e-6) + c.abs() * 8e-16
    } else {
        0.0
    }
}

fn step(x: f64, k: i32) -> f64 {
    let mut x = x;
    for _ in 0..k.abs() {
        x = if k > 0 { x.next_up() } else { x.next_down() };
    }
    x
}

// ---------------------------------------------------------------- R-math: one argument

const UNARY: &[&str] = &[
    "abs", "ceil", "floor", "round", "percentage", "sqrt", "exp", "log", "sin", "cos", "tan",
    "asin", "acos", "atan",
];

fn call_text(f: &str, form: &str, args: &[Arg]) -> String {
    let a: Vec<String> = args.iter().map(Arg::src).collect();
    let p = if form == "math" { "math." } else { "" };
    format!("{p}{f}({})", a.join(", "))
}

/// Two texts are the same unevaluated call when they differ only in how numbers
/// are printed (numbers print with at most 16 significant digits): split into
/// numerals and the text between them; texts equal, numerals within 1e-14 relative.
fn text_eq(a: &str, b: &str) -> bool {
    fn split(s: &str) -> (Vec<String>, Vec<f64>) {
        let mut texts = vec![String::new()];
        let mut nums = Vec::new();
        let cs: Vec<char> = s.chars().collect();
        let mut i = 0;
        while i < cs.len() {
            let c = cs[i];
            let starts = c.is_ascii_digit()
                || (c == '.' && cs.get(i + 1).is_some_and(|d| d.is_ascii_digit()))
                || (c == '-'
                    && cs.get(i + 1).is_some_and(|d| d.is_ascii_digit() || *d == '.')
                    && !texts.last().is_some_and(|t| t.ends_with(|p: char| p.is_alphanumeric() || p == '-' || p == '_')));
            if starts {
                let mut j = i + 1;
                while j < cs.len() && (cs[j].is_ascii_digit() || cs[j] == '.') {
                    j += 1;
                }
                let t: String = cs[i..j].iter().collect();
                match t.parse::<f64>() {
                    Ok(v) => {
                        nums.push(v);
                        texts.push(String::new());
                    }
                    Err(_) => texts.last_mut().unwrap().push_str(&t),
                }
                i = j;
            } else {
                texts.last_mut().unwrap().push(c);
                i += 1;
            }
        }
        (texts, nums)
    }
    if a == b {
        return true;
    }
    let (ta, na) = split(a);
    let (tb, nb) = split(b);
    ta == tb
        && na.len() == nb.len()
        && na.iter().zip(&nb).all(|(x, y)| x == y || (x - y).abs() <= 1e-14 * x.abs().max(y.abs()))
}

fn deferred_text(f: &str, args: &[Arg]) -> String {
    let a: Vec<String> = args.iter().map(Arg::disp).collect();
    format!("{f}({})", a.join(", "))
}

fn unary_model(f: &str, a: &Arg) -> Exp {
    let v = a.v();
    let u = a.unit.as_str();
    match f {
        "abs" => Exp::num(v.abs(), u),
        "ceil" => Exp::num(v.ceil(), u),
        "floor" => Exp::num(v.floor(), u),
        // ties away from zero (Sass reference implementation: Dart's round())
        "round" => Exp::num(v.round(), u),
        "percentage" => {
            if u.is_empty() {
                Exp::num(v * 100.0, "%")
            } else {
                Exp::error()
            }
        }
        "sqrt" | "exp" | "log" => {
            if !u.is_empty() {
                return Exp::error();
            }
            Exp::num(
                match f {
                    "sqrt" => v.sqrt(),
                    "exp" => v.exp(),
                    _ => v.ln(),
                },
                "",
            )
        }
        "sin" | "cos" | "tan" => {
            let rads: Vec<f64> = if u.is_empty() {
                vec![v]
            } else if class(u) == "angle" {
                let r = if u == "rad" {
                    v
                } else {
                    v * factor(u) * (std::f64::consts::PI / 180.0)
                };
                (-4..=4).map(|k| step(r, k)).collect()
            } else {
                return Exp::error();
            };
            let outs: Vec<f64> = rads
                .iter()
                .map(|r| match f {
                    "sin" => r.sin(),
                    "cos" => r.cos(),
                    _ => r.tan(),
                })
                .collect();
            if outs.iter().any(|o| o.is_nan()) {
                return Exp::num(f64::NAN, "");
            }
            let lo = outs.iter().cloned().fold(f64::INFINITY, f64::min);
            let hi = outs.iter().cloned().fold(f64::NEG_INFINITY, f64::max);
            if hi - lo > 1e-6 {
                // ill-conditioned (huge angle or a pole within the conversion slack):
                // only the range of the function is decided
                let (lo, hi) = if f == "tan" {
                    (f64::NEG_INFINITY, f64::INFINITY)
                } else {
                    (-1.0, 1.0)
                };
                Exp {
                    range: Some((lo, hi, String::new())),
                    ..Default::default()
                }
            } else {
                Exp {
                    range: Some((lo, hi, String::new())),
                    ..Default::default()
                }
            }
        }
        "asin" | "acos" | "atan" => {
            if !u.is_empty() {
                return Exp::error();
            }
            let r = match f {
                "asin" => v.asin(),
                "acos" => v.acos(),
                _ => v.atan(),
            };
            Exp::num(r.to_degrees(), "deg")
        }
        _ => Exp::default(),
    }
}

// ---------------------------------------------------------------- R-math: two arguments

const BINARY: &[&str] = &["div", "pow", "log", "atan2"];

fn binary_model(f: &str, a: &Arg, b: &Arg) -> Exp {
    let (va, vb) = (a.v(), b.v());
    let (ua, ub) = (a.unit.as_str(), b.unit.as_str());
    match f {
        "pow" | "log" => {
            if !ua.is_empty() || !ub.is_empty() {
                return Exp::error();
            }
            if f == "pow" {
                Exp::num(va.powf(vb), "")
            } else {
                Exp::num(va.ln() / vb.ln(), "")
            }
        }
        "atan2" => {
            if ua.is_empty() != ub.is_empty() {
                return Exp::error();
            }
            match convert(vb, ub, ua) {
                Some(x) => Exp::num(va.atan2(x).to_degrees(), "deg"),
                None => Exp::error(),
            }
        }
        "div" => {
            if ub.is_empty() {
                return Exp::num(va / vb, ua);
            }
            if let Some(d) = convert(vb, ub, ua) {
                return Exp::num(va / d, "");
            }
            // the quotient carries a unit CSS cannot express (1/px, px/deg, px/%):
            // printing it is an error; for a non-finite quotient dart-sass prints
            // `calc(infinity / 1px)` instead, accept that text too
            let q = va / vb;
            let mut e = Exp::error();
            if !q.is_finite() {
                let n = if q.is_nan() {
                    "NaN"
                } else if q > 0.0 {
                    "infinity"
                } else {
                    "-infinity"
                };
                if ua.is_empty() {
                    e.texts.push(format!("calc({n} / 1{ub})"));
                } else {
                    e.texts.push(format!("calc({n} * 1{ua} / 1{ub})"));
                }
            }
            e
        }
        _ => Exp::default(),
    }
}

// ---------------------------------------------------------------- R-math: min / max / clamp

/// What rsass' `find_extreme` does (defect variant; see findings).
#[derive(Debug, PartialEq)]
enum Variant {
    Arg(usize),
    Deferred,
    Error,
}

fn rsass_number_eq(a: f64, b: f64) -> bool {
    ((a - b).abs() / a.abs()) <= f64::EPSILON
}

fn rsass_cmp(a: f64, b: f64) -> Option<std::cmp::Ordering> {
    if rsass_number_eq(a, b) {
        Some(std::cmp::Ordering::Equal)
    } else {
        a.partial_cmp(&b)
    }
}

fn rsass_may_cmp_css(a: &str, b: &str) -> bool {
    let dim = |u: &str| match class(u) {
        "none" | "pct" => "",
        "len" | "em" => "length",
        "angle" => "angle",
        "time" => "time",
        _ => "unknown",
    };
    dim(a).is_empty() || dim(b).is_empty() || dim(a) == dim(b)
}

fn rsass_find_extreme(args: &[Arg], less: bool) -> Variant {
    let pref = if less {
        std::cmp::Ordering::Less
    } else {
        std::cmp::Ordering::Greater
    };
    let mut found = 0usize;
    for i in 1..args.len() {
        let (a, b) = (&args[found], &args[i]);
        let o = if a.unit == b.unit || a.unit.is_empty() || b.unit.is_empty() {
            rsass_cmp(a.v(), b.v())
        } else if convertible(&a.unit, &b.unit) {
            // value of b expressed in a's unit, with rsass' own factors (close enough
            // for the alphabet: ties are excluded by the caller)
            convert(b.v(), &b.unit, &a.unit).and_then(|s| rsass_cmp(a.v(), s))
        } else {
            None
        };
        match o {
            Some(o) => {
                if o != pref {
                    found = i;
                }
            }
            None => {
                return if rsass_may_cmp_css(&a.unit, &b.unit) {
                    Variant::Deferred
                } else {
                    Variant::Error
                };
            }
        }
    }
    Variant::Arg(found)
}

fn fuzzy_eq(a: f64, b: f64) -> bool {
    if a == b {
        return true;
    }
    (a - b).abs() <= 1e-11 * a.abs().max(b.abs()).max(1.0)
}

struct Situation {
    has_nan: bool,
    has_unitless: bool,
    /// distinct units among unit-bearing arguments
    units: Vec<String>,
    /// distinct convertibility classes among unit-bearing arguments
    classes: Vec<&'static str>,
    /// some pair of arguments has known, different CSS types (unitless = number)
    definitely_incompatible: bool,
}

fn situation(args: &[Arg]) -> Situation {
    let mut units: Vec<String> = Vec::new();
    let mut classes: Vec<&'static str> = Vec::new();
    for a in args {
        if !a.unit.is_empty() {
            if !units.contains(&a.unit) {
                units.push(a.unit.clone());
            }
            let c = if matches!(class(&a.unit), "len" | "angle" | "time") {
                class(&a.unit)
            } else {
                // every non-convertible unit is a class of its own
                match a.unit.as_str() {
                    "%" => "pct",
                    "em" => "em",
                    _ => "other",
                }
            };
            if !classes.contains(&c) {
                classes.push(c);
            }
        }
    }
    let mut definitely = false;
    for a in args {
        for b in args {
            if a.unit.is_empty() || b.unit.is_empty() {
                continue;
            }
            if let (Some(x), Some(y)) = (css_type(&a.unit), css_type(&b.unit)) {
                if x != y {
                    definitely = true;
                }
            }
        }
    }
    Situation {
        has_nan: args.iter().any(|a| a.v().is_nan()),
        has_unitless: args.iter().any(|a| a.unit.is_empty()),
        units,
        classes,
        definitely_incompatible: definitely,
    }
}

/// Base value of an argument when all unit-bearing arguments are mutually
/// convertible: in the base unit of the class; unitless numbers adopt it.
fn base(a: &Arg) -> f64 {
    if a.unit.is_empty() {
        a.v()
    } else {
        a.v() * factor(&a.unit)
    }
}

fn weak(args: &[Arg], e: &mut Exp) {
    for a in args {
        e.nums.push((a.v(), a.unit.clone()));
    }
}

fn extreme_model(f: &str, form: &str, args: &[Arg]) -> Exp {
    let s = situation(args);
    let less = f == "min";
    let mut e = Exp::default();
    if s.classes.len() <= 1 {
        // every pair can be compared
        if s.has_unitless && s.units.len() >= 2 {
            // a unitless number adopts the unit of whatever it is compared with:
            // the comparison is not transitive, only "one of the arguments" is decided
            weak(args, &mut e);
            return e;
        }
        // unitless arguments adopt the single unit present
        let scale = |a: &Arg| -> f64 {
            if a.unit.is_empty() {
                match s.units.first() {
                    Some(u) => a.v() * factor(u),
                    None => a.v(),
                }
            } else {
                base(a)
            }
        };
        if s.has_nan {
            // IEEE/CSS: NaN wins; the Sass reference implementation keeps a leading
            // NaN and skips a later one
            for a in args {
                e.nums.push((f64::NAN, a.unit.clone()));
            }
        }
        let vals: Vec<f64> = args.iter().map(scale).collect();
        let finite: Vec<f64> = vals.iter().cloned().filter(|v| !v.is_nan()).collect();
        if finite.is_empty() {
            return e;
        }
        let m = if less {
            finite.iter().cloned().fold(f64::INFINITY, f64::min)
        } else {
            finite.iter().cloned().fold(f64::NEG_INFINITY, f64::max)
        };
        for (a, v) in args.iter().zip(&vals) {
            if !v.is_nan() && fuzzy_eq(*v, m) {
                e.nums.push((a.v(), a.unit.clone()));
                // the same quantity expressed in the unit of another argument
                for u in &s.units {
                    let from = if a.unit.is_empty() {
                        s.units.first().cloned().unwrap_or_default()
                    } else {
                        a.unit.clone()
                    };
                    if let Some(c) = convert(a.v(), &from, u) {
                        e.nums.push((c, u.clone()));
                    }
                }
            }
        }
        return e;
    }
    // at least two units that cannot be converted into each other
    if s.has_unitless {
        // which pairs get compared depends on the order: error, one argument, or
        // (global form) the unevaluated calculation
        e.err = true;
        weak(args, &mut e);
        if form == "global" {
            e.texts.push(deferred_text(f, args));
        }
        return e;
    }
    if form == "math" || s.definitely_incompatible {
        return Exp::error();
    }
    // global form, relation unknown until the browser resolves % / em
    e.texts.push(deferred_text(f, args));
    e
}

fn clamp_model(form: &str, args: &[Arg]) -> Exp {
    let s = situation(args);
    let mut e = Exp::default();
    let all_unitless = s.units.is_empty();
    let all_units = !s.has_unitless;
    if s.classes.len() <= 1 && (all_unitless || all_units) {
        let vals: Vec<f64> = args.iter().map(base).collect();
        if s.has_nan {
            for a in args {
                e.nums.push((f64::NAN, a.unit.clone()));
            }
            weak(args, &mut e);
            return e;
        }
        let (mn, x, mx) = (vals[0], vals[1], vals[2]);
        // Sass reference: min >= max -> min; min >= number -> min; number >= max -> max
        let r = if mn >= mx || mn >= x {
            mn
        } else if x >= mx {
            mx
        } else {
            x
        };
        for (a, v) in args.iter().zip(&vals) {
            if fuzzy_eq(*v, r) {
                e.nums.push((a.v(), a.unit.clone()));
                for u in &s.units {
                    if let Some(c) = convert(a.v(), &a.unit, u) {
                        e.nums.push((c, u.clone()));
                    }
                }
            }
        }
        return e;
    }
    if form == "math" {
        return Exp::error();
    }
    if s.has_unitless {
        // dart-sass: a unitless number next to a unit is an error; next to % the
        // implementations differ in what they can know: accept both
        e.err = true;
        if !clamp_definitely_incompatible(args) {
            e.texts.push(deferred_text("clamp", args));
        }
        return e;
    }
    if s.definitely_incompatible {
        return Exp::error();
    }
    e.texts.push(deferred_text("clamp", args));
    e
}

/// Some pair of clamp arguments has known, different CSS types (a unitless
/// number has the type `number`).
fn clamp_definitely_incompatible(args: &[Arg]) -> bool {
    args.iter().any(|a| {
        args.iter().any(|b| {
            matches!((css_type(&a.unit), css_type(&b.unit)), (Some(x), Some(y)) if x != y)
        })
    })
}

/// rsass' global clamp (defect variant): only (min, number) and (min, max)
/// are checked for incompatible types.
fn rsass_global_clamp_defers(args: &[Arg]) -> bool {
    let kd = |a: &Arg| -> Option<&'static str> {
        match class(&a.unit) {
            "pct" => None,
            "none" => Some(""),
            "len" | "em" => Some("length"),
            "angle" => Some("angle"),
            "time" => Some("time"),
            _ => None,
        }
    };
    let (mn, x, mx) = (kd(&args[0]), kd(&args[1]), kd(&args[2]));
    if mn.is_some() && x.is_some() && mn != x {
        return false;
    }
    if mn.is_some() && mx.is_some() && mn != mx {
        return false;
    }
    let spec = |a: &Arg| -> Option<&'static str> {
        match class(&a.unit) {
            "pct" => None,
            "none" => Some(""),
            c => Some(c),
        }
    };
    !(spec(&args[0]) == spec(&args[1]) && spec(&args[1]) == spec(&args[2]))
}

// ---------------------------------------------------------------- cases

#[derive(Clone, Debug, Hash, Serialize, Deserialize)]
struct Case {
    f: String,
    /// "math" (module function) or "global"
    form: String,
    args: Vec<Arg>,
}

fn has_global(f: &str) -> bool {
    f != "div"
}

fn soft_unit(u: &str) -> bool {
    matches!(class(u), "pct" | "em")
}

fn expectation(c: &Case) -> Exp {
    let mut e = match (c.f.as_str(), c.args.len()) {
        ("min" | "max", _) => extreme_model(&c.f, &c.form, &c.args),
        ("clamp", 3) => clamp_model(&c.form, &c.args),
        (f, 1) => unary_model(f, &c.args[0]),
        (f, 2) => binary_model(f, &c.args[0], &c.args[1]),
        _ => Exp::default(),
    };
    // The global functions are CSS calculations: with a % or em argument the
    // value may be left to the browser, as the unevaluated call.
    if c.form == "global"
        && !matches!(c.f.as_str(), "min" | "max" | "clamp")
        && c.args.iter().any(|a| soft_unit(&a.unit))
    {
        e.texts.push(deferred_text(&c.f, &c.args));
    }
    e
}

fn check(c: &Case) -> Verdict {
    let expr = call_text(&c.f, &c.form, &c.args);
    let out = rs::eval_expr(PRELUDE, &expr, Fmt::EXPANDED);
    let obs = observe(&out);
    let exp = expectation(c);
    if exp.accepts(&obs) {
        let shown = match &obs {
            Obs::Num(v, u) => disp(*v, u),
            Obs::Text(t) => format!("text:{t}"),
            Obs::Err(_) => "error".to_string(),
            Obs::Panic(_) => "panic".to_string(),
        };
        return Verdict::pass(&shown);
    }
    let detail = format!(
        "{expr}: got {} expected {}",
        match &obs {
            Obs::Num(v, u) => format!("number {}", disp(*v, u)),
            Obs::Text(t) => format!("text {t:?}"),
            Obs::Err(m) => format!("error {m:?}"),
            Obs::Panic(p) => format!("panic {p}"),
        },
        exp.describe()
    );
    if let Obs::Panic(p) = &obs {
        let site = p.split(": ").next().unwrap_or("?");
        let site = site.rsplitn(2, ':').last().unwrap_or(site);
        return Verdict::fail_sig(format!("panic:{site}"), detail);
    }
    // ---- known-defect variants
    if matches!(c.f.as_str(), "min" | "max") {
        let s = situation(&c.args);
        let v = rsass_find_extreme(&c.args, c.f == "min");
        if v == Variant::Deferred && matches!(&obs, Obs::Text(t) if text_eq(t, &deferred_text(&c.f, &c.args))) {
            let sig = if s.has_nan && s.classes.len() <= 1 {
                "minmax-nan-left-unevaluated"
            } else if s.definitely_incompatible {
                "minmax-unevaluated-before-all-arguments-are-checked"
            } else if c.form == "math" {
                "module-minmax-unevaluated-instead-of-error"
            } else {
                ""
            };
            if !sig.is_empty() {
                return Verdict::fail_sig(sig, detail);
            }
        }
    }
    if c.f == "clamp" && c.form == "global" && c.args.len() == 3 {
        if clamp_definitely_incompatible(&c.args)
            && rsass_global_clamp_defers(&c.args)
            && matches!(&obs, Obs::Text(t) if text_eq(t, &deferred_text("clamp", &c.args)))
        {
            return Verdict::fail_sig("global-clamp-number-and-max-not-checked", detail);
        }
    }
    Verdict::fail(detail)
}

// ---------------------------------------------------------------- alphabets

const NUMBERS: &[&str] = &[
    "0",
    "-0.0",
    "0.5",
    "-0.5",
    "1.5",
    "-1.5",
    "2.5",
    "-2.5",
    "0.49999999999999994",
    "1",
    "-1",
    "2",
    "-2",
    "0.1",
    "8",
    "45",
    "90",
    "180",
    "1e-7",
    "-1e-7",
    "1e-300",
    "-1e-300",
    "1000000.5",
    "4503599627370495.5",
    "9007199254740992",
    "1e300",
    "-1e300",
    "inf",
    "-inf",
    "nan",
];

const NUMBERS_QUICK2: &[&str] = &[
    "0", "-0.0", "0.5", "-0.5", "1", "-1", "2", "8", "1e-7", "1e-300", "1e300", "-1e300", "inf",
    "-inf", "nan",
];

const UNITS1: &[&str] = &["", "px", "deg", "%", "rad", "turn", "grad", "em", "in"];

const UNIT_PAIRS: &[(&str, &str)] = &[
    ("", ""),
    ("px", "px"),
    ("px", "in"),
    ("in", "px"),
    ("px", ""),
    ("", "px"),
    ("px", "deg"),
    ("%", "%"),
    ("px", "%"),
    ("deg", "rad"),
    ("px", "em"),
    ("cm", "mm"),
];

fn extreme_tokens(quick: bool) -> Vec<Arg> {
    let mut t = vec![
        arg("1", "px"),
        arg("2", "px"),
        arg("96", "px"),
        arg("1", "in"),
        arg("1", ""),
        arg("1", "deg"),
        arg("1", "%"),
        arg("1", "em"),
        arg("nan", "px"),
        arg("-0.5", "in"),
    ];
    if !quick {
        t.extend([
            arg("2", ""),
            arg("2", "%"),
            arg("0", "px"),
            arg("2.54", "cm"),
            arg("inf", "px"),
            arg("-inf", ""),
            arg("nan", ""),
            arg("1", "rad"),
            arg("1", "s"),
            arg("1e300", "px"),
        ]);
    }
    t
}

fn main() {
    let ck = Check::from_args("C29");
    let quick = ck.quick();
    ck.rule("function x form {math., global} x boundary numbers x unit situations; two-argument functions on all ordered number pairs x unit pairs; min/max on all singles/pairs/triples and clamp on all triples of a value-with-unit alphabet; distinct = distinct (function, form, arguments); outcome = printed value (number at 10 decimals, unit), `error`, or the unevaluated calculation text");
    ck.assume("the Rust std f64 functions (sin, cos, tan, asin, acos, atan, atan2, powf, ln, exp, sqrt, round, ceil, floor) and f64 parsing are the reference for 'the mathematically specified value'; round ties go away from zero (Sass reference implementation); a result is compared after parsing the printed decimal, within half a unit of the 10th decimal plus 8e-16 relative");
    ck.assume("angle conversion deg/grad/turn -> rad may differ by up to 4 ulps; where that slack changes the result by more than 1e-6 (huge angles, poles of tan) only the range of the function is decided");

    // ---- section 1: one-argument functions
    // boundary numbers plus a lattice of ordinary ones: every eighth in [-3, 3]
    // (all rounding situations, exactly representable) and every tenth in [-1, 1]
    let mut numbers1: Vec<String> = NUMBERS.iter().map(|s| s.to_string()).collect();
    for k in -24..=24i32 {
        numbers1.push(format!("{}", f64::from(k) / 8.0));
    }
    for k in -10..=10i32 {
        numbers1.push(format!("{}", f64::from(k) / 10.0));
    }
    numbers1.sort();
    numbers1.dedup();
    let mut cases = Vec::new();
    for f in UNARY {
        for form in ["math", "global"] {
            for n in &numbers1 {
                for u in UNITS1 {
                    cases.push(Case {
                        f: f.to_string(),
                        form: form.to_string(),
                        args: vec![arg(n, u)],
                    });
                }
            }
        }
    }
    ck.run(
        "one-argument",
        "14 functions x 2 forms x (30 boundary numbers + eighths in [-3,3] + tenths in [-1,1]) x 9 units",
        cases.into_iter(),
        check,
    );

    // ---- section 2: two-argument functions
    let mut nums2: Vec<&str> = if quick {
        NUMBERS_QUICK2.to_vec()
    } else {
        NUMBERS.to_vec()
    };
    if !quick {
        nums2.extend(["0.25", "-0.25", "0.75", "3", "-3", "10", "0.001", "1.0000000000000002"]);
    }
    let mut cases = Vec::new();
    for f in BINARY {
        for form in ["math", "global"] {
            if form == "global" && !has_global(f) {
                continue;
            }
            for (ua, ub) in UNIT_PAIRS {
                for a in &nums2 {
                    for b in &nums2 {
                        cases.push(Case {
                            f: f.to_string(),
                            form: form.to_string(),
                            args: vec![arg(a, ua), arg(b, ub)],
                        });
                    }
                }
            }
        }
    }
    ck.run(
        "two-argument",
        if quick {
            "div pow log atan2 x forms x 15^2 number pairs x 12 unit pairs"
        } else {
            "div pow log atan2 x forms x 38^2 number pairs x 12 unit pairs"
        },
        cases.into_iter(),
        check,
    );

    // ---- section 3: min / max / clamp
    let toks = extreme_tokens(quick);
    let n = toks.len();
    let mut cases = Vec::new();
    for len in 1..=3usize {
        for idx in vp::gen::seqs(n, len) {
            let args: Vec<Arg> = idx.iter().map(|i| toks[*i].clone()).collect();
            for form in ["math", "global"] {
                for f in ["min", "max", "clamp"] {
                    if f == "clamp" && len != 3 {
                        continue;
                    }
                    cases.push(Case {
                        f: f.to_string(),
                        form: form.to_string(),
                        args: args.clone(),
                    });
                }
            }
        }
    }
    ck.run(
        "min-max-clamp",
        if quick {
            "all 1..3-tuples of 10 values-with-units x {min,max,clamp} x forms"
        } else {
            "all 1..3-tuples of 20 values-with-units x {min,max,clamp} x forms"
        },
        cases.into_iter(),
        check,
    );

    // ---- section 4: min / max of four arguments (order dependence)
    if !quick {
        let toks = extreme_tokens(true);
        let n = toks.len();
        let cases = vp::gen::seqs(n, 4).flat_map(move |idx| {
            let args: Vec<Arg> = idx.iter().map(|i| toks[*i].clone()).collect();
            let mut v = Vec::with_capacity(4);
            for form in ["math", "global"] {
                for f in ["min", "max"] {
                    v.push(Case {
                        f: f.to_string(),
                        form: form.to_string(),
                        args: args.clone(),
                    });
                }
            }
            v
        });
        ck.run(
            "min-max-4",
            "all 4-tuples of 10 values-with-units x {min,max} x forms",
            cases,
            check,
        );
    }

    ck.finish()
}
