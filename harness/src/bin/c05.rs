//! C05 Compilation is deterministic and isolated.
//!
//! * histories (E2): every sequence of length <= L over an alphabet of
//!   observer / mutator-attempt programs runs in a fresh subprocess; oracle:
//!   the i-th result is byte-identical to that program compiled alone in a
//!   fresh process.
//! * schedules (E3): two/three real threads compiling programs of a
//!   sub-alphabet under the controlled scheduler, every interleaving of the
//!   real lock / lazy-init operations up to a preemption bound, warm and cold;
//!   oracle: each compilation's bytes equal its sequential reference.
//! * corpus history (thorough; a *sample of histories*): the whole spec corpus
//!   compiled in one process, forward and in VERIF_SEED order, compared with
//!   per-input fresh-process references.

use rayon::prelude::*;
use serde::{Deserialize, Serialize};
use serde_json::{json, Value};
use std::collections::{BTreeMap, BTreeSet};
use std::time::Instant;
use vp::report::{Check, Verdict};
use vp::rs::{self, Fmt, Out};
use vp::sched::{self, job, job::Job};
use vp::worker;

#[derive(Clone, Debug, Hash, PartialEq, Eq, Serialize, Deserialize)]
struct Prog {
    name: String,
    files: Vec<(String, String)>,
    src: String,
    compressed: bool,
    precision: usize,
}

fn run_prog(p: &Prog) -> Out {
    let files: Vec<(&str, &str)> = p.files.iter().map(|(a, b)| (a.as_str(), b.as_str())).collect();
    rs::compile_files(&files, "-", p.src.as_bytes(), Fmt::new(p.compressed, p.precision))
}

fn worker_handler(req: &Value) -> Value {
    if !req["job"].is_null() {
        return match serde_json::from_value::<Job>(req["job"].clone()) {
            Ok(j) => serde_json::to_value(job::run(&j)).unwrap_or(Value::Null),
            Err(e) => json!({"worker_error": e.to_string()}),
        };
    }
    match serde_json::from_value::<Vec<Prog>>(req["history"].clone()) {
        Ok(h) => {
            let outs: Vec<Out> = h.iter().map(run_prog).collect();
            json!({"outs": outs})
        }
        Err(e) => json!({"worker_error": e.to_string()}),
    }
}

const USE_ALL: &str = "@use \"sass:math\";@use \"sass:list\";@use \"sass:map\";@use \"sass:string\";@use \"sass:meta\";@use \"sass:color\";@use \"sass:selector\";";

fn alphabet() -> Vec<Prog> {
    let p = |name: &str, src: &str| Prog {
        name: name.into(),
        files: vec![],
        src: src.into(),
        compressed: false,
        precision: 10,
    };
    let obs_vars = "@use \"sass:math\";a{pi:math.$pi;e:math.$e;eps:math.$epsilon;max:math.$max-safe-integer;min:math.$min-safe-integer;maxn:math.$max-number;minn:math.$min-number}";
    let obs_funcs = format!("{USE_ALL}a{{a:math.abs(-1.5);b:list.nth(1 2,2);c:map.get((k:v),k);d:string.length(\"abc\");e:meta.type-of(1);f:color.red(#102030);g:selector.nest(\"a\",\"b\");h:math.div(1,3);i:meta.inspect(meta.module-variables(\"math\"))}}");
    let lib = ("lib.scss".to_string(), "$c: 1 !default;$n: 0;@mixin bump{$n: $n + 1 !global}lib{c:$c}".to_string());
    let mut v = vec![
        p("observe-vars", obs_vars),
        p("observe-module-funcs", &obs_funcs),
        p("observe-global-funcs", "a{b:percentage(.5);c:nth(1 2 3,2);d:str-length(\"ab\");e:map-get((k:1),k);f:red(#123);g:type-of(null);h:if(true,1,2);i:function-exists(\"percentage\");j:global-variable-exists(\"pi\")}"),
        p("assign-builtin-var", "@use \"sass:math\";math.$pi: 3;a{b:math.$pi}"),
        p("assign-builtin-var-aliased", "@use \"sass:math\" as m;m.$pi: 3;m.$e: 2 !default;a{b:m.$pi m.$e}"),
        p("configure-builtin", "@use \"sass:math\" with ($pi: 3);a{b:math.$pi}"),
        p("forward-configure-builtin", "@forward \"sass:math\" with ($pi: 3);a{b:1}"),
        p("load-css-builtin-with", "@use \"sass:meta\";a{@include meta.load-css(\"sass:math\", $with: (pi: 3))}"),
        p("star-import-then-global-assign", "@use \"sass:math\" as *;$pi: 3 !global;$e: 4;a{b:$pi;c:$e}"),
        p("redefine-percentage", "@function percentage($x){@return 42}@function abs($x){@return 43}a{b:percentage(.5);c:abs(-1)}"),
        p("shadow-builtin-mixin-and-module-fn", "@use \"sass:math\";@mixin load-css($x){z:$x}@function math-abs($x){@return 0}a{@include load-css(1);b:math.abs(-2)}"),
        p("deprecation-triggers", "@use \"sass:meta\";a{b:call(\"abs\",-1);c:hsl(10px,50%,50%);d:hsl(10,50,50);e:meta.call(\"percentage\",.1)}"),
        p("failing-parse", "a{b:(1+}"),
        p("failing-error", "@use \"sass:math\";a{@error math.$pi}"),
        p("define-global-named-like-builtin", "$pi: 9;$epsilon: 8;@mixin abs{m:1}a{b:$pi $epsilon;@include abs}"),
    ];
    v.push(Prog {
        name: "observe-module-funcs-compressed-p3".into(),
        files: vec![],
        src: obs_funcs.clone(),
        compressed: true,
        precision: 3,
    });
    v.push(Prog {
        name: "assign-builtin-var-through-forwarding-module".into(),
        files: vec![("fwd.scss".to_string(), "@forward \"sass:math\";".to_string())],
        src: "@use \"fwd\";fwd.$pi: 3;a{b:fwd.$pi}".into(),
        compressed: false,
        precision: 10,
    });
    v.push(Prog {
        name: "user-module-configured".into(),
        files: vec![lib.clone()],
        src: "@use \"lib\" with ($c: 2);@include lib.bump;a{c:lib.$c;n:lib.$n}".into(),
        compressed: false,
        precision: 10,
    });
    v.push(Prog {
        name: "user-module-default".into(),
        files: vec![lib],
        src: "@use \"lib\";a{c:lib.$c;n:lib.$n}".into(),
        compressed: false,
        precision: 10,
    });
    v
}

#[derive(Clone, Debug, Hash, Serialize, Deserialize)]
struct History {
    /// indices into the alphabet
    progs: Vec<usize>,
}

fn fresh_history(h: &[Prog]) -> Result<Vec<Out>, String> {
    match worker::call_fresh(&json!({"history": h})) {
        worker::Reply::Ok(v) => serde_json::from_value::<Vec<Out>>(v["outs"].clone())
            .map_err(|e| format!("bad worker reply: {e}: {v}")),
        worker::Reply::Died(s) => Err(format!("worker process died: {s}")),
    }
}

// ---------------------------------------------------------------------------
// schedules
// ---------------------------------------------------------------------------

#[derive(Clone, Debug, Hash, Serialize, Deserialize)]
struct SchedCase {
    /// per thread: alphabet indices of the programs it compiles in order
    threads: Vec<Vec<usize>>,
    mode: String,
    choices: Vec<usize>,
}

fn sched_alphabet(alpha: &[Prog]) -> Vec<usize> {
    // no-file programs that touch process-wide state in different ways
    let names = [
        "observe-vars",
        "observe-module-funcs",
        "assign-builtin-var",
        "assign-builtin-var-aliased",
        "configure-builtin",
        "star-import-then-global-assign",
        "redefine-percentage",
        "deprecation-triggers",
    ];
    names
        .iter()
        .filter_map(|n| alpha.iter().position(|p| p.name == *n))
        .collect()
}

fn job_for(alpha: &[Prog], threads: &[Vec<usize>]) -> Job {
    Job {
        programs: threads
            .iter()
            .map(|t| t.iter().map(|i| alpha[*i].src.clone()).collect())
            .collect(),
        compressed: false,
        precision: 10,
        prewarm: vec![],
        prefix: vec![],
        expect: vec![],
    }
}

fn judge_outputs(
    alpha: &[Prog],
    refs: &BTreeMap<usize, Out>,
    threads: &[Vec<usize>],
    outputs: &[Vec<Out>],
) -> Result<(), String> {
    for (t, progs) in threads.iter().enumerate() {
        let outs = outputs.get(t).cloned().unwrap_or_default();
        if outs.len() != progs.len() {
            return Err(format!("thread {t}: {} results for {} compilations", outs.len(), progs.len()));
        }
        for (k, pi) in progs.iter().enumerate() {
            if Some(&outs[k]) != refs.get(pi) {
                return Err(format!(
                    "thread {t} compilation {k} ({}) differs from its sequential reference: got {} expected {}",
                    alpha[*pi].name,
                    outs[k].short(),
                    refs.get(pi).map(Out::short).unwrap_or_default()
                ));
            }
        }
    }
    Ok(())
}

struct SchedTotals {
    schedules: u64,
    configs: u64,
    max_points: usize,
    skipped: u64,
    late: u64,
    completed_min: usize,
    cap_hit: bool,
    samples: Vec<Value>,
    lens: BTreeSet<usize>,
}

fn explore_warm_config(
    ck: &Check,
    alpha: &[Prog],
    refs: &BTreeMap<usize, Out>,
    threads: &[Vec<usize>],
    bound: usize,
    cap: u64,
    tot: &mut SchedTotals,
) -> bool {
    let section = "schedules-warm";
    let jobt = job_for(alpha, threads);
    let make = || job::bodies(&jobt);
    let mut shared = match sched::discover_shared(&make, threads.len()) {
        Ok(s) => s,
        Err(e) => {
            ck.machinery_error(format!("{section}: discovery: {e}"));
            return false;
        }
    };
    let mut ok = true;
    let mut completed = 0;
    for b in 0..=bound {
        let mut st = sched::ExploreStats::default();
        let mut check = |ex: &sched::Execution<Vec<Out>>| -> bool {
            let outputs: Vec<Vec<Out>> = ex.results.iter().map(|r| r.clone().unwrap_or_default()).collect();
            let case = SchedCase { threads: threads.to_vec(), mode: "warm".into(), choices: ex.choices.clone() };
            if let Some(d) = &ex.trace.deadlock {
                ck.report_fail(section, &case, &format!("deadlock: {d}"), None);
                return false;
            }
            tot.lens.insert(ex.choices.len());
            if tot.samples.len() < 3 && ex.preemptions > 0 {
                tot.samples.push(json!({"threads": threads.iter().map(|t| t.iter().map(|i| alpha[*i].name.clone()).collect::<Vec<_>>()).collect::<Vec<_>>(),
                    "choices": ex.choices, "preemptions": ex.preemptions}));
            }
            match judge_outputs(alpha, refs, threads, &outputs) {
                Ok(()) => true,
                Err(e) => {
                    ck.report_fail(section, &case, &e, None);
                    false
                }
            }
        };
        match sched::explore(&make, b, cap, &mut shared, &mut st, &mut check) {
            Ok(true) => {}
            Ok(false) => ok = false,
            Err(e) => {
                ck.machinery_error(format!("{section}: {e}"));
                return false;
            }
        }
        tot.schedules += st.schedules;
        tot.max_points = tot.max_points.max(st.max_points);
        tot.skipped += st.branch_points_skipped_private;
        tot.late += st.late_shared;
        if !ok {
            break;
        }
        if st.cap_hit {
            tot.cap_hit = true;
            break;
        }
        completed = b;
    }
    tot.configs += 1;
    tot.completed_min = tot.completed_min.min(completed);
    ok
}

fn explore_cold_config(
    ck: &Check,
    alpha: &[Prog],
    refs: &BTreeMap<usize, Out>,
    threads: &[Vec<usize>],
    bound: usize,
    cap: u64,
    tot: &mut SchedTotals,
) -> bool {
    let section = "schedules-cold";
    let jobt = job_for(alpha, threads);
    let mut frontier: Vec<(Vec<usize>, Vec<(Vec<usize>, Option<usize>)>, usize)> = vec![(vec![], vec![], 0)];
    let mut done = 0u64;
    while !frontier.is_empty() {
        if done + frontier.len() as u64 > cap {
            tot.cap_hit = true;
            frontier.truncate(cap.saturating_sub(done) as usize);
            if frontier.is_empty() {
                break;
            }
        }
        let results: Vec<(usize, Result<job::JobResult, String>)> = ck.install(|| {
            frontier
                .par_iter()
                .enumerate()
                .map(|(i, (prefix, expect, _))| {
                    let mut j = jobt.clone();
                    j.prefix = prefix.clone();
                    j.expect = expect.clone();
                    let r = match worker::call_fresh(&json!({"job": j})) {
                        worker::Reply::Ok(v) => serde_json::from_value::<job::JobResult>(v)
                            .map_err(|e| format!("bad worker reply: {e}")),
                        worker::Reply::Died(s) => Err(format!("worker died: {s}")),
                    };
                    (i, r)
                })
                .collect()
        });
        let mut next = Vec::new();
        for (i, r) in results {
            done += 1;
            tot.schedules += 1;
            vp::report::EXECS.fetch_add(threads.iter().map(Vec::len).sum::<usize>() as u64, std::sync::atomic::Ordering::Relaxed);
            let (prefix, _, used) = &frontier[i];
            let case = |choices: &[usize]| SchedCase { threads: threads.to_vec(), mode: "cold".into(), choices: choices.to_vec() };
            let res = match r {
                Ok(r) => r,
                Err(e) => {
                    ck.report_fail(section, &case(prefix), &e, None);
                    return false;
                }
            };
            if let Some(d) = &res.divergence {
                ck.machinery_error(format!("{section}: divergence under {prefix:?}: {d}"));
                return false;
            }
            let choices: Vec<usize> = res.points.iter().map(|p| p.chosen).collect();
            if let Some(d) = &res.deadlock {
                ck.report_fail(section, &case(&choices), &format!("deadlock: {d}"), None);
                return false;
            }
            tot.max_points = tot.max_points.max(res.points.len());
            tot.lens.insert(choices.len());
            if let Err(e) = judge_outputs(alpha, refs, threads, &res.outputs) {
                ck.report_fail(section, &case(&choices), &e, None);
                return false;
            }
            let mut pre = *used;
            for k in prefix.len()..res.points.len() {
                let p = &res.points[k];
                let cost = if p.running.is_some() { 1 } else { 0 };
                if pre + cost <= bound && (p.running.is_none() || p.shared) {
                    for alt in 1..p.enabled.len() {
                        let mut c = choices[..k].to_vec();
                        c.push(alt);
                        let e: Vec<(Vec<usize>, Option<usize>)> =
                            res.points[..=k].iter().map(|p| (p.enabled.clone(), p.running)).collect();
                        next.push((c, e, pre + cost));
                    }
                } else if p.running.is_some() && !p.shared {
                    tot.skipped += 1;
                }
                if p.running.is_some() && p.chosen != 0 {
                    pre += 1;
                }
            }
        }
        frontier = next;
    }
    tot.configs += 1;
    true
}

fn replay_sched(ck: &Check, alpha: &[Prog], refs: &BTreeMap<usize, Out>) {
    for section in ["schedules-warm", "schedules-cold"] {
        let Some(case) = ck.replay_case(section) else { continue };
        let c: SchedCase = match serde_json::from_value(case) {
            Ok(c) => c,
            Err(e) => {
                ck.machinery_error(format!("bad replay case: {e}"));
                return;
            }
        };
        let mut j = job_for(alpha, &c.threads);
        j.prefix = c.choices.clone();
        let run_once = || -> Result<job::JobResult, String> {
            if c.mode == "warm" {
                Ok(job::run(&j))
            } else {
                match worker::call_fresh(&json!({"job": j})) {
                    worker::Reply::Ok(v) => serde_json::from_value(v).map_err(|e| e.to_string()),
                    worker::Reply::Died(s) => Err(format!("worker died: {s}")),
                }
            }
        };
        let verdict = |r: &Result<job::JobResult, String>| -> (bool, String) {
            match r {
                Err(e) => (true, e.clone()),
                Ok(r) => {
                    if let Some(d) = &r.divergence {
                        return (true, format!("DIVERGENCE {d}"));
                    }
                    if let Some(d) = &r.deadlock {
                        return (true, format!("deadlock {d}"));
                    }
                    match judge_outputs(alpha, refs, &c.threads, &r.outputs) {
                        Ok(()) => (false, "outputs equal sequential references".into()),
                        Err(e) => (true, e),
                    }
                }
            }
        };
        let a = verdict(&run_once());
        let b = verdict(&run_once());
        if a != b {
            ck.machinery_error(format!("schedule replay not deterministic: {a:?} vs {b:?}"));
            return;
        }
        ck.set_replay_result(a.0, &format!("section={section} {} {}", if a.0 { "FAIL" } else { "PASS" }, a.1));
    }
}

fn unmodelled_sync_inventory() -> Value {
    // source inventory of synchronisation / process-wide state outside the wrapped imports
    let root = vp::corpus::repo_dir().join("rsass/src");
    let mut hits = Vec::new();
    fn walk(d: &std::path::Path, out: &mut Vec<std::path::PathBuf>) {
        if let Ok(rd) = std::fs::read_dir(d) {
            let mut es: Vec<_> = rd.filter_map(Result::ok).map(|e| e.path()).collect();
            es.sort();
            for p in es {
                if p.is_dir() {
                    walk(&p, out)
                } else if p.extension().and_then(|e| e.to_str()) == Some("rs") {
                    out.push(p)
                }
            }
        }
    }
    let mut files = Vec::new();
    walk(&root, &mut files);
    for f in files {
        if f.ends_with("verif.rs") {
            continue;
        }
        let Ok(text) = std::fs::read_to_string(&f) else { continue };
        for (n, line) in text.lines().enumerate() {
            let l = line.trim_start();
            if l.starts_with("//") {
                continue;
            }
            let interesting = ["static mut", "thread_local!", "Atomic", "OnceLock", "OnceCell", "RwLock", "ArcSwap", "Once::new", "Condvar", "std::env::", "SystemTime", "Instant::", "HashMap", "HashSet"]
                .iter()
                .any(|k| l.contains(k))
                || (l.starts_with("static ") || l.contains(" static ")) && l.contains(':') && !l.contains("&'static") ;
            if interesting {
                hits.push(format!("{}:{}: {}", f.strip_prefix(&root).unwrap_or(&f).display(), n + 1, l.chars().take(100).collect::<String>()));
            }
        }
    }
    json!(hits)
}

fn builtin_function_names() -> Vec<String> {
    // module functions via meta.module-functions; global names by scanning the
    // sources for candidate identifiers and asking function-exists().
    let mut names: Vec<String> = Vec::new();
    for m in ["math", "list", "map", "string", "meta", "color", "selector"] {
        let src = format!(
            "@use \"sass:meta\";@use \"sass:map\";@use \"sass:{m}\" as mm;a{{b:meta.inspect(map.keys(meta.module-functions(\"mm\")))}}"
        );
        if let Out::Css(css) = rs::compile(src.as_bytes(), Fmt::EXPANDED) {
            for t in vp::css::tokenize(&css) {
                if let vp::css::Tok::Str(n) = t {
                    names.push(format!("{m}.{n}"));
                }
            }
        }
    }
    let mut cands: std::collections::BTreeSet<String> = std::collections::BTreeSet::new();
    for n in &names {
        if let Some((_, f)) = n.split_once('.') {
            cands.insert(f.to_string());
        }
    }
    // identifiers in the function sources
    let root = vp::corpus::repo_dir().join("rsass/src/sass/functions");
    fn walk(d: &std::path::Path, out: &mut Vec<std::path::PathBuf>) {
        if let Ok(rd) = std::fs::read_dir(d) {
            let mut es: Vec<_> = rd.filter_map(Result::ok).map(|e| e.path()).collect();
            es.sort();
            for p in es {
                if p.is_dir() {
                    walk(&p, out)
                } else {
                    out.push(p)
                }
            }
        }
    }
    let mut files = Vec::new();
    walk(&root, &mut files);
    for f in files {
        if let Ok(text) = std::fs::read_to_string(&f) {
            let mut cur = String::new();
            for ch in text.chars().chain(std::iter::once(' ')) {
                if ch.is_ascii_alphanumeric() || ch == '_' || ch == '-' {
                    cur.push(ch);
                } else {
                    if cur.len() >= 2 && cur.len() <= 30 && cur.chars().next().is_some_and(|c| c.is_ascii_lowercase()) {
                        cands.insert(cur.replace('_', "-"));
                    }
                    cur.clear();
                }
            }
        }
    }
    let cands: Vec<String> = cands.into_iter().collect();
    for chunk in cands.chunks(50) {
        let mut src = String::from("a{");
        for (i, c) in chunk.iter().enumerate() {
            src.push_str(&format!("p{i}:function-exists(\"{c}\");"));
        }
        src.push('}');
        if let Out::Css(css) = rs::compile(src.as_bytes(), Fmt::COMPRESSED) {
            for n in vp::css::parse(&css) {
                if let vp::css::Node::Rule { body, .. } = n {
                    for d in body {
                        if let vp::css::Node::Decl { name, value } = d {
                            if vp::css::toks_text(&value) == "true" {
                                if let Ok(i) = name[1..].parse::<usize>() {
                                    names.push(chunk[i].clone());
                                }
                            }
                        }
                    }
                }
            }
        }
    }
    names.sort();
    names.dedup();
    names
}

fn main() {
    worker::serve_if_worker(worker_handler);
    let ck = Check::from_args("C05");
    ck.rule("histories: every sequence of length <= L over the program alphabet, each in a fresh process, i-th result vs the program alone in a fresh process; schedules: all ordered pairs (triples) of a sub-alphabet on real threads under the controlled scheduler, preemption bounds iterated; distinct = distinct histories / schedules (choice lists); outcome = (history, results) resp. number of scheduling points");
    ck.assume("stderr (@debug, @warn, deprecation Once statics) is not part of the observation");
    ck.assume("synchronisation that does not go through the cfg-swapped std::sync::{Mutex,LazyLock} imports is invisible to the scheduler; see coverage.unmodelled_sync for a source inventory");
    ck.assume("operations on objects touched by a single thread commute with the other threads' operations (private-point reduction)");
    let alpha = alphabet();
    ck.note("alphabet", json!(alpha.iter().map(|p| p.name.clone()).collect::<Vec<_>>()));
    ck.note("unmodelled_sync", unmodelled_sync_inventory());

    // references: each program alone in a fresh process (twice: the reference itself must be stable)
    let refs: Vec<Result<Out, String>> = ck.install(|| {
        alpha
            .par_iter()
            .map(|p| {
                let a = fresh_history(std::slice::from_ref(p))?;
                let b = fresh_history(std::slice::from_ref(p))?;
                if a != b {
                    return Err(format!("{}: two fresh processes disagree: {} vs {}", p.name, a[0].short(), b[0].short()));
                }
                a.into_iter().next().ok_or_else(|| "no output".to_string())
            })
            .collect()
    });
    let mut refmap: BTreeMap<usize, Out> = BTreeMap::new();
    for (i, r) in refs.iter().enumerate() {
        match r {
            Ok(o) => {
                refmap.insert(i, o.clone());
            }
            Err(e) => {
                if !ck.is_replay() {
                    ck.report_fail("references", &History { progs: vec![i] }, e, None);
                }
            }
        }
    }
    if refmap.len() != alpha.len() {
        ck.finish();
    }
    if std::env::var_os("VP_SHOW_REFS").is_some() {
        for (i, o) in &refmap {
            println!("  ref {:<40} {}", alpha[*i].name, o.short());
        }
    }

    if ck.is_replay() {
        replay_sched(&ck, &alpha, &refmap);
    }

    // ---- histories
    let maxlen = ck.tier.pick(2, 3);
    let n = alpha.len();
    let hists = vp::gen::seqs_range(n, 1, maxlen).map(|v| History { progs: v });
    ck.run(
        "histories",
        &format!("all sequences of length 1..={maxlen} over {n} programs, fresh process each"),
        hists,
        |h: &History| {
            let progs: Vec<Prog> = h.progs.iter().map(|i| alpha[*i].clone()).collect();
            vp::report::EXECS.fetch_add(progs.len() as u64, std::sync::atomic::Ordering::Relaxed);
            match fresh_history(&progs) {
                Err(e) => Verdict::fail(e),
                Ok(outs) => {
                    for (k, pi) in h.progs.iter().enumerate() {
                        if outs.get(k) != refmap.get(pi) {
                            return Verdict::fail(format!(
                                "step {k} ({}) after {:?}: got {} but alone in a fresh process it gives {}",
                                alpha[*pi].name,
                                h.progs[..k].iter().map(|i| alpha[*i].name.as_str()).collect::<Vec<_>>(),
                                outs.get(k).map(Out::short).unwrap_or_default(),
                                refmap[pi].short()
                            ));
                        }
                    }
                    Verdict::pass(&(h.progs.clone(), outs))
                }
            }
        },
    );

    // ---- repeat: every built-in function on tricky arguments, compiled several times in
    // this process (same thread and another thread): all results must be identical.
    // (targets per-call nondeterminism such as hash-map iteration order leaking into a result)
    {
        #[derive(Clone, Debug, Hash, Serialize, Deserialize)]
        struct Rep {
            src: String,
        }
        let names = builtin_function_names();
        let vals: &[&str] = &[
            "1px*1s", "1in*1ms", "math.div(1px,1s)", "1px*1s*1deg", "(a:1,b:2,c:3)", "(c:3,a:1,b:2)", "(a b c)", "1px", "#123",
            "\"s\"", "null", "2", "(1px*1s 1in*1ms)",
        ];
        let max_ar = ck.tier.pick(2, 3);
        let mut cases: Vec<Rep> = Vec::new();
        for f in &names {
            if f.contains("unique-id") || f.contains("random") {
                continue;
            }
            for ar in 0..=max_ar {
                let pool: Vec<&str> = if ar == 3 { vals.iter().copied().take(6).collect() } else { vals.to_vec() };
                for t in vp::gen::seqs(pool.len(), ar) {
                    let a: Vec<&str> = t.iter().map(|i| pool[*i]).collect();
                    cases.push(Rep { src: format!("{USE_ALL}a{{b:meta.inspect({f}({}))}}", a.join(", ")) });
                }
            }
        }
        let reps = ck.tier.pick(2usize, 4usize);
        ck.run(
            "repeat-builtins",
            &format!("{} built-in functions x all argument tuples of arity <= {max_ar} over {} values (multi-dimension units, maps in two orders, lists): {} compilations on this thread + 1 on another thread must agree", names.len(), vals.len(), reps + 1),
            cases.into_iter(),
            |c: &Rep| {
                let first = rs::compile(c.src.as_bytes(), Fmt::EXPANDED);
                for k in 0..reps {
                    let again = rs::compile(c.src.as_bytes(), Fmt::EXPANDED);
                    if again != first {
                        return Verdict::fail(format!("compilation {} of the same input in the same thread differs: {} vs {}", k + 2, again.short(), first.short()));
                    }
                }
                let src = c.src.clone();
                let other = std::thread::spawn(move || rs::compile(src.as_bytes(), Fmt::EXPANDED)).join();
                match other {
                    Ok(o) if o == first => Verdict::pass(&first),
                    Ok(o) => Verdict::fail(format!("another thread gives {} but this thread {}", o.short(), first.short())),
                    Err(_) => Verdict::fail("thread panicked"),
                }
            },
        );
    }

    // ---- schedules
    if !ck.is_replay() {
        let sa = sched_alphabet(&alpha);
        let t0 = Instant::now();
        let e0 = vp::report::EXECS.load(std::sync::atomic::Ordering::Relaxed);
        // warm the process (all lazies) outside the scheduler
        for i in &sa {
            let _ = run_prog(&alpha[*i]);
        }
        let mut tot = SchedTotals { schedules: 0, configs: 0, max_points: 0, skipped: 0, late: 0, completed_min: usize::MAX, cap_hit: false, samples: vec![], lens: BTreeSet::new() };
        // per-configuration schedule caps keep the thorough tier within ~10 minutes
        let (bound2, bound3, cap) = ck.tier.pick((1usize, 1usize, 20_000u64), (2, 1, 6_000));
        let sa: Vec<usize> = sa.iter().copied().take(ck.tier.pick(4, 7)).collect();
        let mut ok = true;
        'outer: for a in &sa {
            for b in &sa {
                if !explore_warm_config(&ck, &alpha, &refmap, &[vec![*a], vec![*b]], bound2, cap, &mut tot) {
                    ok = false;
                    break 'outer;
                }
            }
        }
        // two compilations per thread, and three threads, on a smaller sub-alphabet
        let small: Vec<usize> = sa.iter().copied().take(ck.tier.pick(2, 3)).collect();
        if ok {
            'o2: for a in &small {
                for b in &small {
                    if !explore_warm_config(&ck, &alpha, &refmap, &[vec![*a, *b], vec![*b, *a]], bound2.min(2), cap, &mut tot) {
                        ok = false;
                        break 'o2;
                    }
                    for c in &small {
                        if !explore_warm_config(&ck, &alpha, &refmap, &[vec![*a], vec![*b], vec![*c]], bound3, cap, &mut tot) {
                            ok = false;
                            break 'o2;
                        }
                    }
                }
            }
        }
        let _ = ok;
        ck.add_section(
            "schedules-warm",
            &format!(
                "{} thread configurations (all ordered pairs of {} programs; 2x2 compilations and 3 threads over {}); preemption bounds 0..={bound2} (2 threads) / 0..={bound3} (3 threads) iterated, smallest completed bound {}; max {} scheduling points per run; {} private points skipped; {} late-shared",
                tot.configs, sa.len(), small.len(), if tot.completed_min == usize::MAX { 0 } else { tot.completed_min }, tot.max_points, tot.skipped, tot.late
            ),
            tot.schedules,
            tot.schedules,
            tot.lens.len() as u64,
            vp::report::EXECS.load(std::sync::atomic::Ordering::Relaxed) - e0,
            tot.samples.clone(),
            tot.cap_hit,
            t0.elapsed().as_secs_f64(),
        );

        // cold: fresh process per schedule
        let t1 = Instant::now();
        let mut totc = SchedTotals { schedules: 0, configs: 0, max_points: 0, skipped: 0, late: 0, completed_min: 0, cap_hit: false, samples: vec![], lens: BTreeSet::new() };
        let cold_bound = 1;
        let cold_cap = ck.tier.pick(400u64, 1_500);
        let cold_alpha: Vec<usize> = sa.iter().copied().take(ck.tier.pick(2, 4)).collect();
        'o3: for a in &cold_alpha {
            for b in &cold_alpha {
                if !explore_cold_config(&ck, &alpha, &refmap, &[vec![*a], vec![*b]], cold_bound, cold_cap, &mut totc) {
                    break 'o3;
                }
            }
        }
        ck.add_section(
            "schedules-cold",
            &format!(
                "fresh process per schedule (first touch of MODULES/FUNCTIONS contended); {} ordered pairs; preemption bound {cold_bound}; max {} scheduling points per run; branching at points on objects touched by >= 2 threads in that run and at all lazy initialisations",
                totc.configs, totc.max_points
            ),
            totc.schedules,
            totc.schedules,
            totc.lens.len() as u64,
            totc.schedules * 2,
            vec![json!({"pairs": cold_alpha.iter().map(|i| alpha[*i].name.clone()).collect::<Vec<_>>()})],
            totc.cap_hit,
            t1.elapsed().as_secs_f64(),
        );
    }

    // ---- corpus histories (sample of histories, thorough only; strided in quick)
    if !ck.is_replay() {
        let corpus = vp::corpus::load();
        let stride = ck.tier.pick(60, 1);
        let inputs: Vec<Prog> = corpus
            .iter()
            .enumerate()
            .filter(|(i, c)| i % stride == 0 && c.kind != "mock" && !c.src.contains("unique-id") && !c.src.contains("random("))
            .map(|(_, c)| Prog {
                name: format!("{}#{}", c.file, c.idx),
                files: c.mocks.clone(),
                src: c.src.clone(),
                compressed: false,
                precision: 10,
            })
            .collect();
        ck.note("corpus_history_is_a_sample", json!("the two long corpus histories are single histories (a sample of the history space), compared input-by-input with fresh-process references"));
        // reference per input: fresh process
        let t0 = Instant::now();
        let refs: Vec<Result<Out, String>> = ck.install(|| {
            inputs
                .par_iter()
                .map(|p| fresh_history(std::slice::from_ref(p)).and_then(|v| v.into_iter().next().ok_or_else(|| "no output".into())))
                .collect()
        });
        let mut orders: Vec<(String, Vec<usize>)> = vec![("forward".into(), (0..inputs.len()).collect())];
        {
            // VERIF_SEED permutation (deterministic LCG shuffle)
            let mut idx: Vec<usize> = (0..inputs.len()).collect();
            let mut s = ck.seed.wrapping_mul(6364136223846793005).wrapping_add(1442695040888963407);
            for i in (1..idx.len()).rev() {
                s = s.wrapping_mul(6364136223846793005).wrapping_add(1442695040888963407);
                let j = (s >> 33) as usize % (i + 1);
                idx.swap(i, j);
            }
            orders.push((format!("seed-{}", ck.seed), idx));
        }
        let mut compared = 0u64;
        let mut died = 0u64;
        for (oname, order) in &orders {
            // one process for the whole history, in chunks to bound the request size
            let hist: Vec<Prog> = order.iter().map(|i| inputs[*i].clone()).collect();
            let outs = worker::call_history(&hist.chunks(200).map(|c| json!({"history": c})).collect::<Vec<_>>());
            let mut flat: Vec<Option<Out>> = Vec::new();
            for (k, rep) in outs.iter().enumerate() {
                let want = hist.chunks(200).nth(k).map(<[Prog]>::len).unwrap_or(0);
                match rep {
                    worker::Reply::Ok(v) => match serde_json::from_value::<Vec<Out>>(v["outs"].clone()) {
                        Ok(o) => flat.extend(o.into_iter().map(Some)),
                        Err(_) => flat.extend(std::iter::repeat_n(None, want)),
                    },
                    worker::Reply::Died(_) => {
                        died += 1;
                        flat.extend(std::iter::repeat_n(None, want));
                    }
                }
            }
            for (pos, i) in order.iter().enumerate() {
                let got = flat.get(pos).cloned().flatten();
                match (&got, &refs[*i]) {
                    (Some(g), Ok(r)) => {
                        compared += 1;
                        if g != r {
                            ck.report_fail(
                                "corpus-history",
                                &json!({"order": oname, "position": pos, "input": inputs[*i].name}),
                                &format!("in the long history got {} but alone in a fresh process {}", g.short(), r.short()),
                                None,
                            );
                        }
                    }
                    _ => {}
                }
            }
        }
        ck.add_section(
            "corpus-history (sample)",
            &format!("{} corpus inputs (stride {stride}) compiled in ONE process, forward and in seed order; each result vs the input alone in a fresh process; {died} worker deaths (stack overflow/abort inside the history are skipped here, they belong to C01)", inputs.len()),
            compared,
            inputs.len() as u64,
            inputs.len() as u64,
            compared + inputs.len() as u64,
            vec![json!({"first_input": inputs.first().map(|p| p.name.clone())})],
            false,
            t0.elapsed().as_secs_f64(),
        );
    }

    ck.finish()
}
