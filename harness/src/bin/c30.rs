//! C30 calc() simplifies soundly.
//!
//! Space: calculation trees over the leaves {1px, 2px, 1in, 50%, 2, 1em,
//! var(--x), foo} with + - * /, parentheses wherever the tree shape needs
//! them, and min()/max()/clamp() nodes; type-directed (sums of like kinds,
//! products with a unitless factor, division by a unitless divisor) so that
//! every tree is a valid CSS calculation; plus all untyped trees of up to two
//! operators.  Each tree is compiled as `calc(<tree>)`, trees whose root is a
//! function also bare (`min(..)`).
//! Oracle (R-calc): the source text and the emitted text are parsed by the
//! small calculation parser in this file (CSS tokenisation rules: `+`/`-` need
//! white space, a unit swallows following name characters) and normalised to
//! a polynomial over opaque atoms (px-class lengths converted to px; %, em,
//! var(), identifiers, unevaluable min/max/clamp are atoms).  All leaves
//! numeric and mutually compatible => the output must be the plain number.
//! Otherwise the normal forms must agree.  Known wrong behaviours are
//! recognised by a model of rsass' own folding + printing with one switch per
//! defect: the signature is given only when the output text is exactly what
//! the model with that switch predicts.

use serde::{Deserialize, Serialize};
use std::collections::BTreeMap;
use vp::report::{Check, Verdict};
use vp::rs::{self, Fmt, Out};

// ---------------------------------------------------------------- trees

#[derive(Clone, Debug, PartialEq)]
enum T {
    Num(f64, String),
    /// var(--x), an identifier, or junk kept as one opaque token
    Atom(String),
    Bin(char, Box<T>, Box<T>),
    Paren(Box<T>),
    Fun(String, Vec<T>),
}

fn prec(op: char) -> u8 {
    match op {
        '+' | '-' => 1,
        _ => 2,
    }
}

// ---------------------------------------------------------------- parser

#[derive(Clone, Debug, PartialEq)]
enum Tok {
    Num(f64, String),
    Ident(String),
    /// name followed by '('
    FunOpen(String),
    /// raw text of a var(...) reference
    Var(String),
    Open,
    Close,
    Comma,
    Op(char),
}

fn is_name_char(c: char) -> bool {
    c.is_ascii_alphanumeric() || c == '_' || c == '-'
}

fn tokenize(s: &str) -> Result<Vec<Tok>, String> {
    let cs: Vec<char> = s.chars().collect();
    let mut i = 0;
    let mut out: Vec<Tok> = Vec::new();
    let mut ws_before = true;
    while i < cs.len() {
        let c = cs[i];
        if c.is_whitespace() {
            ws_before = true;
            i += 1;
            continue;
        }
        let prev_is_value = matches!(
            out.last(),
            Some(Tok::Num(..) | Tok::Ident(_) | Tok::Var(_) | Tok::Close)
        );
        let starts_number = |j: usize| -> bool {
            j < cs.len()
                && (cs[j].is_ascii_digit()
                    || (cs[j] == '.' && j + 1 < cs.len() && cs[j + 1].is_ascii_digit()))
        };
        if c == '+' || c == '-' {
            let ws_after = i + 1 >= cs.len() || cs[i + 1].is_whitespace();
            if prev_is_value {
                if ws_before && ws_after {
                    out.push(Tok::Op(c));
                    i += 1;
                    ws_before = false;
                    continue;
                }
                return Err(format!(
                    "`{c}` after a value without white space on both sides at {i} in {s:?}"
                ));
            }
            // sign of a number, or start of an identifier
            if starts_number(i + 1) {
                // fallthrough to number with sign
            } else if c == '-' && i + 1 < cs.len() && (cs[i + 1].is_ascii_alphabetic() || cs[i + 1] == '-') {
                // identifier starting with '-'
            } else {
                return Err(format!("stray `{c}` at {i} in {s:?}"));
            }
        }
        if c.is_ascii_digit() || c == '.' || ((c == '+' || c == '-') && starts_number(i + 1)) {
            if prev_is_value && !ws_before {
                return Err(format!("number glued to a value at {i} in {s:?}"));
            }
            if prev_is_value {
                return Err(format!("two values without operator at {i} in {s:?}"));
            }
            let st = i;
            if c == '+' || c == '-' {
                i += 1;
            }
            while i < cs.len() && cs[i].is_ascii_digit() {
                i += 1;
            }
            if i < cs.len() && cs[i] == '.' && i + 1 < cs.len() && cs[i + 1].is_ascii_digit() {
                i += 1;
                while i < cs.len() && cs[i].is_ascii_digit() {
                    i += 1;
                }
            }
            // exponent
            if i < cs.len() && (cs[i] == 'e' || cs[i] == 'E') {
                let mut j = i + 1;
                if j < cs.len() && (cs[j] == '+' || cs[j] == '-') {
                    j += 1;
                }
                if j < cs.len() && cs[j].is_ascii_digit() {
                    while j < cs.len() && cs[j].is_ascii_digit() {
                        j += 1;
                    }
                    i = j;
                }
            }
            let text: String = cs[st..i].iter().collect();
            let v: f64 = text
                .parse()
                .map_err(|_| format!("bad number {text:?} in {s:?}"))?;
            // unit: % or name characters (a `-` belongs to the unit: CSS tokenisation)
            let us = i;
            if i < cs.len() && cs[i] == '%' {
                i += 1;
            } else if i < cs.len()
                && (cs[i].is_ascii_alphabetic()
                    || cs[i] == '_'
                    || (cs[i] == '-'
                        && i + 1 < cs.len()
                        && (cs[i + 1].is_ascii_alphabetic() || cs[i + 1] == '-' || cs[i + 1] == '_')))
            {
                while i < cs.len() && is_name_char(cs[i]) {
                    i += 1;
                }
            }
            let unit: String = cs[us..i].iter().collect();
            out.push(Tok::Num(v, unit));
            ws_before = false;
            continue;
        }
        if c.is_ascii_alphabetic() || c == '_' || c == '-' {
            if prev_is_value {
                return Err(format!("two values without operator at {i} in {s:?}"));
            }
            let st = i;
            while i < cs.len() && is_name_char(cs[i]) {
                i += 1;
            }
            let name: String = cs[st..i].iter().collect();
            if i < cs.len() && cs[i] == '(' {
                if name == "var" {
                    let mut depth = 0;
                    let vs = st;
                    while i < cs.len() {
                        if cs[i] == '(' {
                            depth += 1;
                        } else if cs[i] == ')' {
                            depth -= 1;
                            if depth == 0 {
                                i += 1;
                                break;
                            }
                        }
                        i += 1;
                    }
                    out.push(Tok::Var(cs[vs..i].iter().collect()));
                } else {
                    i += 1;
                    out.push(Tok::FunOpen(name));
                }
            } else {
                out.push(Tok::Ident(name));
            }
            ws_before = false;
            continue;
        }
        match c {
            '(' => {
                if prev_is_value {
                    return Err(format!("`(` directly after a value at {i} in {s:?}"));
                }
                out.push(Tok::Open)
            }
            ')' => out.push(Tok::Close),
            ',' => out.push(Tok::Comma),
            '*' | '/' => out.push(Tok::Op(c)),
            _ => return Err(format!("unexpected {c:?} at {i} in {s:?}")),
        }
        i += 1;
        ws_before = false;
    }
    Ok(out)
}

struct P {
    t: Vec<Tok>,
    i: usize,
}

impl P {
    fn peek(&self) -> Option<&Tok> {
        self.t.get(self.i)
    }
    fn sum(&mut self) -> Result<T, String> {
        let mut v = self.prod()?;
        while let Some(Tok::Op(c @ ('+' | '-'))) = self.peek().cloned() {
            self.i += 1;
            let r = self.prod()?;
            v = T::Bin(c, Box::new(v), Box::new(r));
        }
        Ok(v)
    }
    fn prod(&mut self) -> Result<T, String> {
        let mut v = self.unit()?;
        while let Some(Tok::Op(c @ ('*' | '/'))) = self.peek().cloned() {
            self.i += 1;
            let r = self.unit()?;
            v = T::Bin(c, Box::new(v), Box::new(r));
        }
        Ok(v)
    }
    fn unit(&mut self) -> Result<T, String> {
        match self.peek().cloned() {
            Some(Tok::Num(v, u)) => {
                self.i += 1;
                Ok(T::Num(v, u))
            }
            Some(Tok::Ident(s)) | Some(Tok::Var(s)) => {
                self.i += 1;
                Ok(T::Atom(s))
            }
            Some(Tok::Open) => {
                self.i += 1;
                let v = self.sum()?;
                match self.peek() {
                    Some(Tok::Close) => {
                        self.i += 1;
                        Ok(T::Paren(Box::new(v)))
                    }
                    o => Err(format!("expected `)`, found {o:?}")),
                }
            }
            Some(Tok::FunOpen(name)) => {
                self.i += 1;
                let mut args = Vec::new();
                loop {
                    args.push(self.sum()?);
                    match self.peek() {
                        Some(Tok::Comma) => self.i += 1,
                        Some(Tok::Close) => {
                            self.i += 1;
                            break;
                        }
                        o => return Err(format!("expected `,` or `)`, found {o:?}")),
                    }
                }
                if name == "calc" && args.len() == 1 {
                    Ok(T::Paren(Box::new(args.remove(0))))
                } else {
                    Ok(T::Fun(name, args))
                }
            }
            o => Err(format!("expected a value, found {o:?}")),
        }
    }
}

fn parse(s: &str) -> Result<T, String> {
    let t = tokenize(s)?;
    let mut p = P { t, i: 0 };
    let v = p.sum()?;
    if p.i != p.t.len() {
        return Err(format!("trailing tokens {:?} in {s:?}", &p.t[p.i..]));
    }
    Ok(v)
}

// ---------------------------------------------------------------- R-calc: normal form

type Mono = Vec<(String, i32)>;
type Poly = BTreeMap<Mono, f64>;

fn mono_mul(a: &Mono, b: &Mono, sign: i32) -> Mono {
    let mut m: BTreeMap<String, i32> = a.iter().cloned().collect();
    for (k, p) in b {
        *m.entry(k.clone()).or_insert(0) += sign * p;
    }
    m.into_iter().filter(|(_, p)| *p != 0).collect()
}

fn clean(p: Poly) -> Poly {
    p.into_iter().filter(|(_, c)| c.abs() > 1e-9).collect()
}

fn leaf_unit(u: &str) -> (Mono, f64) {
    match u {
        "" => (vec![], 1.0),
        "px" => (vec![("px".into(), 1)], 1.0),
        "in" => (vec![("px".into(), 1)], 96.0),
        "cm" => (vec![("px".into(), 1)], 96.0 / 2.54),
        "%" => (vec![("%".into(), 1)], 1.0),
        "em" => (vec![("em".into(), 1)], 1.0),
        other => (vec![(format!("unit:{other}"), 1)], 1.0),
    }
}

fn canon(p: &Poly) -> String {
    let mut parts = Vec::new();
    for (m, c) in p {
        let ms: Vec<String> = m.iter().map(|(k, e)| format!("{k}^{e}")).collect();
        parts.push(format!("{:.5}[{}]", c, ms.join("*")));
    }
    parts.join("+")
}

fn nf(t: &T) -> Result<Poly, String> {
    Ok(clean(match t {
        T::Num(v, u) => {
            if !v.is_finite() {
                return Err("non-finite".into());
            }
            let (m, f) = leaf_unit(u);
            BTreeMap::from([(m, v * f)])
        }
        T::Atom(s) => {
            if s == "infinity" || s == "NaN" || s == "-infinity" {
                return Err("non-finite".into());
            }
            BTreeMap::from([(vec![(s.clone(), 1)], 1.0)])
        }
        T::Paren(x) => nf(x)?,
        T::Bin(op, a, b) => {
            let (pa, pb) = (nf(a)?, nf(b)?);
            match op {
                '+' | '-' => {
                    let mut r = pa;
                    let s = if *op == '+' { 1.0 } else { -1.0 };
                    for (m, c) in pb {
                        *r.entry(m).or_insert(0.0) += s * c;
                    }
                    r
                }
                '*' => {
                    let mut r: Poly = BTreeMap::new();
                    for (ma, ca) in &pa {
                        for (mb, cb) in &pb {
                            *r.entry(mono_mul(ma, mb, 1)).or_insert(0.0) += ca * cb;
                        }
                    }
                    r
                }
                _ => {
                    if pb.len() != 1 {
                        return Err(if pb.is_empty() {
                            "division by zero".into()
                        } else {
                            "division by a sum".into()
                        });
                    }
                    let (mb, cb) = pb.iter().next().map(|(m, c)| (m.clone(), *c)).unwrap_or_default();
                    let mut r: Poly = BTreeMap::new();
                    for (ma, ca) in &pa {
                        *r.entry(mono_mul(ma, &mb, -1)).or_insert(0.0) += ca / cb;
                    }
                    r
                }
            }
        }
        T::Fun(name, args) => {
            let ps: Vec<Poly> = args.iter().map(nf).collect::<Result<_, _>>()?;
            // evaluable: every argument is a single term over the same monomial
            // (zero counts as any)
            let mut mono: Option<Mono> = None;
            let mut evaluable = matches!(name.as_str(), "min" | "max" | "clamp");
            let mut vals = Vec::new();
            for p in &ps {
                match p.len() {
                    0 => vals.push(0.0),
                    1 => {
                        let (m, c) = p.iter().next().map(|(m, c)| (m.clone(), *c)).unwrap_or_default();
                        if mono.as_ref().is_some_and(|x| *x != m) {
                            evaluable = false;
                        }
                        mono = Some(m);
                        vals.push(c);
                    }
                    _ => evaluable = false,
                }
            }
            if name == "clamp" && args.len() != 3 {
                evaluable = false;
            }
            if evaluable && !vals.is_empty() {
                let v = match name.as_str() {
                    "min" => vals.iter().cloned().fold(f64::INFINITY, f64::min),
                    "max" => vals.iter().cloned().fold(f64::NEG_INFINITY, f64::max),
                    _ => vals[0].max(vals[1].min(vals[2])),
                };
                BTreeMap::from([(mono.unwrap_or_default(), v)])
            } else {
                let key: Vec<String> = ps.iter().map(canon).collect();
                BTreeMap::from([(vec![(format!("{name}({})", key.join(",")), 1)], 1.0)])
            }
        }
    }))
}

fn nf_eq(a: &Poly, b: &Poly) -> bool {
    a.len() == b.len()
        && a.iter().zip(b.iter()).all(|((ma, ca), (mb, cb))| {
            ma == mb && (ca - cb).abs() <= 1e-7 * ca.abs().max(cb.abs()).max(1.0)
        })
}

// ---------------------------------------------------------------- leaves & kinds

fn leaves(t: &T, out: &mut Vec<T>) {
    match t {
        T::Num(..) | T::Atom(_) => out.push(t.clone()),
        T::Paren(x) => leaves(x, out),
        T::Bin(_, a, b) => {
            leaves(a, out);
            leaves(b, out);
        }
        T::Fun(_, args) => args.iter().for_each(|a| leaves(a, out)),
    }
}

/// All leaves are numbers and all units are mutually convertible (unitless
/// numbers only as factors/divisors is guaranteed by the typed generator).
fn all_compatible(t: &T) -> bool {
    let mut ls = Vec::new();
    leaves(t, &mut ls);
    let mut class: Option<String> = None;
    for l in &ls {
        match l {
            T::Num(_, u) => {
                if u.is_empty() {
                    continue;
                }
                let (m, _) = leaf_unit(u);
                let c = m.first().map(|x| x.0.clone()).unwrap_or_default();
                if class.as_ref().is_some_and(|x| *x != c) {
                    return false;
                }
                class = Some(c);
            }
            _ => return false,
        }
    }
    true
}

// ---------------------------------------------------------------- model of rsass' folding and printing

#[derive(Clone, Copy, Debug, Default, PartialEq)]
struct Sw {
    /// the left operand of * and / loses its parentheses
    left_parens: bool,
    /// `+` with an identifier operand concatenates text
    concat: bool,
    /// a / (b / c) loses its parentheses
    div_div: bool,
}

#[derive(Clone, Debug, PartialEq)]
enum V {
    Num(f64, String),
    Lit(String),
    Paren(Box<V>),
    Call(String, Vec<V>),
    Bin(char, Box<V>, Box<V>),
}

fn fmt10(v: f64) -> String {
    if v.abs() >= 1e15 {
        return format!("{v}");
    }
    let mut s = format!("{v:.10}");
    if s.contains('.') {
        while s.ends_with('0') {
            s.pop();
        }
        if s.ends_with('.') {
            s.pop();
        }
    }
    if s == "-0" {
        s = "0".into();
    }
    s
}

fn unit_factor(u: &str) -> Option<(&'static str, f64)> {
    match u {
        "px" => Some(("len", 1.0)),
        "in" => Some(("len", 96.0)),
        "cm" => Some(("len", 96.0 / 2.54)),
        _ => None,
    }
}

fn conv(v: f64, from: &str, to: &str) -> Option<f64> {
    if from == to {
        return Some(v);
    }
    let (ca, fa) = unit_factor(from)?;
    let (cb, fb) = unit_factor(to)?;
    (ca == cb).then_some(v * fa / fb)
}

fn op_rank(op: char) -> u8 {
    match op {
        '+' => 0,
        '-' => 1,
        '*' => 2,
        _ => 3,
    }
}

struct Model {
    sw: Sw,
}

/// a string that reads as var(..)/calc(..) is a calculation operand, not text
fn css_fn(s: &str) -> bool {
    (s.starts_with("var(") || s.starts_with("calc(")) && s.ends_with(')')
}

impl Model {
    fn eval(&self, t: &T) -> Result<V, String> {
        Ok(match t {
            T::Num(v, u) => V::Num(*v, u.clone()),
            T::Atom(s) => V::Lit(s.clone()),
            // parentheses vanish around numbers, operations and plain strings, stay around a
            // string that reads as a css function
            T::Paren(x) => match self.eval(x)? {
                V::Lit(l) if css_fn(&l) => V::Paren(Box::new(V::Lit(l))),
                v => v,
            },
            T::Fun(name, args) => {
                let vs: Vec<V> = args.iter().map(|a| self.eval(a)).collect::<Result<_, _>>()?;
                for v in &vs {
                    if let V::Lit(s) = v {
                        // a string that starts like a number or looks like a call passes as "special"
                        let starts_num = s
                            .trim_start_matches(['+', '-'])
                            .starts_with(|c: char| c.is_ascii_digit() || c == '.');
                        let like_call = s.contains('(') && s.ends_with(')');
                        if !starts_num && !like_call {
                            return Err(format!("{s} is not a number."));
                        }
                    }
                }
                let nums: Option<Vec<(f64, String)>> = vs
                    .iter()
                    .map(|v| match v {
                        V::Num(x, u) => Some((*x, u.clone())),
                        _ => None,
                    })
                    .collect();
                if let Some(nums) = nums {
                    if let Some(r) = fold_fun(name, &nums) {
                        return Ok(V::Num(r.0, r.1));
                    }
                }
                V::Call(name.clone(), vs)
            }
            T::Bin(op, a, b) => {
                let (va, vb) = (self.eval(a)?, self.eval(b)?);
                if let (V::Num(x, ux), V::Num(y, uy)) = (&va, &vb) {
                    match op {
                        '+' | '-' => {
                            let s = if *op == '+' { 1.0 } else { -1.0 };
                            if ux == uy || uy.is_empty() {
                                return Ok(V::Num(x + s * y, ux.clone()));
                            } else if ux.is_empty() {
                                return Ok(V::Num(x + s * y, uy.clone()));
                            } else if let Some(c) = conv(*y, uy, ux) {
                                return Ok(V::Num(x + s * c, ux.clone()));
                            }
                        }
                        '*' => {
                            if uy.is_empty() {
                                return Ok(V::Num(x * y, ux.clone()));
                            } else if ux.is_empty() {
                                return Ok(V::Num(x * y, uy.clone()));
                            }
                            return Err("unit product".into());
                        }
                        _ => {
                            if uy.is_empty() {
                                return Ok(V::Num(x / y, ux.clone()));
                            } else if let Some(c) = conv(*y, uy, ux) {
                                return Ok(V::Num(x / c, String::new()));
                            }
                            return Err("unit quotient".into());
                        }
                    }
                }
                if *op == '+' && self.sw.concat {
                    if let V::Lit(l) = &va {
                        if !css_fn(l) {
                            return Ok(V::Lit(format!("{l}{}", self.print(&vb))));
                        }
                    }
                    if let V::Lit(r) = &vb {
                        if !css_fn(r) {
                            return Ok(V::Lit(format!("{}{r}", self.print(&va))));
                        }
                    }
                }
                V::Bin(*op, Box::new(va), Box::new(vb))
            }
        })
    }

    fn print(&self, v: &V) -> String {
        match v {
            V::Num(x, u) => format!("{}{u}", fmt10(*x)),
            V::Lit(s) => s.clone(),
            V::Paren(v) => format!("({})", self.print(v)),
            V::Call(n, args) => {
                let a: Vec<String> = args.iter().map(|a| self.print(a)).collect();
                format!("{n}({})", a.join(", "))
            }
            V::Bin(op, a, b) => {
                let mut op = *op;
                let mut b = (**b).clone();
                if let V::Num(x, u) = &b {
                    if x.is_sign_negative() && (op == '+' || op == '-') {
                        op = if op == '+' { '-' } else { '+' };
                        b = V::Num(-x, u.clone());
                    }
                }
                let left = match &**a {
                    V::Bin(o2, ..) if !self.sw.left_parens && prec(*o2) < prec(op) => {
                        format!("({})", self.print(a))
                    }
                    _ => self.print(a),
                };
                let right = match &b {
                    V::Bin(o2, ..)
                        if op_rank(*o2) < op_rank(op)
                            || (op == '-' && *o2 == '-')
                            || (!self.sw.div_div && op == '/' && *o2 == '/') =>
                    {
                        format!("({})", self.print(&b))
                    }
                    _ => self.print(&b),
                };
                format!("{left} {op} {right}")
            }
        }
    }

    /// The text of the declaration value for `calc(<t>)` (wrap = true) or the bare tree.
    fn output(&self, t: &T, _wrap: bool) -> Result<String, String> {
        let v = self.eval(t)?;
        Ok(match &v {
            V::Num(..) => self.print(&v),
            // calc(min(..)) is min(..)
            V::Call(..) => self.print(&v),
            _ => format!("calc({})", self.print(&v)),
        })
    }
}

/// min/max/clamp over plain numbers the way rsass folds them (ties: the later
/// argument for min/max); None when the units cannot be compared.
fn fold_fun(name: &str, nums: &[(f64, String)]) -> Option<(f64, String)> {
    let cmp = |a: &(f64, String), b: &(f64, String)| -> Option<std::cmp::Ordering> {
        let bv = if a.1 == b.1 || a.1.is_empty() || b.1.is_empty() {
            b.0
        } else {
            conv(b.0, &b.1, &a.1)?
        };
        if ((a.0 - bv).abs() / a.0.abs()) <= f64::EPSILON {
            Some(std::cmp::Ordering::Equal)
        } else {
            a.0.partial_cmp(&bv)
        }
    };
    match name {
        "min" | "max" => {
            let pref = if name == "min" {
                std::cmp::Ordering::Less
            } else {
                std::cmp::Ordering::Greater
            };
            let mut found = nums.first()?.clone();
            for v in &nums[1..] {
                let o = cmp(&found, v)?;
                if o != pref {
                    found = v.clone();
                }
            }
            Some(found)
        }
        "clamp" if nums.len() == 3 => {
            use std::cmp::Ordering::*;
            let (mn, mut x, mx) = (nums[0].clone(), nums[1].clone(), nums[2].clone());
            // same dimension needed for all three
            cmp(&mn, &x)?;
            cmp(&x, &mx)?;
            if mn.1.is_empty() != x.1.is_empty() || x.1.is_empty() != mx.1.is_empty() {
                return None;
            }
            if matches!(cmp(&x, &mx)?, Greater | Equal) {
                x = mx;
            }
            if matches!(cmp(&x, &mn)?, Less | Equal) {
                x = mn;
            }
            Some(x)
        }
        _ => None,
    }
}

// ---------------------------------------------------------------- generation (source texts)

#[derive(Clone)]
struct E {
    s: String,
    /// 0 = leaf or function, 1 = sum, 2 = product
    p: u8,
    fun_root: bool,
}

fn wrap(e: &E, need: bool) -> String {
    if need {
        format!("({})", e.s)
    } else {
        e.s.clone()
    }
}

fn bin(op: char, l: &E, r: &E) -> E {
    let p = prec(op);
    let ls = wrap(l, l.p != 0 && l.p < p);
    let rs = wrap(r, r.p != 0 && r.p <= p);
    E {
        s: format!("{ls} {op} {rs}"),
        p,
        fun_root: false,
    }
}

struct Gen {
    /// l[k], n[k]: length-like and unitless trees with exactly k operators
    l: Vec<Vec<E>>,
    n: Vec<Vec<E>>,
}

fn leaf(s: &str) -> E {
    E {
        s: s.to_string(),
        p: 0,
        fun_root: false,
    }
}

/// Typed trees with up to `max_ops` operators; function nodes (cost 1) only
/// while `funs(k)` says so.
fn generate(l_leaves: &[&str], n_leaves: &[&str], max_ops: usize, funs: &dyn Fn(usize) -> bool) -> Gen {
    let mut g = Gen {
        l: vec![l_leaves.iter().map(|s| leaf(s)).collect()],
        n: vec![n_leaves.iter().map(|s| leaf(s)).collect()],
    };
    for k in 1..=max_ops {
        let mut lk = Vec::new();
        let mut nk = Vec::new();
        for i in 0..k {
            let j = k - 1 - i;
            for a in &g.n[i] {
                for b in &g.n[j] {
                    for op in ['+', '-', '*', '/'] {
                        nk.push(bin(op, a, b));
                    }
                }
            }
            for a in &g.l[i] {
                for b in &g.l[j] {
                    lk.push(bin('+', a, b));
                    lk.push(bin('-', a, b));
                }
                for b in &g.n[j] {
                    lk.push(bin('*', a, b));
                    lk.push(bin('/', a, b));
                }
            }
            for a in &g.n[i] {
                for b in &g.l[j] {
                    lk.push(bin('*', a, b));
                }
            }
            if funs(k) {
                for a in &g.l[i] {
                    for b in &g.l[j] {
                        for f in ["min", "max"] {
                            lk.push(E {
                                s: format!("{f}({}, {})", a.s, b.s),
                                p: 0,
                                fun_root: true,
                            });
                        }
                    }
                }
            }
        }
        if funs(k) {
            for i in 0..k {
                for j in 0..(k - i) {
                    let m = k - 1 - i - j;
                    if i + j + m + 1 != k {
                        continue;
                    }
                    for a in &g.l[i] {
                        for b in &g.l[j] {
                            for c in &g.l[m] {
                                lk.push(E {
                                    s: format!("clamp({}, {}, {})", a.s, b.s, c.s),
                                    p: 0,
                                    fun_root: true,
                                });
                            }
                        }
                    }
                }
            }
        }
        g.l.push(lk);
        g.n.push(nk);
    }
    g
}

// ---------------------------------------------------------------- the check

#[derive(Clone, Debug, Hash, Serialize, Deserialize)]
struct Case {
    /// the calculation tree as source text
    tree: String,
    /// true: compiled as `calc(<tree>)`; false: the tree itself (root is min/max/clamp)
    calc: bool,
    /// typed (valid CSS calculation) or untyped (weak oracle)
    typed: bool,
}

fn has_fun_with_op_arg(t: &T, ops: &[char]) -> bool {
    fn contains_op(t: &T, ops: &[char]) -> bool {
        match t {
            T::Bin(o, a, b) => ops.contains(o) || contains_op(a, ops) || contains_op(b, ops),
            T::Paren(x) => contains_op(x, ops),
            T::Fun(_, args) => args.iter().any(|a| contains_op(a, ops)),
            _ => false,
        }
    }
    match t {
        T::Fun(_, args) => args.iter().any(|a| contains_op(a, ops) || has_fun_with_op_arg(a, ops)),
        T::Bin(_, a, b) => has_fun_with_op_arg(a, ops) || has_fun_with_op_arg(b, ops),
        T::Paren(x) => has_fun_with_op_arg(x, ops),
        _ => false,
    }
}

fn check(c: &Case) -> Verdict {
    let src_tree = match parse(&c.tree) {
        Ok(t) => t,
        Err(e) => return Verdict::fail(format!("MACHINERY: own source does not parse: {e}")),
    };
    let expr = if c.calc {
        format!("calc({})", c.tree)
    } else {
        c.tree.clone()
    };
    let out = rs::eval_expr("", &expr, Fmt::EXPANDED);
    let want = nf(&src_tree);
    let compat = c.typed && all_compatible(&src_tree);
    let want = match want {
        Ok(p) => p,
        Err(why) => {
            // division by an expression that is zero / not a monomial: nothing decided
            let _ = why;
            return match out {
                Out::Panic(p) => Verdict::fail_sig(format!("panic:{}", site(&p)), format!("{expr}: panic {p}")),
                _ => Verdict::Trivial,
            };
        }
    };
    let describe_want = || {
        if compat {
            format!("the number {}", canon(&want))
        } else {
            format!("a calculation with normal form {}", canon(&want))
        }
    };
    let (text, detail_got) = match &out {
        Out::Css(s) => (Some(s.clone()), format!("{s:?}")),
        Out::Err(e) => (None, format!("error {:?}", e.lines().next().unwrap_or(""))),
        Out::Panic(p) => {
            return Verdict::fail_sig(format!("panic:{}", site(p)), format!("{expr}: panic {p}"))
        }
    };
    let mut why = String::new();
    if let Some(text) = &text {
        match parse(text) {
            Ok(t) => {
                let is_plain_number = matches!(t, T::Num(..));
                match nf(&t) {
                    Ok(got) => {
                        if nf_eq(&got, &want) {
                            if compat && !is_plain_number {
                                why = "all operands are compatible numbers but the calculation was not simplified to a number".into();
                            } else {
                                return Verdict::pass(&(is_plain_number, text));
                            }
                        } else if !c.typed
                            && (Model { sw: Sw::default() })
                                .output(&src_tree, c.calc)
                                .ok()
                                .and_then(|m| parse(&m).ok())
                                .and_then(|m| nf(&m).ok())
                                .is_some_and(|m| nf_eq(&got, &m))
                        {
                            // untyped tree: the number Sass arithmetic gives (unitless adopts the unit)
                            return Verdict::pass(&("sass-arithmetic", text));
                        } else {
                            why = format!("normal form {}", canon(&got));
                        }
                    }
                    Err(e) => why = format!("emitted calculation has no normal form: {e}"),
                }
            }
            Err(e) => why = format!("emitted text is not a calculation: {e}"),
        }
    } else if !c.typed {
        // an invalid calculation may be rejected
        return Verdict::pass("error");
    }
    let detail = format!("{expr}: got {detail_got} ({why}); expected {}", describe_want());

    // ---- known-defect variants: the text predicted by the model with switches
    if let Some(text) = &text {
        let all = [
            (Sw::default(), ""),
            (Sw { left_parens: true, ..Default::default() }, "left-operand-parentheses-dropped"),
            (Sw { concat: true, ..Default::default() }, "identifier-plus-concatenated"),
            (Sw { div_div: true, ..Default::default() }, "divisor-quotient-parentheses-dropped"),
            (Sw { left_parens: true, concat: true, ..Default::default() }, "left-operand-parentheses-dropped+identifier-plus-concatenated"),
            (Sw { left_parens: true, div_div: true, ..Default::default() }, "left-operand-parentheses-dropped+divisor-quotient-parentheses-dropped"),
            (Sw { concat: true, div_div: true, ..Default::default() }, "identifier-plus-concatenated+divisor-quotient-parentheses-dropped"),
            (Sw { left_parens: true, concat: true, div_div: true }, "left-operand-parentheses-dropped+identifier-plus-concatenated+divisor-quotient-parentheses-dropped"),
        ];
        let correct = Model { sw: Sw::default() }.output(&src_tree, c.calc);
        // exact text first, then modulo white space (spaces around operators lost)
        for squashed in [false, true] {
            for (sw, name) in all {
                if let Ok(pred) = (Model { sw }).output(&src_tree, c.calc) {
                    let same = if squashed {
                        squash(&pred) == squash(text)
                    } else {
                        pred == *text
                    };
                    if !same {
                        continue;
                    }
                    if name.is_empty() {
                        if squashed {
                            return Verdict::fail_sig("operator-white-space-dropped", detail);
                        }
                        continue;
                    }
                    if !squashed && correct.as_ref().ok() == Some(&pred) {
                        continue;
                    }
                    return Verdict::fail_sig(
                        if squashed {
                            format!("{name}+operator-white-space-dropped")
                        } else {
                            name.to_string()
                        },
                        detail,
                    );
                }
            }
        }
        // a number whose unit is a power of % is printed raw instead of being rejected
        if matches!(&correct, Err(m) if m == "unit product" || m == "unit quotient") {
            let q = squash(text);
            if q.contains("%*1%") || q.contains("/1%") || q.contains("%^") {
                return Verdict::fail_sig("compound-percent-unit-emitted", detail);
            }
        }
    } else if let Out::Err(e) = &out {
        let head = e.lines().next().unwrap_or("");
        // an identifier (possibly after concatenation) as argument of min/max/clamp
        for sw in [Sw::default(), Sw { concat: true, ..Default::default() }] {
            if let Err(m) = (Model { sw }).output(&src_tree, c.calc) {
                if squash(&m) == squash(head) && m.ends_with("is not a number.") {
                    return Verdict::fail_sig(
                        if sw.concat {
                            "identifier-plus-concatenated+identifier-argument-rejected"
                        } else {
                            "identifier-argument-rejected"
                        },
                        detail,
                    );
                }
            }
        }
        if head.starts_with("Undefined operation \"")
            && head.contains(" * ")
            && has_fun_with_op_arg(&src_tree, &['*'])
        {
            return Verdict::fail_sig("function-argument-product-undefined-operation", detail);
        }
        // a sum/difference inside a function argument with an unevaluated min/max/clamp operand
        if head.starts_with("Undefined operation \"")
            && (head.contains(" + ") || head.contains(" - "))
            && (head.contains("min(") || head.contains("max(") || head.contains("clamp("))
            && has_fun_with_op_arg(&src_tree, &['+', '-'])
        {
            return Verdict::fail_sig("function-argument-sum-with-calculation-undefined-operation", detail);
        }
    }
    Verdict::fail(detail)
}

fn squash(s: &str) -> String {
    s.chars().filter(|c| !c.is_whitespace()).collect()
}

fn site(p: &str) -> String {
    let loc = p.split(": ").next().unwrap_or("?");
    let mut parts: Vec<&str> = loc.split(':').collect();
    if parts.len() > 2 {
        parts.truncate(2);
    }
    parts.join(":")
}

const L_FULL: &[&str] = &["1px", "2px", "1in", "50%", "1em", "var(--x)", "foo"];
const L_MID: &[&str] = &["1px", "1in", "1em", "var(--x)"];
const L_SMALL: &[&str] = &["1px", "1em", "var(--x)"];
const N_LEAVES: &[&str] = &["2"];
const L_FUN: &[&str] = &["1px", "2px", "1in", "50%", "1em", "var(--x)"];
const L_FUN_QUICK: &[&str] = &["1px", "1in", "1em", "var(--x)"];
const L_UNTYPED: &[&str] = &["1px", "2px", "1in", "50%", "1em", "var(--x)", "2"];

fn cases_of(g: &Gen, ks: std::ops::RangeInclusive<usize>) -> Vec<Case> {
    let mut v = Vec::new();
    for k in ks {
        for e in &g.l[k] {
            v.push(Case {
                tree: e.s.clone(),
                calc: true,
                typed: true,
            });
            if e.fun_root {
                v.push(Case {
                    tree: e.s.clone(),
                    calc: false,
                    typed: true,
                });
            }
        }
        for e in &g.n[k] {
            v.push(Case {
                tree: e.s.clone(),
                calc: true,
                typed: true,
            });
        }
    }
    v
}

fn main() {
    let ck = Check::from_args("C30");
    let quick = ck.quick();
    ck.rule("typed calculation trees (sum of like kinds, product with a unitless factor, division by a unitless divisor, min/max/clamp of length-like arguments) over {1px,2px,1in,50%,1em,var(--x),foo | 2}, simplest first, each as calc(<tree>) and, when the root is a function, bare; plus all untyped trees <= 2 operators over all leaves; distinct = distinct source text; outcome = (simplified-to-number?, emitted text)");
    ck.assume("the calculation parser and polynomial normal form in this file define 'same operands and operator structure' (DESIGN R-calc): px-class units are converted, %/em/var()/identifiers and unevaluable min/max/clamp are opaque atoms; coefficients compare within 1e-7 relative");
    ck.assume("min/max/clamp over same-unit arguments are evaluated numerically in the normal form (what Sass does)");

    // ---- section 1: full alphabet
    let k1 = ck.tier.pick(2, 3);
    let g = generate(L_FULL, N_LEAVES, k1, &|_| false);
    let cases = cases_of(&g, 0..=k1);
    let n_compat = cases
        .iter()
        .filter(|c| parse(&c.tree).is_ok_and(|t| all_compatible(&t)))
        .count();
    ck.note(
        "typed_full_cases_with_all_compatible_operands",
        serde_json::json!(n_compat),
    );
    ck.run(
        "typed-full",
        if quick {
            "7+1 leaves, <= 2 operators"
        } else {
            "7+1 leaves, <= 3 operators"
        },
        cases.into_iter(),
        check,
    );
    drop(g);

    // ---- section 1b: min/max/clamp nodes (inside calc() and bare)
    {
        let lf: &[&str] = if quick { L_FUN_QUICK } else { L_FUN };
        let is_fun = |c: &Case| {
            c.tree.contains("min(") || c.tree.contains("max(") || c.tree.contains("clamp(")
        };
        let g = generate(lf, N_LEAVES, 2, &|_| true);
        let mut cases: Vec<Case> = cases_of(&g, 1..=2).into_iter().filter(is_fun).collect();
        // the identifier leaf next to one number only: it is rejected as a direct
        // argument (known finding), which would otherwise swamp the section
        let g = generate(&["1px", "foo"], N_LEAVES, 2, &|_| true);
        cases.extend(
            cases_of(&g, 1..=2)
                .into_iter()
                .filter(|c| is_fun(c) && c.tree.contains("foo")),
        );
        let n_compat = cases
            .iter()
            .filter(|c| parse(&c.tree).is_ok_and(|t| all_compatible(&t)))
            .count();
        ck.note(
            "functions_cases_with_all_compatible_operands",
            serde_json::json!(n_compat),
        );
        ck.run(
            "functions",
            if quick {
                "trees with a min/max/clamp node, <= 2 operators (a function counts as one), leaves {1px,1in,1em,var(--x) | 2} and {1px,foo | 2}"
            } else {
                "trees with a min/max/clamp node, <= 2 operators (a function counts as one), leaves {1px,2px,1in,50%,1em,var(--x) | 2} and {1px,foo | 2}"
            },
            cases.into_iter(),
            check,
        );
    }

    // ---- section 1c: function nodes in deeper trees
    if !quick {
        let is_fun = |c: &Case| {
            c.tree.contains("min(") || c.tree.contains("max(") || c.tree.contains("clamp(")
        };
        let g = generate(L_SMALL, N_LEAVES, 3, &|_| true);
        let cases: Vec<Case> = cases_of(&g, 3..=3).into_iter().filter(is_fun).collect();
        ck.run(
            "functions-deep",
            "trees with a min/max/clamp node, exactly 3 operators, leaves {1px,1em,var(--x) | 2}",
            cases.into_iter(),
            check,
        );
    }

    // ---- section 2: deeper trees over fewer leaves
    if quick {
        let g = generate(L_MID, N_LEAVES, 3, &|_| false);
        ck.run(
            "typed-deep",
            "4+1 leaves {1px,1in,1em,var(--x) | 2}, exactly 3 operators",
            cases_of(&g, 3..=3).into_iter(),
            check,
        );
    } else {
        let g = generate(L_MID, N_LEAVES, 4, &|_| false);
        ck.run(
            "typed-deep-4",
            "4+1 leaves {1px,1in,1em,var(--x) | 2}, exactly 4 operators",
            cases_of(&g, 4..=4).into_iter(),
            check,
        );
        drop(g);
        let g = generate(L_SMALL, N_LEAVES, 5, &|_| false);
        ck.run(
            "typed-deep-5",
            "3+1 leaves {1px,1em,var(--x) | 2}, exactly 5 operators",
            cases_of(&g, 5..=5).into_iter(),
            check,
        );
    }

    // ---- section 3: untyped trees
    {
        let all: Vec<&str> = L_UNTYPED.to_vec();
        let mut lv: Vec<Vec<E>> = vec![all.iter().map(|s| leaf(s)).collect()];
        for k in 1..=2usize {
            let mut v = Vec::new();
            for i in 0..k {
                let j = k - 1 - i;
                for a in &lv[i] {
                    for b in &lv[j] {
                        for op in ['+', '-', '*', '/'] {
                            v.push(bin(op, a, b));
                        }
                    }
                }
            }
            lv.push(v);
        }
        let cases: Vec<Case> = lv
            .iter()
            .flatten()
            .map(|e| Case {
                tree: e.s.clone(),
                calc: true,
                typed: false,
            })
            .collect();
        ck.run(
            "untyped",
            "all trees <= 2 operators over {1px,2px,1in,50%,1em,var(--x),2} (invalid calculations may be rejected; unitless + unit may fold the Sass way)",
            cases.into_iter(),
            check,
        );
    }

    ck.finish()
}
