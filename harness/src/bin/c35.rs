//! C35 Meaning-preserving source rewrites do not change the output.
//!
//! Generated programs: written in a small marker DSL so that every token
//! boundary, its gap class (glued / optional whitespace / existing whitespace),
//! every name occurrence, every slash-free value site, every statement
//! boundary and every top-level statement is known.  Every program of the
//! grammar up to the bound x every single rewrite x every applicable position
//! (all compatible pairs, and triples on ten programs, in the thorough tier).
//!
//! Rewrites: whitespace / silent comment in a non-glued gap; rename of a
//! variable, function or mixin (fresh name everywhere, `-`/`_` swapped
//! everywhere, swapped in one occurrence only); a slash-free value site moved
//! into a variable declared immediately before the enclosing statement;
//! `@debug` / `@warn` at a statement boundary; a contiguous run of top-level
//! statements moved into `_zpart.scss` and loaded with `@import` through the
//! in-memory loader.
//!
//! Sections: single-rewrite, form-feed (U+000C as whitespace), rewrite-pairs,
//! rewrite-triples, corpus (boundary-safe rewrites only: trailing newline /
//! silent comment when the input ends at a statement boundary, @debug/@warn at
//! top-level statement boundaries found by a brace-depth scan, the whole input
//! moved into an @import-ed partial).
//!
//! Oracle (relational): output(rewritten) == output(original); both are real
//! executions; equal CSS, or both errors.  Known-defect signatures predict the
//! wrong output by a real execution of a variant program that spells the
//! defect out (see `classify`).

use serde::{Deserialize, Serialize};
use std::collections::{BTreeSet, HashMap};
use vp::report::{Check, Verdict};
use vp::rs::{self, Fmt, Out};

// ---------------------------------------------------------------------------
// token documents
// ---------------------------------------------------------------------------

/// What may be inserted between a token and the next one.
#[derive(Clone, Copy, PartialEq, Eq, Debug)]
enum Gap {
    /// nothing (whitespace would change the meaning, or we are not sure)
    Glue,
    /// currently empty; whitespace and silent comments are insignificant
    Opt,
    /// currently one space; more whitespace / silent comments are insignificant
    Sp,
    /// currently empty; only plain whitespace may be added
    OptW,
    /// currently one space; only plain whitespace may be added
    SpW,
}

#[derive(Clone, Copy, PartialEq, Eq, Debug, PartialOrd, Ord)]
enum Nm {
    No,
    Var(u8),
    Fun(u8),
    Mix(u8),
}

#[derive(Clone, Debug)]
struct Tok {
    text: String,
    nm: Nm,
    gap: Gap,
}

#[derive(Clone, Debug)]
struct Site {
    s: usize,
    e: usize,
    /// token index before which a statement can be inserted so that it is
    /// evaluated immediately before the statement containing the site
    at: usize,
}

#[derive(Clone, Debug, Default)]
struct Doc {
    toks: Vec<Tok>,
    sites: Vec<Site>,
    /// statement boundaries (insert before this token; toks.len() = end of file)
    bounds: Vec<usize>,
    /// start token of each top-level statement
    tops: Vec<usize>,
}

const VARS: &[&str] = &["a-b", "x-y", "p-q", "r_s", "k", "i", "l-v", "g-h", "v", "n_m", "c-d"];
const FUNS: &[&str] = &["fn-a", "fn_b"];
const MIXS: &[&str] = &["mx-a", "mc_a", "ms-g", "mu-b"];

fn base_name(nm: Nm) -> &'static str {
    match nm {
        Nm::Var(i) => VARS[i as usize],
        Nm::Fun(i) => FUNS[i as usize],
        Nm::Mix(i) => MIXS[i as usize],
        Nm::No => "",
    }
}

/// DSL markers:
///  `␣` Sp gap, `°` Opt gap, `˽` SpW gap, `˚` OptW gap, `§` glued token split,
///  `«` `»` value site, `‹v3›` `‹f0›` `‹m1›` name tokens,
///  `⟦` `⟧` block braces, `¶` statement boundary, `¤` top-level statement start.
fn parse_dsl(src: &str) -> Doc {
    let mut d = Doc::default();
    let mut pending = String::new();
    let mut site_stack: Vec<usize> = Vec::new();
    let mut at_stack: Vec<usize> = Vec::new();
    let mut cur_at = 0usize;
    fn flush(d: &mut Doc, pending: &mut String) {
        if !pending.is_empty() {
            d.toks.push(Tok {
                text: std::mem::take(pending),
                nm: Nm::No,
                gap: Gap::Glue,
            });
        }
    }
    let set_gap = |d: &mut Doc, g: Gap| {
        if let Some(t) = d.toks.last_mut() {
            t.gap = g;
        }
    };
    let mut chars = src.chars().peekable();
    while let Some(c) = chars.next() {
        match c {
            '␣' | '°' | '˽' | '˚' | '§' => {
                flush(&mut d, &mut pending);
                let g = match c {
                    '␣' => Gap::Sp,
                    '°' => Gap::Opt,
                    '˽' => Gap::SpW,
                    '˚' => Gap::OptW,
                    _ => Gap::Glue,
                };
                set_gap(&mut d, g);
            }
            '«' => {
                flush(&mut d, &mut pending);
                site_stack.push(d.toks.len());
            }
            '»' => {
                flush(&mut d, &mut pending);
                let s = site_stack.pop().expect("unbalanced site marker");
                d.sites.push(Site {
                    s,
                    e: d.toks.len(),
                    at: cur_at,
                });
            }
            '‹' => {
                flush(&mut d, &mut pending);
                let k = chars.next().expect("name kind");
                let mut num = String::new();
                for c in chars.by_ref() {
                    if c == '›' {
                        break;
                    }
                    num.push(c);
                }
                let id: u8 = num.parse().expect("name id");
                let nm = match k {
                    'v' => Nm::Var(id),
                    'f' => Nm::Fun(id),
                    _ => Nm::Mix(id),
                };
                d.toks.push(Tok {
                    text: String::new(),
                    nm,
                    gap: Gap::Glue,
                });
            }
            '⟦' => {
                flush(&mut d, &mut pending);
                d.toks.push(Tok {
                    text: "{".into(),
                    nm: Nm::No,
                    gap: Gap::Glue,
                });
                at_stack.push(cur_at);
            }
            '⟧' => {
                flush(&mut d, &mut pending);
                d.toks.push(Tok {
                    text: "}".into(),
                    nm: Nm::No,
                    gap: Gap::Glue,
                });
                cur_at = at_stack.pop().expect("unbalanced block");
            }
            '¶' => {
                flush(&mut d, &mut pending);
                cur_at = d.toks.len();
                d.bounds.push(cur_at);
            }
            '¤' => {
                flush(&mut d, &mut pending);
                cur_at = d.toks.len();
                d.bounds.push(cur_at);
                d.tops.push(cur_at);
            }
            c => pending.push(c),
        }
    }
    flush(&mut d, &mut pending);
    assert!(site_stack.is_empty() && at_stack.is_empty(), "unbalanced DSL: {src}");
    d.bounds.push(d.toks.len());
    d.bounds.dedup();
    d
}

// ---------------------------------------------------------------------------
// the grammar
// ---------------------------------------------------------------------------

struct Val {
    name: &'static str,
    dsl: &'static str,
    /// a top-level comma list (not usable as one call argument)
    comma: bool,
    /// numeric with a length unit or unitless (usable as a media feature value)
    dim: bool,
}

const fn val(name: &'static str, dsl: &'static str) -> Val {
    Val {
        name,
        dsl,
        comma: false,
        dim: false,
    }
}
const fn dimv(name: &'static str, dsl: &'static str) -> Val {
    Val {
        name,
        dsl,
        comma: false,
        dim: true,
    }
}

const VALS: &[Val] = &[
    dimv("dim", "«2px»"),
    dimv("add", "««1»␣+␣«2»»"),
    dimv("var", "«‹v0›»"),
    dimv("call", "«‹f0›§(°«2»°)»"),
    val("identinterp", "«a#{°‹v0›°}c»"),
    val("splist", "««1px»␣«solid»␣«red»»"),
    val("str", "«\"q s\"»"),
    dimv("mul", "««2»␣*␣«3px»»"),
    dimv("sub", "««10px»␣-␣«4px»»"),
    dimv("paren", "««(°«1␣+␣2»°)»␣*␣«3»»"),
    dimv("prec", "««2»␣+␣«3»␣*␣«4»»"),
    dimv("mod", "««7»␣%␣«3»»"),
    Val {
        name: "commalist",
        dsl: "««a»°,␣«b»»",
        comma: true,
        dim: false,
    },
    val("bracket", "«[°«a»␣«b»°]»"),
    val("strcat", "««\"a\"»␣+␣«b»»"),
    val("strinterp", "«\"a#{°«1␣+␣1»°}b\"»"),
    val("bareinterp", "«#{°«‹v0›»°}»"),
    dimv("varmul", "««‹v0›»␣*␣«2»»"),
    dimv("neg", "«-§‹v0›»"),
    dimv("callkw", "«‹f0›§(°‹v1›°:␣«2»°)»"),
    dimv("callexpr", "««‹f0›§(°«‹v0›»°)»␣+␣«1»»"),
    dimv("callb", "«‹f1›§(°«2»°)»"),
    dimv("nth", "«nth§(°«5px␣6px»°,␣«2»°)»"),
    val("if", "«if§(°«true»°,␣«x»°,␣«y»°)»"),
    val("mapget", "«map-get§(°«(°k°:␣v°)»°,␣«k»°)»"),
    val("hex", "«#abc»"),
    val("lt", "««1»␣<␣«2»»"),
    val("eqor", "««1»␣==␣«1»␣or␣«false»»"),
    val("andnot", "««true»␣and␣not␣«false»»"),
    val("slash", "1␣/␣2"),
    val("important", "«b»␣!important"),
    val("null", "«null»"),
    dimv("global", "«‹v7›»"),
];

/// indices into VALS of the reduced value set
const VR: &[usize] = &[0, 1, 2, 3, 4];

struct ItemK {
    name: &'static str,
    dsl: &'static str,
    /// value is one call argument
    arg: bool,
    /// value must be a dimension
    dim: bool,
}

const ITEMS: &[ItemK] = &[
    ItemK { name: "decl", dsl: "¶p°:␣{V}°;␣", arg: false, dim: false },
    ItemK { name: "nested-amp", dsl: "¶&:hover␣⟦␣¶q°:␣{V}°;␣¶⟧␣", arg: false, dim: false },
    ItemK { name: "nested-class", dsl: "¶.c␣⟦␣¶q°:␣{V}°;␣¶⟧␣", arg: false, dim: false },
    ItemK { name: "nested-child", dsl: "¶> .d␣⟦␣¶q°:␣{V}°;␣¶⟧␣", arg: false, dim: false },
    ItemK { name: "include1", dsl: "¶@include␣‹m0›°(°{V}°)°;␣", arg: true, dim: false },
    ItemK { name: "include2", dsl: "¶@include␣‹m0›°(°«1»°,␣{V}°)°;␣", arg: true, dim: false },
    ItemK { name: "includekw", dsl: "¶@include␣‹m0›°(°«1»°,␣‹v3›°:␣{V}°)°;␣", arg: true, dim: false },
    ItemK { name: "includecontent", dsl: "¶@include␣‹m1›␣⟦␣¶q°:␣{V}°;␣¶⟧␣", arg: false, dim: false },
    ItemK { name: "if", dsl: "¶@if␣{V}␣⟦␣¶q°:␣1°;␣¶⟧␣@else␣⟦␣¶q°:␣2°;␣¶⟧␣", arg: true, dim: false },
    ItemK { name: "elseif", dsl: "¶@if␣«false»␣⟦␣¶q°:␣1°;␣¶⟧␣@else␣if␣{V}␣⟦␣¶q°:␣2°;␣¶⟧␣@else␣⟦␣¶q°:␣3°;␣¶⟧␣", arg: true, dim: false },
    ItemK { name: "each", dsl: "¶@each␣‹v4›␣in␣{V}␣⟦␣¶q°:␣‹v4›°;␣¶⟧␣", arg: false, dim: false },
    ItemK { name: "eachmap", dsl: "¶@each␣‹v4›°,␣‹v8›␣in␣«(°a°:␣{V}°,␣b°:␣2°)»␣⟦␣¶q-#{°‹v4›°}°:␣‹v8›°;␣¶⟧␣", arg: true, dim: false },
    ItemK { name: "for", dsl: "¶@for␣‹v5›␣from␣«1»␣through␣«2»␣⟦␣¶q-#{°‹v5›°}°:␣{V}°;␣¶⟧␣", arg: false, dim: false },
    ItemK { name: "media", dsl: "¶@media␣(°min-width°:␣{V}°)␣⟦␣¶q°:␣1°;␣¶⟧␣", arg: true, dim: true },
    ItemK { name: "local", dsl: "¶‹v6›°:␣{V}°;␣¶q°:␣‹v6›°;␣", arg: false, dim: false },
    ItemK { name: "localdefault", dsl: "¶‹v6›°:␣{V}␣!default°;␣¶q°:␣‹v6›°;␣", arg: false, dim: false },
    ItemK { name: "extend", dsl: "¶@extend␣%ph-a°;␣¶q°:␣{V}°;␣", arg: false, dim: false },
    ItemK { name: "nsprop", dsl: "¶font§:␣⟦␣¶size°:␣{V}°;␣¶⟧␣", arg: false, dim: false },
    ItemK { name: "propinterp", dsl: "¶p-#{°{V}°}°:␣1°;␣", arg: true, dim: true },
    ItemK { name: "include-using", dsl: "¶@include␣‹m3›␣using␣(°‹v10›°)␣⟦␣¶q°:␣‹v10›°;␣¶r°:␣{V}°;␣¶⟧␣", arg: false, dim: false },
    // (no @while: a rewrite that goes wrong inside its condition or body could make the loop endless)
    ItemK { name: "at-root", dsl: "¶@at-root␣.e␣⟦␣¶q°:␣{V}°;␣¶⟧␣", arg: false, dim: false },
];

struct TopK {
    name: &'static str,
    /// {I} = items, {V} = value `a`
    dsl: &'static str,
    items: bool,
    value: bool,
}

const TOPS: &[TopK] = &[
    TopK { name: "rule", dsl: "¤.r-a␣⟦␣{I}¶⟧␣", items: true, value: false },
    TopK { name: "rule-list", dsl: "¤.r-a,␣.r-b␣⟦␣{I}¶⟧␣", items: true, value: false },
    TopK { name: "rule-desc", dsl: "¤.r-a˽.c␣⟦␣{I}¶⟧␣", items: true, value: false },
    TopK { name: "rule-child", dsl: "¤.r-a˽>˽.c␣⟦␣{I}¶⟧␣", items: true, value: false },
    TopK { name: "rule-pseudo", dsl: "¤a:hover␣⟦␣{I}¶⟧␣", items: true, value: false },
    TopK { name: "media", dsl: "¤@media␣screen␣and␣(°min-width°:␣«10px»°)␣⟦␣¶.r-a␣⟦␣{I}¶⟧␣¶⟧␣", items: true, value: false },
    TopK { name: "each", dsl: "¤@each␣‹v4›␣in␣««a»␣«b»»␣⟦␣¶.s-#{°‹v4›°}␣⟦␣{I}¶⟧␣¶⟧␣", items: true, value: false },
    TopK { name: "for", dsl: "¤@for␣‹v5›␣from␣«1»␣through␣«2»␣⟦␣¶.s-#{°‹v5›°}␣⟦␣{I}¶⟧␣¶⟧␣", items: true, value: false },
    TopK { name: "if", dsl: "¤@if␣««‹v0›»␣==␣«3px»»␣⟦␣¶.r-a␣⟦␣{I}¶⟧␣¶⟧␣@else␣⟦␣¶.r-b␣⟦␣¶q°:␣0°;␣¶⟧␣¶⟧␣", items: true, value: false },
    TopK { name: "include-content", dsl: "¤@include␣‹m1›␣⟦␣{I}¶⟧␣", items: true, value: false },
    TopK { name: "sel-interp", dsl: "¤.s-#{°«1␣+␣1»°}␣⟦␣{I}¶⟧␣", items: true, value: false },
    TopK { name: "set-global", dsl: "¤‹v7›°:␣{V}°;␣", items: false, value: true },
    TopK { name: "set-default", dsl: "¤‹v7›°:␣{V}␣!default°;␣", items: false, value: true },
    TopK { name: "include-global", dsl: "¤@include␣‹m2›°;␣", items: false, value: false },
    TopK { name: "use-global", dsl: "¤.g␣⟦␣¶q°:␣‹v7›°;␣¶⟧␣", items: false, value: false },
    // last declaration of a block without `;` (no statement boundary before `}`)
    TopK { name: "rule-nosemi", dsl: "¤.r-a␣⟦␣¶p°:␣{V}␣⟧␣", items: false, value: true },
    TopK { name: "loud-comment", dsl: "¤/* c */␣", items: false, value: false },
    TopK { name: "supports", dsl: "¤@supports␣(°display°:␣grid°)␣⟦␣¶.r-a␣⟦␣{I}¶⟧␣¶⟧␣", items: true, value: false },
];

const DEFS: &[(&str, &str)] = &[
    ("‹m3›", "¤@mixin␣‹m3›␣⟦␣¶@content°(°«1px»°)°;␣¶⟧␣"),
    ("‹m2›", "¤@mixin␣‹m2›␣⟦␣¶‹v7›°:␣5px␣!global°;␣¶⟧␣"),
    ("‹m1›", "¤@mixin␣‹m1›␣⟦␣¶.in␣⟦␣¶@content°;␣¶⟧␣¶⟧␣"),
    ("‹m0›", "¤@mixin␣‹m0›°(°‹v2›°,␣‹v3›°:␣1°)␣⟦␣¶w°:␣‹v2›°;␣¶h°:␣‹v3›°;␣¶⟧␣"),
    ("‹f1›", "¤@function␣‹f1›°(°‹v9›°)␣⟦␣¶@if␣««‹v9›»␣==␣«2»»␣⟦␣¶@return␣«‹v9›»°;␣¶⟧␣¶@return␣«0»°;␣¶⟧␣"),
    ("‹f0›", "¤@function␣‹f0›°(°‹v1›°)␣⟦␣¶@return␣««‹v1›»␣*␣«2»»°;␣¶⟧␣"),
    ("%ph-a", "¤%ph-a␣⟦␣¶e°:␣f°;␣¶⟧␣"),
    ("‹v7›", "¤‹v7›°:␣«1px»°;␣"),
    ("‹v0›", "¤‹v0›°:␣«3px»°;␣"),
];

#[derive(Clone, Debug, Hash, PartialEq, Eq, Serialize, Deserialize)]
struct Top {
    /// index into TOPS
    k: u8,
    /// value index (tops with a value slot)
    v: u8,
    /// (item kind, value index)
    items: Vec<(u8, u8)>,
}

#[derive(Clone, Debug, Hash, PartialEq, Eq, Serialize, Deserialize)]
struct Prog {
    tops: Vec<Top>,
}

fn item_ok(k: usize, v: usize) -> bool {
    let it = &ITEMS[k];
    let va = &VALS[v];
    if it.arg && va.comma {
        return false;
    }
    if it.dim && !va.dim {
        return false;
    }
    // `1 / 2 !default`, `b !important !default` make little sense
    if it.name == "localdefault" && (va.name == "important") {
        return false;
    }
    if (it.name == "if" || it.name == "elseif" || it.name == "eachmap" || it.name == "propinterp")
        && va.name == "important"
    {
        return false;
    }
    true
}

fn prog_dsl(p: &Prog) -> String {
    let mut body = String::new();
    for t in &p.tops {
        let tk = &TOPS[t.k as usize];
        let mut items = String::new();
        for (k, v) in &t.items {
            items.push_str(&ITEMS[*k as usize].dsl.replace("{V}", VALS[*v as usize].dsl));
        }
        body.push_str(
            &tk.dsl
                .replace("{I}", &items)
                .replace("{V}", VALS[t.v as usize].dsl),
        );
    }
    // definitions needed (to a fixpoint; DEFS is ordered so that one pass suffices)
    let mut pre: Vec<&str> = Vec::new();
    let mut all = body.clone();
    for (needle, def) in DEFS {
        if all.contains(needle) {
            pre.push(def);
            all.push_str(def);
        }
    }
    pre.reverse();
    let mut out = String::new();
    for d in pre {
        out.push_str(d);
    }
    out.push_str(&body);
    out
}

// ---------------------------------------------------------------------------
// rewrites
// ---------------------------------------------------------------------------

#[derive(Clone, Debug, Hash, PartialEq, Eq, Serialize, Deserialize)]
enum Edit {
    /// insert WS[v] into the gap after token `gap`
    Ws { gap: usize, v: u8 },
    /// kind 0 var / 1 function / 2 mixin; mode -1 fresh name everywhere,
    /// -2 swap `-`/`_` everywhere, k >= 0 swap only in occurrence k
    Rename { kind: u8, id: u8, mode: i16 },
    /// replace value site by a fresh variable declared just before the statement
    Extract { site: usize },
    /// insert STMTS[v] at statement boundary `bound` (index into doc.bounds)
    Stmt { bound: usize, v: u8 },
    /// move top-level statements from..to into a partial, @import it
    Import { from: usize, to: usize },
}

const WS: &[&str] = &[" ", "\n", " // c\n", "\t", "\r\n", " //\n", " // c\n  // d\n ", "\u{c}", "\u{b}"];
/// is WS[v] plain whitespace (no comment)?
fn ws_plain(v: u8) -> bool {
    !WS[v as usize].contains("//")
}
const STMTS: &[&str] = &["@debug \"zz\";", "@warn \"zz\";", "@debug 1 + 1;", "@warn a b;"];

#[derive(Clone, Debug, Hash, Serialize, Deserialize)]
struct Case {
    prog: Prog,
    edits: Vec<Edit>,
}

fn swap_dash(s: &str) -> String {
    s.chars()
        .map(|c| match c {
            '-' => '_',
            '_' => '-',
            c => c,
        })
        .collect()
}

fn nm_key(nm: Nm) -> Option<(u8, u8)> {
    match nm {
        Nm::Var(i) => Some((0, i)),
        Nm::Fun(i) => Some((1, i)),
        Nm::Mix(i) => Some((2, i)),
        Nm::No => None,
    }
}

struct Plan<'a> {
    doc: &'a Doc,
    edits: &'a [Edit],
    /// occurrence number of each name token
    occ: Vec<usize>,
}

impl<'a> Plan<'a> {
    fn new(doc: &'a Doc, edits: &'a [Edit]) -> Plan<'a> {
        let mut count: HashMap<(u8, u8), usize> = HashMap::new();
        let occ = doc
            .toks
            .iter()
            .map(|t| match nm_key(t.nm) {
                Some(k) => {
                    let e = count.entry(k).or_insert(0);
                    *e += 1;
                    *e - 1
                }
                None => 0,
            })
            .collect();
        Plan { doc, edits, occ }
    }

    fn tok_text(&self, k: usize) -> String {
        let t = &self.doc.toks[k];
        let Some((kind, id)) = nm_key(t.nm) else {
            return t.text.clone();
        };
        let mut name = base_name(t.nm).to_string();
        for e in self.edits {
            if let Edit::Rename { kind: ek, id: ei, mode } = e {
                if *ek == kind && *ei == id {
                    match *mode {
                        -1 => name = format!("zq{}{}-n", ["v", "f", "m"][kind as usize], id),
                        -2 => name = swap_dash(&name),
                        m if m >= 0 && m as usize == self.occ[k] => name = swap_dash(&name),
                        _ => {}
                    }
                }
            }
        }
        if kind == 0 {
            format!("${name}")
        } else {
            name
        }
    }

    fn gap_text(&self, k: usize) -> String {
        let mut s = match self.doc.toks[k].gap {
            Gap::Sp | Gap::SpW => " ".to_string(),
            _ => String::new(),
        };
        for e in self.edits {
            if let Edit::Ws { gap, v } = e {
                if *gap == k {
                    s.push_str(WS[*v as usize]);
                }
            }
        }
        s
    }

    fn extract_name(site: usize) -> String {
        format!("$zz-x{site}")
    }

    /// text inserted before token `p` (or at the end of file for p == len)
    fn inserts_before(&self, p: usize) -> String {
        let mut s = String::new();
        for e in self.edits {
            match e {
                Edit::Stmt { bound, v } if self.doc.bounds[*bound] == p => {
                    s.push_str(STMTS[*v as usize]);
                    s.push(' ');
                }
                Edit::Extract { site } if self.doc.sites[*site].at == p => {
                    let st = &self.doc.sites[*site];
                    s.push_str(&format!(
                        "{}: {}; ",
                        Self::extract_name(*site),
                        self.render_inner(st.s, st.e, false, true)
                    ));
                }
                _ => {}
            }
        }
        s
    }

    /// render tokens lo..hi.  `extract`: apply Extract edits; `raw_tail`: omit
    /// the gap after the last token.
    fn render_inner(&self, lo: usize, hi: usize, extract: bool, raw_tail: bool) -> String {
        let mut out = String::new();
        let mut k = lo;
        while k < hi {
            if extract {
                out.push_str(&self.inserts_before(k));
                let mut replaced = None;
                for e in self.edits {
                    if let Edit::Extract { site } = e {
                        if self.doc.sites[*site].s == k {
                            replaced = Some(*site);
                        }
                    }
                }
                if let Some(site) = replaced {
                    out.push_str(&Self::extract_name(site));
                    k = self.doc.sites[site].e;
                    out.push_str(&self.gap_text(k - 1));
                    continue;
                }
            }
            out.push_str(&self.tok_text(k));
            if !(raw_tail && k + 1 == hi) {
                out.push_str(&self.gap_text(k));
            }
            k += 1;
        }
        out
    }

    fn render(&self, lo: usize, hi: usize) -> String {
        let mut s = self.render_inner(lo, hi, true, false);
        if hi == self.doc.toks.len() {
            s.push_str(&self.inserts_before(hi));
        }
        s
    }

    /// (root source, partial)
    fn sources(&self) -> (String, Option<String>) {
        let n = self.doc.toks.len();
        for e in self.edits {
            if let Edit::Import { from, to } = e {
                let a = self.doc.tops[*from];
                let b = if *to >= self.doc.tops.len() {
                    n
                } else {
                    self.doc.tops[*to]
                };
                let mut root = self.render_inner(0, a, true, false);
                root.push_str("@import \"zpart\"; ");
                root.push_str(&self.render(b, n));
                if b == n {
                    // render(b, n) with b == n emitted only the end-of-file inserts
                }
                let part = self.render_inner(a, b, true, false);
                return (root, Some(part));
            }
        }
        (self.render(0, n), None)
    }
}

/// Can these edits be applied together?
fn compatible(doc: &Doc, a: &Edit, b: &Edit) -> bool {
    match (a, b) {
        (Edit::Ws { gap: g1, .. }, Edit::Ws { gap: g2, .. }) => g1 != g2,
        (Edit::Rename { kind: k1, id: i1, .. }, Edit::Rename { kind: k2, id: i2, .. }) => {
            (k1, i1) != (k2, i2)
        }
        (Edit::Extract { site: s1 }, Edit::Extract { site: s2 }) => {
            let (x, y) = (&doc.sites[*s1], &doc.sites[*s2]);
            x.e <= y.s || y.e <= x.s
        }
        (Edit::Import { .. }, Edit::Import { .. }) => false,
        _ => true,
    }
}

fn single_edits(doc: &Doc, ws_opt: &[u8], ws_sp: &[u8], stmts: &[u8]) -> Vec<Edit> {
    let mut out = Vec::new();
    for (k, t) in doc.toks.iter().enumerate() {
        let vs: &[u8] = match t.gap {
            Gap::Glue => &[],
            Gap::Opt | Gap::OptW => ws_opt,
            Gap::Sp | Gap::SpW => ws_sp,
        };
        for v in vs {
            if matches!(t.gap, Gap::OptW | Gap::SpW) && !ws_plain(*v) {
                continue;
            }
            out.push(Edit::Ws { gap: k, v: *v });
        }
    }
    let mut names: BTreeSet<(u8, u8)> = BTreeSet::new();
    let mut counts: HashMap<(u8, u8), usize> = HashMap::new();
    for t in &doc.toks {
        if let Some(k) = nm_key(t.nm) {
            names.insert(k);
            *counts.entry(k).or_insert(0) += 1;
        }
    }
    for (kind, id) in names {
        out.push(Edit::Rename { kind, id, mode: -1 });
        let nm = match kind {
            0 => Nm::Var(id),
            1 => Nm::Fun(id),
            _ => Nm::Mix(id),
        };
        let base = base_name(nm);
        if base.contains('-') || base.contains('_') {
            out.push(Edit::Rename { kind, id, mode: -2 });
            let n = counts[&(kind, id)];
            if n > 1 {
                for k in 0..n {
                    out.push(Edit::Rename {
                        kind,
                        id,
                        mode: k as i16,
                    });
                }
            }
        }
    }
    for s in 0..doc.sites.len() {
        out.push(Edit::Extract { site: s });
    }
    for b in 0..doc.bounds.len() {
        for v in stmts {
            out.push(Edit::Stmt { bound: b, v: *v });
        }
    }
    let n = doc.tops.len();
    for from in 0..n {
        for to in from + 1..=n {
            out.push(Edit::Import { from, to });
        }
    }
    out
}

// ---------------------------------------------------------------------------
// running
// ---------------------------------------------------------------------------

static ORIGINALS: std::sync::RwLock<Option<HashMap<u64, Out>>> = std::sync::RwLock::new(None);

/// Output of an original (unrewritten) source: looked up in the table filled
/// by `precompute` (all cases of one program share it), compiled here otherwise
/// (replay mode).
fn original(files: &[(&str, &str)], src: &str) -> Out {
    let key = vp::report::hash_of(&(files, src));
    if let Ok(g) = ORIGINALS.read() {
        if let Some(o) = g.as_ref().and_then(|m| m.get(&key)) {
            return o.clone();
        }
    }
    rs::compile_files(files, "input.scss", src.as_bytes(), Fmt::EXPANDED)
}

/// Compile every original once (in parallel) and publish the table.
fn precompute(ck: &Check, inputs: &[(Vec<(String, String)>, String)]) {
    use rayon::prelude::*;
    if ck.is_replay() {
        return;
    }
    let table: Vec<(u64, Out)> = ck.install(|| {
        inputs
            .par_iter()
            .map(|(files, src)| {
                let f: Vec<(&str, &str)> = files.iter().map(|(a, b)| (a.as_str(), b.as_str())).collect();
                let key = vp::report::hash_of(&(&f[..], src.as_str()));
                (key, rs::compile_files(&f, "input.scss", src.as_bytes(), Fmt::EXPANDED))
            })
            .collect()
    });
    if let Ok(mut g) = ORIGINALS.write() {
        g.get_or_insert_with(HashMap::new).extend(table);
    }
}

fn panic_site(p: &str) -> String {
    // "src/x.rs:12:5: message" -> "src/x.rs:message"
    let mut parts = p.splitn(4, ':');
    let file = parts.next().unwrap_or("");
    let _l = parts.next();
    let _c = parts.next();
    let msg = parts.next().unwrap_or("").trim();
    let msg: String = msg.chars().take(60).collect();
    format!("{file}:{msg}")
}

/// Relational oracle.  `None` = agreement (verdict given), Some(detail) = disagreement.
fn compare(orig: &Out, new: &Out) -> Result<Verdict, String> {
    match (orig, new) {
        (Out::Css(a), Out::Css(b)) if a == b => Ok(Verdict::pass(a)),
        (Out::Err(_), Out::Err(_)) => Ok(Verdict::Trivial),
        (Out::Panic(a), Out::Panic(b)) if panic_site(a) == panic_site(b) => Ok(Verdict::Trivial),
        _ => Err(format!("original -> {}; rewritten -> {}", orig.short(), new.short())),
    }
}

fn describe_edit(doc: &Doc, e: &Edit) -> String {
    match e {
        Edit::Ws { gap, v } => format!(
            "{:?} inserted between `{}` and `{}`",
            WS[*v as usize],
            doc.toks[*gap].text_or_name(),
            doc.toks.get(gap + 1).map(|t| t.text_or_name()).unwrap_or_default()
        ),
        Edit::Rename { kind, id, mode } => {
            let nm = match kind {
                0 => Nm::Var(*id),
                1 => Nm::Fun(*id),
                _ => Nm::Mix(*id),
            };
            format!(
                "{} `{}` {}",
                ["variable", "function", "mixin"][*kind as usize],
                base_name(nm),
                match mode {
                    -1 => "renamed everywhere".to_string(),
                    -2 => "-/_ swapped everywhere".to_string(),
                    k => format!("-/_ swapped in occurrence {k}"),
                }
            )
        }
        Edit::Extract { site } => format!("value site {site} moved into a variable"),
        Edit::Stmt { bound, v } => format!("`{}` at boundary {bound}", STMTS[*v as usize]),
        Edit::Import { from, to } => format!("top-level statements {from}..{to} moved into a partial"),
    }
}

impl Tok {
    fn text_or_name(&self) -> String {
        match self.nm {
            Nm::No => self.text.clone(),
            Nm::Var(_) => format!("${}", base_name(self.nm)),
            _ => base_name(self.nm).to_string(),
        }
    }
}

/// Compile the program with `edits` applied: (root, partial, output, error kind).
fn eval(doc: &Doc, edits: &[Edit]) -> (String, Option<String>, Out, Option<rs::ErrKind>) {
    let plan = Plan::new(doc, edits);
    let (root, part) = plan.sources();
    let loader = match &part {
        Some(p) => rs::MemLoader::new(&[("_zpart.scss", p.as_str())]),
        None => rs::MemLoader::new(&[]),
    };
    let (new, kind) = rs::compile_with_loader_kind(loader, "input.scss", root.as_bytes(), Fmt::EXPANDED);
    (root, part, new, kind)
}

fn plain_source(doc: &Doc) -> String {
    let none: [Edit; 0] = [];
    Plan::new(doc, &none).render(0, doc.toks.len())
}

fn run_case(c: &Case) -> Verdict {
    let doc = parse_dsl(&prog_dsl(&c.prog));
    let src0 = plain_source(&doc);
    let orig = original(&[], &src0);
    let (root, part, new, kind) = eval(&doc, &c.edits);
    match compare(&orig, &new) {
        Ok(v) => v,
        Err(d) => {
            let what: Vec<String> = c.edits.iter().map(|e| describe_edit(&doc, e)).collect();
            let detail = format!(
                "{}\n  original source: {src0:?}\n  rewritten source: {root:?}{}\n  {d}",
                what.join(" + "),
                part.map(|p| format!("\n  partial _zpart.scss: {p:?}")).unwrap_or_default()
            );
            let sig = if c.edits.len() == 1 {
                classify(&doc, &c.edits[0], &orig, &new, &kind)
            } else {
                classify_multi(&doc, &c.edits, &orig, &new, &kind)
            };
            match sig {
                Some(sig) => Verdict::fail_sig(sig, detail),
                None => Verdict::fail(detail),
            }
        }
    }
}

const LOGIC_OPS: &[&str] = &["<", ">", "<=", ">=", "==", "!=", "and", "or"];

/// Known-defect signatures for one rewrite: it is of exactly the known kind at
/// exactly the known kind of position *and* the wrong behaviour is exactly the
/// known one (where the wrong output can be predicted, it is predicted by a
/// real execution of a variant program that spells the defect out).
fn classify(doc: &Doc, e: &Edit, orig: &Out, new: &Out, kind: &Option<rs::ErrKind>) -> Option<String> {
    let parse_err = orig.css().is_some() && new.is_err() && *kind == Some(rs::ErrKind::Parse);
    match e {
        Edit::Ws { gap, v } => {
            let t = &doc.toks[*gap];
            if t.nm == Nm::No && t.text.ends_with("#{") && parse_err {
                return Some("ws-after-interpolation-open".into());
            }
            if t.nm == Nm::No && t.text == "[" && parse_err {
                return Some("ws-after-bracket-open".into());
            }
            if WS[*v as usize] == "\u{c}" {
                // U+000C is an ordinary character for rsass' parser: the result is
                // exactly what the non-whitespace control character U+000B in the
                // same place gives (WS[8]; never used as a rewrite)
                let (_, _, pred, pkind) = eval(doc, &[Edit::Ws { gap: *gap, v: 8 }]);
                let same = match (&pred, new) {
                    (Out::Css(a), Out::Css(b)) => &a.replace('\u{b}', "\u{c}") == b,
                    (Out::Err(a), Out::Err(b)) => {
                        pkind == *kind
                            && a.lines().next().map(|l| l.replace('\u{b}', "\u{c}"))
                                == b.lines().next().map(String::from)
                    }
                    _ => false,
                };
                return if same && orig.css().is_some() {
                    Some("form-feed-not-whitespace".into())
                } else {
                    None
                };
            }
            if !ws_plain(*v) && orig.css().is_some() && new.css().is_some() {
                // a silent comment next to a relational / logic operator ends the
                // expression: the operator and the rest become list elements,
                // exactly as if the operator had been written `#{"op"}`
                let is_op = |k: usize| {
                    doc.toks
                        .get(k)
                        .is_some_and(|t| t.nm == Nm::No && LOGIC_OPS.contains(&t.text.as_str()))
                };
                let op = if is_op(*gap) {
                    Some(*gap)
                } else if is_op(gap + 1) {
                    Some(gap + 1)
                } else {
                    None
                };
                if let Some(op) = op {
                    let mut d2 = doc.clone();
                    d2.toks[op].text = format!("#{{\"{}\"}}", doc.toks[op].text);
                    let predicted = rs::compile_str(&plain_source(&d2), Fmt::EXPANDED);
                    if &predicted == new {
                        return Some("comment-next-to-logic-operator".into());
                    }
                }
            }
            None
        }
        Edit::Import { from, to } => {
            // the partial's top level is evaluated in a child scope of the global
            // scope whose variables are copied out afterwards: `!global`
            // assignments made while the partial runs are overwritten by the
            // partial's own earlier top-level declaration of the same variable
            if !(orig.css().is_some() && new.css().is_some()) {
                return None;
            }
            let n = doc.toks.len();
            let span = |i: usize| {
                let a = doc.tops[i];
                let b = if i + 1 < doc.tops.len() { doc.tops[i + 1] } else { n };
                (a, b)
            };
            let mut declared = false;
            let mut removed = false;
            let none: [Edit; 0] = [];
            let plan = Plan::new(doc, &none);
            let mut src = String::new();
            for i in 0..doc.tops.len() {
                let (a, b) = span(i);
                let inside = i >= *from && i < *to;
                let is_decl = doc.toks[a].nm == Nm::Var(7)
                    && !doc.toks[a..b].iter().any(|t| t.text == "!default");
                let is_incl = doc.toks[a].text == "@include" && doc.toks[a + 1].nm == Nm::Mix(2);
                if inside && is_decl {
                    declared = true;
                }
                if inside && is_incl && declared {
                    removed = true;
                    continue;
                }
                src.push_str(&plan.render_inner(a, b, false, false));
            }
            if removed && &rs::compile_str(&src, Fmt::EXPANDED) == new {
                return Some("import-global-assignment-lost".into());
            }
            None
        }
        _ => None,
    }
}

/// Several rewrites at once: the failure is known only if it is explained by
/// the known failures of the single rewrites it consists of.
fn classify_multi(doc: &Doc, edits: &[Edit], orig: &Out, new: &Out, kind: &Option<rs::ErrKind>) -> Option<String> {
    let mut failing: Vec<(Option<String>, Out, Option<rs::ErrKind>)> = Vec::new();
    for e in edits {
        let one = [e.clone()];
        let (_, _, n1, k1) = eval(doc, &one);
        if compare(orig, &n1).is_err() {
            failing.push((classify(doc, e, orig, &n1, &k1), n1, k1));
        }
    }
    if failing.is_empty() || failing.iter().any(|f| f.0.is_none()) {
        return None;
    }
    if failing.len() == 1 {
        let (sig, n1, k1) = &failing[0];
        let same = match (n1, new) {
            (Out::Css(a), Out::Css(b)) => a == b,
            (Out::Err(_), Out::Err(_)) => k1 == kind,
            _ => false,
        };
        return if same { sig.clone() } else { None };
    }
    failing[0].0.clone()
}

// ---------------------------------------------------------------------------
// corpus
// ---------------------------------------------------------------------------

#[derive(Clone, Debug, Hash, Serialize, Deserialize)]
struct CorpusCase {
    file: String,
    idx: usize,
    /// "trail-nl" | "trail-comment" | "debug" | "warn" | "import-whole"
    rw: String,
    /// byte position (debug / warn)
    pos: usize,
}

/// Byte positions of top-level statement boundaries (after a `;` or a block's
/// closing `}` at depth 0), found by a brace-depth scan that knows strings,
/// comments, interpolation, parentheses, brackets, url() and escapes.
/// None when the scan meets anything unbalanced.
fn top_level_boundaries(src: &str) -> Option<Vec<usize>> {
    #[derive(PartialEq, Clone, Copy)]
    enum Ctx {
        Block,
        Interp,
        Paren,
        Bracket,
        /// inside a quoted string (the quote char); only as parent of Interp
        Str(u8),
    }
    let b = src.as_bytes();
    let mut stack: Vec<Ctx> = Vec::new();
    let mut out = Vec::new();
    let mut i = 0;
    // returns to string scanning when an interpolation inside a string closes
    let mut in_str: Option<u8> = None;
    while i < b.len() {
        if let Some(q) = in_str {
            match b[i] {
                b'\\' => i += 2,
                c if c == q => {
                    in_str = None;
                    i += 1;
                }
                b'#' if b.get(i + 1) == Some(&b'{') => {
                    stack.push(Ctx::Str(q));
                    stack.push(Ctx::Interp);
                    in_str = None;
                    i += 2;
                }
                b'\n' => return None,
                _ => i += 1,
            }
            continue;
        }
        match b[i] {
            b'\\' => i += 2,
            b'"' | b'\'' => {
                in_str = Some(b[i]);
                i += 1;
            }
            b'/' if b.get(i + 1) == Some(&b'/') => {
                while i < b.len() && b[i] != b'\n' {
                    i += 1;
                }
            }
            b'/' if b.get(i + 1) == Some(&b'*') => {
                let end = src[i + 2..].find("*/")?;
                i += 2 + end + 2;
            }
            b'#' if b.get(i + 1) == Some(&b'{') => {
                stack.push(Ctx::Interp);
                i += 2;
            }
            b'{' => {
                stack.push(Ctx::Block);
                i += 1;
            }
            b'}' => {
                match stack.pop()? {
                    Ctx::Block => {
                        if stack.is_empty() {
                            out.push(i + 1);
                        }
                    }
                    Ctx::Interp => {
                        if let Some(Ctx::Str(q)) = stack.last().copied() {
                            stack.pop();
                            in_str = Some(q);
                        }
                    }
                    _ => return None,
                }
                i += 1;
            }
            b'(' => {
                // url( with an unquoted argument: skip to the closing paren
                let is_url = i >= 3
                    && src.is_char_boundary(i - 3)
                    && src[i - 3..i].eq_ignore_ascii_case("url")
                    && !matches!(b.get(i + 1), Some(b'"' | b'\''));
                if is_url {
                    return None; // keep it simple: do not guess inside url()
                }
                stack.push(Ctx::Paren);
                i += 1;
            }
            b')' => {
                if stack.pop()? != Ctx::Paren {
                    return None;
                }
                i += 1;
            }
            b'[' => {
                stack.push(Ctx::Bracket);
                i += 1;
            }
            b']' => {
                if stack.pop()? != Ctx::Bracket {
                    return None;
                }
                i += 1;
            }
            b';' => {
                if stack.is_empty() {
                    out.push(i + 1);
                }
                i += 1;
            }
            _ => i += 1,
        }
    }
    if !stack.is_empty() || in_str.is_some() {
        return None;
    }
    Some(out)
}

/// Boundaries at which inserting a `@debug` statement is certainly
/// meaning-preserving: not before `@else`, not before a later `@use`/`@forward`
/// (which must precede all other rules), not inside the file's prologue.
fn debug_positions(src: &str) -> Vec<usize> {
    let Some(mut bs) = top_level_boundaries(src) else {
        return vec![];
    };
    if !(src.starts_with('\u{feff}') || src.trim_start().starts_with("@charset")) {
        bs.insert(0, 0);
    }
    let last_mod = ["@use", "@forward", "@charset"]
        .iter()
        .filter_map(|k| src.rfind(k))
        .max();
    bs.retain(|p| {
        if !src.is_char_boundary(*p) {
            return false;
        }
        if let Some(m) = last_mod {
            if *p <= m {
                return false;
            }
        }
        let rest = src[*p..].trim_start();
        // `} @else`, and a `;` directly after a block
        // (`@\\65lse` is an escaped spelling of `@else`)
        !(rest.starts_with("@else") || rest.starts_with("@\\") || rest.starts_with(';'))
    });
    bs
}

/// Does the input end exactly at a top-level statement boundary (so that
/// appending text cannot continue an unterminated statement)?
fn ends_at_boundary(src: &str) -> bool {
    let t = src.trim_end();
    t.is_empty()
        || top_level_boundaries(src).is_some_and(|bs| bs.last() == Some(&t.len()))
}

const PART_NAME: &str = "zz-c35-part";

fn corpus_rewrite(src: &str, c: &CorpusCase) -> Option<(String, Option<String>)> {
    Some(match c.rw.as_str() {
        "trail-nl" => (format!("{src}\n"), None),
        "trail-comment" => (format!("{src}\n// zz\n"), None),
        "debug" | "warn" => {
            if c.pos > src.len() || !src.is_char_boundary(c.pos) {
                return None;
            }
            let stmt = if c.rw == "debug" { "@debug \"zz\";" } else { "@warn \"zz\";" };
            (format!("{}\n{stmt}\n{}", &src[..c.pos], &src[c.pos..]), None)
        }
        "import-whole" => (format!("@import \"{PART_NAME}\";\n"), Some(src.to_string())),
        _ => return None,
    })
}

fn main() {
    let ck = Check::from_args("C35");
    let quick = ck.quick();
    ck.rule("programs = token lists from a statement grammar (definitions needed + top-level statements x body items x value expressions), every program up to the bound x every single rewrite (whitespace / silent comment in every non-glued gap, rename / -_ swap of every name (all or one occurrence), every slash-free value site moved into a variable, @debug/@warn at every statement boundary, every contiguous run of top-level statements moved into an @import-ed partial) and all compatible pairs (thorough); spec corpus x boundary-safe rewrites; distinct = distinct (program, rewrites); outcome = the common CSS output");
    ck.assume("the rewrites applied are meaning-preserving in Sass: whitespace is only inserted at gaps the generator marked insignificant; values moved into variables are slash-free and are declared immediately before the statement that uses them");
    ck.assume("both-error pairs are counted as agreement but as trivial cases");

    // ---- programs
    let all_items: Vec<(u8, u8)> = (0..ITEMS.len())
        .flat_map(|k| {
            (0..VALS.len()).filter(move |v| item_ok(k, *v)).map(move |v| (k as u8, v as u8))
        })
        .collect();
    let red_items: Vec<(u8, u8)> = (0..ITEMS.len())
        .flat_map(|k| VR.iter().filter(move |v| item_ok(k, **v)).map(move |v| (k as u8, *v as u8)))
        .collect();
    // a still smaller item set for pairs of items / tops
    // a still smaller item set for pairs of items / tops: one per statement form
    let small_items: Vec<(u8, u8)> = vec![
        (0, 1), (0, 2), (0, 3), (0, 4), (2, 0), (4, 1), (6, 2), (7, 2), (8, 2), (9, 1), (10, 5), (11, 0),
        (12, 3), (13, 0), (14, 1), (15, 0), (17, 0), (19, 1), (20, 0),
    ];
    for it in &small_items {
        assert!(item_ok(it.0 as usize, it.1 as usize), "small item {it:?}");
    }
    let item_tops: Vec<u8> = (0..TOPS.len()).filter(|k| TOPS[*k].items).map(|k| k as u8).collect();
    let top_named = |n: &str| TOPS.iter().position(|t| t.name == n).expect("top name") as u8;

    let mut progs: Vec<Prog> = Vec::new();
    // layer A: one plain rule, one item: every item kind x value
    for it in if quick { &red_items } else { &all_items } {
        progs.push(Prog { tops: vec![Top { k: 0, v: 0, items: vec![*it] }] });
    }
    if quick {
        // every value in a declaration
        for v in 0..VALS.len() {
            let it = (0u8, v as u8);
            if !red_items.contains(&it) {
                progs.push(Prog { tops: vec![Top { k: 0, v: 0, items: vec![it] }] });
            }
        }
    }
    // layer A2: last declaration without `;`, every value
    for v in 0..VALS.len() {
        progs.push(Prog { tops: vec![Top { k: top_named("rule-nosemi"), v: v as u8, items: vec![] }] });
    }
    // layer B: every other top-level form that takes items x one item
    for k in &item_tops[1..] {
        let its: &[(u8, u8)] = if quick { &small_items } else { &red_items };
        for it in its {
            progs.push(Prog { tops: vec![Top { k: *k, v: 0, items: vec![*it] }] });
        }
    }
    // layer D: one rule, two items
    {
        let red3: Vec<(u8, u8)> = red_items.iter().filter(|it| it.1 >= 1 && it.1 <= 3).cloned().collect();
        let its: &[(u8, u8)] = if quick { &small_items } else { &red3 };
        for a in its {
            for b in its {
                progs.push(Prog { tops: vec![Top { k: 0, v: 0, items: vec![*a, *b] }] });
            }
        }
    }
    // layer E: sequences of top-level statements around a global variable
    {
        let mut tb: Vec<Top> = Vec::new();
        for v in if quick { vec![0u8, 2] } else { vec![0u8, 1, 2, 3, 5] } {
            tb.push(Top { k: top_named("set-global"), v, items: vec![] });
            tb.push(Top { k: top_named("set-default"), v, items: vec![] });
        }
        tb.push(Top { k: top_named("include-global"), v: 0, items: vec![] });
        tb.push(Top { k: top_named("use-global"), v: 0, items: vec![] });
        tb.push(Top { k: top_named("loud-comment"), v: 0, items: vec![] });
        tb.push(Top { k: 0, v: 0, items: vec![(0, 32)] });
        tb.push(Top { k: 0, v: 0, items: vec![(4, 2)] });
        tb.push(Top { k: top_named("media"), v: 0, items: vec![(0, 3)] });
        for a in &tb {
            for b in &tb {
                progs.push(Prog { tops: vec![a.clone(), b.clone()] });
            }
        }
        if !quick {
            for a in &tb {
                for b in &tb {
                    for c in &tb {
                        progs.push(Prog { tops: vec![a.clone(), b.clone(), c.clone()] });
                    }
                }
            }
        }
    }
    for p in &progs {
        for t in &p.tops {
            let tk = &TOPS[t.k as usize];
            assert!(tk.value || t.v == 0, "top {} takes no value", tk.name);
            assert!(tk.items || t.items.is_empty(), "top {} takes no items", tk.name);
        }
    }
    ck.note("programs", serde_json::json!(progs.len()));
    if let Ok(n) = std::env::var("C35_SHOW") {
        // debugging aid: print every rewrite of program number n
        let n: usize = n.parse().unwrap_or(0);
        let p = &progs[n.min(progs.len() - 1)];
        let doc = parse_dsl(&prog_dsl(p));
        println!("PROGRAM {}", plain_source(&doc));
        for e in single_edits(&doc, &[0, 2], &[1, 2], &[0, 1]) {
            let (root, part, new, _) = eval(&doc, &[e.clone()]);
            println!("{e:?}\n   {root:?} {part:?}\n   -> {}", new.short());
        }
        std::process::exit(0);
    }

    let (ws_opt, ws_sp, stmts): (Vec<u8>, Vec<u8>, Vec<u8>) = if quick {
        (vec![0, 2], vec![1, 2], vec![0, 1])
    } else {
        (vec![0, 1, 2, 3, 4, 5, 6], vec![1, 2, 3, 4, 5, 6], vec![0, 1, 2, 3])
    };

    let nprogs = progs.len();
    let src_of = |p: &Prog| (Vec::new(), plain_source(&parse_dsl(&prog_dsl(p))));
    precompute(&ck, &progs.iter().map(src_of).collect::<Vec<_>>());
    if !ck.is_replay() {
        let bad = progs
            .iter()
            .filter(|p| !matches!(original(&[], &plain_source(&parse_dsl(&prog_dsl(p)))), Out::Css(_)))
            .count();
        ck.note("programs_whose_original_is_an_error", serde_json::json!(bad));
    }
    {
        let progs = progs.clone();
        let (wo, wsp, st) = (ws_opt.clone(), ws_sp.clone(), stmts.clone());
        let it = progs.into_iter().flat_map(move |p| {
            let doc = parse_dsl(&prog_dsl(&p));
            let edits = single_edits(&doc, &wo, &wsp, &st);
            edits
                .into_iter()
                .map(move |e| Case { prog: p.clone(), edits: vec![e] })
                .collect::<Vec<_>>()
        });
        ck.run(
            "single-rewrite",
            &format!("{nprogs} programs x every single rewrite x every position"),
            it,
            run_case,
        );
    }

    // ---- form feed (U+000C is whitespace in Sass) in every free gap of the
    // one-rule-one-item programs over the reduced value set
    {
        let pp: Vec<Prog> = red_items
            .iter()
            .map(|it| Prog { tops: vec![Top { k: 0, v: 0, items: vec![*it] }] })
            .collect();
        let np = pp.len();
        precompute(&ck, &pp.iter().map(src_of).collect::<Vec<_>>());
        let it = pp.into_iter().flat_map(|p| {
            let doc = parse_dsl(&prog_dsl(&p));
            single_edits(&doc, &[7], &[7], &[])
                .into_iter()
                .filter(|e| matches!(e, Edit::Ws { .. }))
                .map(move |e| Case { prog: p.clone(), edits: vec![e] })
                .collect::<Vec<_>>()
        });
        ck.run(
            "form-feed",
            &format!("{np} programs x a form feed in every non-glued gap"),
            it,
            run_case,
        );
    }

    // ---- pairs of rewrites (thorough)
    if !quick || ck.is_replay() {
        // programs with one top-level statement and one item over the reduced sets
        let mut pp: Vec<Prog> = Vec::new();
        for it in &red_items {
            pp.push(Prog { tops: vec![Top { k: 0, v: 0, items: vec![*it] }] });
        }
        for k in &item_tops[1..] {
            for it in &small_items {
                pp.push(Prog { tops: vec![Top { k: *k, v: 0, items: vec![*it] }] });
            }
        }
        // and one rule with two items over the first eight small items
        for a in &small_items[..8] {
            for b in &small_items[..8] {
                pp.push(Prog { tops: vec![Top { k: 0, v: 0, items: vec![*a, *b] }] });
            }
        }
        let np = pp.len();
        precompute(&ck, &pp.iter().map(src_of).collect::<Vec<_>>());
        let it = pp.into_iter().flat_map(move |p| {
            let doc = parse_dsl(&prog_dsl(&p));
            let edits = single_edits(&doc, &[0, 2], &[1, 2], &[0]);
            let mut v = Vec::new();
            for i in 0..edits.len() {
                for j in i + 1..edits.len() {
                    if compatible(&doc, &edits[i], &edits[j]) {
                        v.push(Case {
                            prog: p.clone(),
                            edits: vec![edits[i].clone(), edits[j].clone()],
                        });
                    }
                }
            }
            v
        });
        ck.run(
            "rewrite-pairs",
            &format!("{np} programs x all compatible unordered pairs of rewrites"),
            it,
            run_case,
        );
    }

    // ---- triples of rewrites (thorough): one program per construct family
    if !quick || ck.is_replay() {
        let pp: Vec<Prog> = [(0u8, 3u8), (0, 4), (6, 2), (7, 2), (9, 1), (10, 5), (12, 3), (14, 1)]
            .iter()
            .map(|it| Prog { tops: vec![Top { k: 0, v: 0, items: vec![*it] }] })
            .chain([
                Prog { tops: vec![Top { k: top_named("each"), v: 0, items: vec![(0, 2)] }] },
                Prog { tops: vec![Top { k: top_named("include-global"), v: 0, items: vec![] }, Top { k: top_named("use-global"), v: 0, items: vec![] }] },
            ])
            .collect();
        let np = pp.len();
        precompute(&ck, &pp.iter().map(src_of).collect::<Vec<_>>());
        let it = pp.into_iter().flat_map(move |p| {
            let doc = parse_dsl(&prog_dsl(&p));
            let edits = single_edits(&doc, &[2], &[2], &[0]);
            let mut v = Vec::new();
            for i in 0..edits.len() {
                for j in i + 1..edits.len() {
                    if !compatible(&doc, &edits[i], &edits[j]) {
                        continue;
                    }
                    for k in j + 1..edits.len() {
                        if compatible(&doc, &edits[i], &edits[k]) && compatible(&doc, &edits[j], &edits[k]) {
                            v.push(Case {
                                prog: p.clone(),
                                edits: vec![edits[i].clone(), edits[j].clone(), edits[k].clone()],
                            });
                        }
                    }
                }
            }
            v
        });
        ck.run(
            "rewrite-triples",
            &format!("{np} programs x all compatible unordered triples of rewrites (silent comment as the only whitespace variant)"),
            it,
            run_case,
        );
    }

    // ---- spec corpus
    let corpus: Vec<vp::corpus::CorpusInput> = vp::corpus::load()
        .into_iter()
        .filter(|c| c.kind != "mock")
        .collect();
    ck.note("corpus_inputs", serde_json::json!(corpus.len()));
    let index: HashMap<(String, usize), usize> = corpus
        .iter()
        .enumerate()
        .map(|(i, c)| ((c.file.clone(), c.idx), i))
        .collect();
    let mut ccases: Vec<CorpusCase> = Vec::new();
    for c in &corpus {
        let mk = |rw: &str, pos: usize| CorpusCase {
            file: c.file.clone(),
            idx: c.idx,
            rw: rw.to_string(),
            pos,
        };
        if ends_at_boundary(&c.src) {
            ccases.push(mk("trail-comment", 0));
            if !quick {
                ccases.push(mk("trail-nl", 0));
            }
        }
        ccases.push(mk("import-whole", 0));
        let ps = debug_positions(&c.src);
        if quick {
            // first and last boundary
            if let Some(p) = ps.first() {
                ccases.push(mk("debug", *p));
            }
            if ps.len() > 1 {
                ccases.push(mk("warn", ps[ps.len() - 1]));
            }
        } else {
            for p in &ps {
                ccases.push(mk("debug", *p));
                ccases.push(mk("warn", *p));
            }
        }
    }
    let ncorpus = corpus.len();
    precompute(
        &ck,
        &corpus.iter().map(|c| (c.mocks.clone(), c.src.clone())).collect::<Vec<_>>(),
    );
    ck.run(
        "corpus",
        &format!(
            "{ncorpus} spec inputs x {{trailing comment{}, whole input into an @import-ed partial, @debug/@warn at {} top-level statement boundaries}}",
            if quick { "" } else { " / newline" },
            if quick { "the first / last" } else { "all" }
        ),
        ccases.into_iter(),
        |c: &CorpusCase| {
            let Some(i) = index.get(&(c.file.clone(), c.idx)) else {
                return Verdict::fail(format!("corpus input {}#{} not found", c.file, c.idx));
            };
            let inp = &corpus[*i];
            let Some((root, part)) = corpus_rewrite(&inp.src, c) else {
                return Verdict::fail("rewrite not applicable to this input".to_string());
            };
            let mut files: Vec<(&str, &str)> =
                inp.mocks.iter().map(|(a, b)| (a.as_str(), b.as_str())).collect();
            let orig = original(&files, &inp.src);
            let pname = format!("_{PART_NAME}.scss");
            if let Some(p) = &part {
                files.push((pname.as_str(), p.as_str()));
            }
            let new = rs::compile_files(&files, "input.scss", root.as_bytes(), Fmt::EXPANDED);
            match compare(&orig, &new) {
                Ok(v) => v,
                Err(d) => {
                    let detail = format!(
                        "{} at {} of {}#{}\n  original source: {:?}\n  rewritten source: {:?}\n  {d}",
                        c.rw,
                        c.pos,
                        c.file,
                        c.idx,
                        vp::report::truncate(&inp.src, 400),
                        vp::report::truncate(&root, 400)
                    );
                    match classify_corpus(&inp.src, c, &orig, &new) {
                        Some(sig) => Verdict::fail_sig(sig, detail),
                        None => Verdict::fail(detail),
                    }
                }
            }
        },
    );

    ck.finish()
}

fn classify_corpus(_src: &str, _c: &CorpusCase, _orig: &Out, _new: &Out) -> Option<String> {
    None
}
