//! C39 Loader failures are reported, never absorbed.
//!
//! Space: acyclic file graphs of 2..4 in-memory files (`f0.scss` is the root),
//! ten shapes (single edge, the same file twice, chains, fans, triangle, tree,
//! diamond), every edge one of the four load kinds (@import, @use, @forward,
//! meta.load-css), seven spelling patterns (plain `x.scss`, partial `_x.scss`,
//! leaves as `x/index.scss`, leaves as plain `x.css`, extension written in the
//! URL, @import/load-css nested in a style rule, consecutive @imports joined
//! into one statement) so that a load costs between 1 and 10 loader calls, some
//! of them misses.
//! For each graph a fault-free run records the loader calls (N, and which of
//! them found a file).  Then EVERY call index i < N x {lookup Err, read Err at
//! the first read, read Err after one short read} is injected (all pairs
//! i < j x 9 kind pairs in the thorough tier) through `MemLoader::with_fault`.
//! Oracle: the first *effective* fault (a lookup fault anywhere, a read fault
//! at a call that returns a file) makes `Context::transform` return `Err` --
//! no panic, no CSS -- whose text carries the injected I/O error; when no
//! fault is effective (read faults at misses only) the output equals the
//! baseline.  Afterwards a fresh `Context` over a healthy loader reproduces
//! the baseline bytes.

use serde::{Deserialize, Serialize};
use vp::report::{Check, Verdict};
use vp::rs::{self, ErrKind, FaultKind, Fmt, MemLoader, Out};

const IMPORT: u8 = 0;
const USE: u8 = 1;
const FORWARD: u8 = 2;
const LOADCSS: u8 = 3;

#[derive(Clone, Debug, Hash, PartialEq, Eq, Serialize, Deserialize)]
struct Graph {
    /// 0 plain, 1 partials, 2 leaves are `x/index.scss`, 3 leaves are `x.css` (inner files partials),
    /// 4 plain with the extension written in the URL, 5 plain with @import/load-css nested in a
    /// style rule, 6 plain with consecutive @imports joined into one statement, 7 leaves are `x.css`
    /// and are loaded with the suffix written in the URL
    pattern: u8,
    /// per file: (kind, target) in source order; kind 0 @import, 1 @use, 2 @forward, 3 meta.load-css
    files: Vec<Vec<(u8, u8)>>,
}

#[derive(Clone, Debug, Hash, Serialize, Deserialize)]
struct Case {
    graph: Graph,
    /// (loader call index, "lookup" | "read-start" | "read-short")
    faults: Vec<(usize, String)>,
}

fn kind_of(s: &str) -> FaultKind {
    match s {
        "lookup" => FaultKind::Lookup,
        "read-start" => FaultKind::ReadStart,
        _ => FaultKind::ReadAfterShort,
    }
}

const FAULTS: [&str; 3] = ["lookup", "read-start", "read-short"];

fn path_of(g: &Graph, k: usize) -> String {
    if k == 0 {
        return "f0.scss".into();
    }
    let leaf = g.files[k].is_empty();
    match (g.pattern, leaf) {
        (0, _) | (4..=6, _) | (7, false) => format!("f{k}.scss"),
        (1, _) | (3, false) => format!("_f{k}.scss"),
        (2, false) => format!("f{k}.scss"),
        (2, true) => format!("f{k}/index.scss"),
        _ => format!("f{k}.css"),
    }
}

fn source_of(g: &Graph, k: usize) -> String {
    let mut s = String::new();
    if g.files[k].iter().any(|e| e.0 == LOADCSS) {
        s.push_str("@use \"sass:meta\";\n");
    }
    let mut n = 0;
    while n < g.files[k].len() {
        let (kind, to) = g.files[k][n];
        let url = if g.pattern == 4 {
            format!("f{to}.scss")
        } else if g.pattern == 7 && g.files[to as usize].is_empty() {
            // plain-css target named with its suffix (the `@import` fallback path)
            format!("f{to}.css")
        } else {
            format!("f{to}")
        };
        let (open, close) = if g.pattern == 5 { (format!(".w{n} {{ "), " }") } else { (String::new(), "") };
        match kind {
            IMPORT => {
                let mut urls = vec![format!("\"{url}\"")];
                if g.pattern == 6 {
                    while n + 1 < g.files[k].len() && g.files[k][n + 1].0 == IMPORT {
                        n += 1;
                        urls.push(format!("\"f{}\"", g.files[k][n].1));
                    }
                }
                s.push_str(&format!("{open}@import {};{close}\n", urls.join(", ")));
            }
            USE => s.push_str(&format!("@use \"{url}\" as u{n};\n")),
            FORWARD => s.push_str(&format!("@forward \"{url}\";\n")),
            _ => s.push_str(&format!("{open}@include meta.load-css(\"{url}\");{close}\n")),
        }
        n += 1;
    }
    // a marker rule; long enough that a short read (3 bytes) is never the whole file
    s.push_str(&format!(".m{k} {{k: v{k}}}\n"));
    s
}

fn loader_for(g: &Graph) -> MemLoader {
    let n = g.files.len();
    let paths: Vec<String> = (0..n).map(|k| path_of(g, k)).collect();
    let srcs: Vec<String> = (0..n).map(|k| source_of(g, k)).collect();
    let files: Vec<(&str, &str)> = paths.iter().zip(&srcs).map(|(p, s)| (p.as_str(), s.as_str())).collect();
    // acyclic graphs of this size need < 100 calls; the budget only guards the harness
    MemLoader::new(&files).with_budget(2000)
}

struct Run {
    out: Out,
    kind: Option<ErrKind>,
    calls: usize,
    /// per call: did the loader answer with a file?
    found: Vec<bool>,
    budget_hit: bool,
}

fn run(g: &Graph, faults: &[(usize, String)]) -> Run {
    let mut loader = loader_for(g);
    for (i, k) in faults {
        loader = loader.with_fault(*i, kind_of(k));
    }
    let ctl = loader.ctl.clone();
    let root = source_of(g, 0);
    let (out, kind) = rs::compile_with_loader_kind(loader, "f0.scss", root.as_bytes(), Fmt::EXPANDED);
    let found = ctl.log.lock().map(|l| l.iter().map(|(_, f)| f.is_some()).collect()).unwrap_or_default();
    Run {
        out,
        kind,
        calls: ctl.calls.load(std::sync::atomic::Ordering::Relaxed),
        found,
        budget_hit: ctl.budget_hit.load(std::sync::atomic::Ordering::Relaxed) > 0,
    }
}

fn describe(g: &Graph) -> String {
    (0..g.files.len())
        .map(|k| format!("{}: {:?}", path_of(g, k), source_of(g, k)))
        .collect::<Vec<_>>()
        .join("; ")
}

fn site(p: &str) -> String {
    let parts: Vec<&str> = p.split(':').collect();
    parts[..parts.len().min(2)].join(":")
}

fn check(c: &Case) -> Verdict {
    let g = &c.graph;
    let base = run(g, &[]);
    if base.budget_hit {
        return Verdict::fail(format!("fault-free run exceeded the call budget; {}", describe(g)));
    }
    if let Out::Panic(p) = &base.out {
        return Verdict::fail_sig(format!("panic:{}", site(p)), format!("fault-free run panics: {p}; {}", describe(g)));
    }
    // the first effective fault, in call order
    let mut faults = c.faults.clone();
    faults.sort();
    let mut effective: Option<(usize, String)> = None;
    for (i, k) in &faults {
        if *i >= base.calls {
            // not a fault point of this graph (stale replay file?)
            return Verdict::Trivial;
        }
        if k == "lookup" || base.found[*i] {
            effective = Some((*i, k.clone()));
            break;
        }
    }
    let faulty = run(g, &c.faults);
    let what = format!("faults {:?} (N={}, found={:?})", c.faults, base.calls, base.found);
    match &effective {
        None => {
            if faulty.out != base.out {
                return Verdict::fail(format!(
                    "{what}: no fault can take effect (read faults at misses), but the result differs: {} vs baseline {}; {}",
                    faulty.out.short(),
                    base.out.short(),
                    describe(g)
                ));
            }
        }
        Some((i, k)) => match &faulty.out {
            Out::Panic(p) => {
                return Verdict::fail_sig(
                    format!("panic:{}", site(p)),
                    format!("{what}: panic {p}; {}", describe(g)),
                )
            }
            Out::Css(css) => {
                let sig = if css == base.out.css().unwrap_or("\u{0}") {
                    format!("absorbed-{k}-full-css")
                } else {
                    format!("absorbed-{k}-other-css")
                };
                return Verdict::fail_sig(
                    sig,
                    format!(
                        "{what}: the failure at call {i} was absorbed, CSS returned: {:?} (baseline {}); {}",
                        css,
                        base.out.short(),
                        describe(g)
                    ),
                );
            }
            Out::Err(e) => {
                // the reported error is the injected one, not a follow-up of an absorbed failure
                let names_it = e.contains("injected");
                let io_kind = matches!(faulty.kind, Some(ErrKind::Input) | Some(ErrKind::Io));
                if !names_it && !io_kind {
                    return Verdict::fail_sig(
                        format!("absorbed-{k}-other-error"),
                        format!(
                            "{what}: an error is returned but it is not the loader's failure: {:?} (kind {:?}); baseline {}; {}",
                            e,
                            faulty.kind,
                            base.out.short(),
                            describe(g)
                        ),
                    );
                }
                if faulty.calls < i + 1 {
                    return Verdict::fail(format!("{what}: only {} loader calls were made", faulty.calls));
                }
            }
        },
    }
    // a later compilation with a working loader gives the normal output
    let again = run(g, &[]);
    if again.out != base.out || again.calls != base.calls {
        return Verdict::fail(format!(
            "{what}: a fresh Context over a healthy loader gives {} ({} calls), baseline {} ({} calls); {}",
            again.out.short(),
            again.calls,
            base.out.short(),
            base.calls,
            describe(g)
        ));
    }
    Verdict::pass(&(
        effective.is_some(),
        faulty.out.err_head().map(String::from),
        format!("{:?}", faulty.kind),
        faulty.calls,
    ))
}

// ---------- enumeration ----------

fn early(kind: u8) -> bool {
    kind == USE || kind == FORWARD
}

/// Shapes as edge lists (from, to) over files 0..n.
fn shapes() -> Vec<(&'static str, usize, Vec<(u8, u8)>)> {
    vec![
        ("edge", 2, vec![(0, 1)]),
        ("twice", 2, vec![(0, 1), (0, 1)]),
        ("chain3", 3, vec![(0, 1), (1, 2)]),
        ("fan3", 3, vec![(0, 1), (0, 2)]),
        ("triangle", 3, vec![(0, 1), (0, 2), (1, 2)]),
        ("chain4", 4, vec![(0, 1), (1, 2), (2, 3)]),
        ("fan4", 4, vec![(0, 1), (0, 2), (0, 3)]),
        ("tree4", 4, vec![(0, 1), (1, 2), (1, 3)]),
        ("vee4", 4, vec![(0, 1), (0, 2), (2, 3)]),
        ("diamond", 4, vec![(0, 1), (0, 2), (1, 3), (2, 3)]),
    ]
}

fn graphs(quick: bool) -> Vec<Graph> {
    let mut out = Vec::new();
    for (name, n, edges) in shapes() {
        if quick && name == "diamond" {
            continue;
        }
        for kinds in vp::gen::seqs(4, edges.len()) {
            let mut files: Vec<Vec<(u8, u8)>> = vec![vec![]; n];
            for ((from, to), k) in edges.iter().zip(&kinds) {
                files[*from as usize].push((*k as u8, *to));
            }
            // @use/@forward come first in a file (stable)
            for f in files.iter_mut() {
                f.sort_by_key(|e| !early(e.0));
            }
            let nested_ok = files.iter().flatten().any(|e| !early(e.0));
            let joined_ok = files.iter().any(|f| f.windows(2).any(|w| w[0].0 == IMPORT && w[1].0 == IMPORT));
            let all: Vec<u8> = (0u8..8).filter(|p| (*p != 5 || nested_ok) && (*p != 6 || joined_ok)).collect();
            let patterns: Vec<u8> = if quick {
                // two naming patterns per graph, rotating through the applicable ones
                let s = kinds.iter().sum::<usize>();
                let a = all[s % all.len()];
                let b = all[(s + 3) % all.len()];
                if a == b { vec![a] } else { vec![a, b] }
            } else {
                all
            };
            for p in &patterns {
                let g = Graph { pattern: *p, files: files.clone() };
                if !out.contains(&g) {
                    out.push(g);
                }
            }
        }
    }
    out
}

fn main() {
    let ck = Check::from_args("C39");
    let quick = ck.quick() && !ck.is_replay();
    ck.rule("acyclic graphs over f0..f3: 10 shapes x every assignment of the 4 load kinds to the edges x spelling patterns {plain, partial, leaves as index file, leaves as .css, extension in the URL, nested in a style rule, joined @imports, .css leaves loaded with the suffix in the URL}; per graph the fault-free run gives N loader calls; cases = every fault index i < N x {lookup Err, read Err at first read, read Err after a short read} (thorough: also every pair i < j x 9 kind pairs); distinct = distinct (graph, fault set); outcome = (error head, error variant, loader calls made)");
    ck.assume("the call sequence up to the first effective fault is the fault-free one (the compilation is deterministic); a read fault at a call that finds no file cannot take effect");

    let gs = graphs(quick);
    // fault-free runs: N and sanity (deterministic, inside the budget)
    let base: Vec<(usize, bool)> = ck.install(|| {
        gs.iter()
            .map(|g| {
                let r = run(g, &[]);
                (r.calls, matches!(r.out, Out::Css(_)))
            })
            .collect()
    });
    let total_calls: usize = base.iter().map(|b| b.0).sum();
    let css_graphs = base.iter().filter(|b| b.1).count();
    ck.note(
        "graphs",
        serde_json::json!({"graphs": gs.len(), "fault_points": total_calls, "baseline_css": css_graphs, "baseline_error": gs.len() - css_graphs}),
    );

    let mut singles = Vec::new();
    for (g, (n, _)) in gs.iter().zip(&base) {
        for i in 0..*n {
            for k in FAULTS {
                singles.push(Case { graph: g.clone(), faults: vec![(i, k.to_string())] });
            }
        }
    }
    ck.run(
        "single-fault",
        &format!("{} graphs, {} fault points x 3 fault kinds, exhaustive", gs.len(), total_calls),
        singles.into_iter(),
        check,
    );

    // pairs: thorough = all graphs; quick = the graphs with <= 3 files
    let pair_graphs: Vec<(&Graph, usize)> = gs
        .iter()
        .zip(&base)
        .filter(|(g, _)| !quick || g.files.iter().map(Vec::len).sum::<usize>() <= 2)
        .map(|(g, b)| (g, b.0))
        .collect();
    let npg = pair_graphs.len();
    let pairs = pair_graphs.into_iter().flat_map(|(g, n)| {
        let g = g.clone();
        (0..n).flat_map(move |i| {
            let g = g.clone();
            ((i + 1)..n).flat_map(move |j| {
                let g = g.clone();
                FAULTS.iter().flat_map(move |ki| {
                    let g = g.clone();
                    FAULTS.iter().map(move |kj| Case {
                        graph: g.clone(),
                        faults: vec![(i, ki.to_string()), (j, kj.to_string())],
                    })
                })
            })
        })
    });
    ck.run(
        "fault-pairs",
        &format!("{npg} graphs{}, every pair of fault points i < j x 9 kind pairs", if quick { " (<= 2 edges)" } else { "" }),
        pairs,
        check,
    );

    ck.finish()
}
