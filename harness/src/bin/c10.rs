//! C10 Numbers are printed as correctly rounded decimals.
//!
//! Space: a rounding-boundary grammar of decimal literals (sign x integer part x
//! fraction = prefix . filler . tail placed at the rounding digit) plus special
//! doubles, x precision 0..=20 x both styles; through `Number::format` (exact f64
//! given by bits) and through declarations in compiled stylesheets.
//! Oracle (R-num): exact decimal arithmetic on strings; accepts the correct
//! rounding of the exact binary value *or* of the shortest round-trip decimal
//! (resp. the literal as written), ties in either direction.

use serde::{Deserialize, Serialize};
use vp::report::{Check, Verdict};
use vp::rs::{self, Fmt, Out};

#[derive(Clone, Debug, Hash, Serialize, Deserialize)]
struct ApiCase {
    /// f64 bits
    bits: u64,
    precision: usize,
    compressed: bool,
}

#[derive(Clone, Debug, Hash, Serialize, Deserialize)]
struct DeclCase {
    literal: String,
    precision: usize,
    compressed: bool,
}

// ---------- R-num: decimal strings ----------

/// Split a plain non-negative decimal string into (int digits, frac digits).
fn split(s: &str) -> (String, String) {
    match s.split_once('.') {
        Some((i, f)) => (i.to_string(), f.to_string()),
        None => (s.to_string(), String::new()),
    }
}

fn incr(digits: &mut Vec<u8>) {
    // digits are ASCII; increment as a decimal integer
    let mut i = digits.len();
    loop {
        if i == 0 {
            digits.insert(0, b'1');
            return;
        }
        i -= 1;
        if digits[i] == b'9' {
            digits[i] = b'0';
        } else {
            digits[i] += 1;
            return;
        }
    }
}

/// All acceptable roundings of the non-negative decimal `s` to `d` fraction
/// digits: one value, or both neighbours on an exact tie.  Results are
/// (int, frac) with frac of length d.
fn round_dec(s: &str, d: usize) -> Vec<(String, String)> {
    let (int, frac) = split(s);
    let mut f = frac.clone();
    while f.len() < d + 1 {
        f.push('0');
    }
    let kept = &f[..d];
    let rest = &f[d..];
    let first = rest.as_bytes()[0];
    let tail_nonzero = rest.as_bytes()[1..].iter().any(|c| *c != b'0');
    let down = (int.clone(), kept.to_string());
    let up = {
        let mut all: Vec<u8> = int.bytes().chain(kept.bytes()).collect();
        let il = int.len();
        incr(&mut all);
        let il2 = all.len() - d.min(all.len());
        let _ = il;
        let s = String::from_utf8(all).unwrap();
        (s[..il2].to_string(), s[il2..].to_string())
    };
    if first > b'5' || (first == b'5' && tail_nonzero) {
        vec![up]
    } else if first < b'5' {
        vec![down]
    } else {
        vec![down, up]
    }
}

/// Canonical numeral: strip trailing fraction zeros, sign only for non-zero,
/// leading zero dropped in compressed style.
fn canon(neg: bool, int: &str, frac: &str, compressed: bool) -> String {
    let frac = frac.trim_end_matches('0');
    let int = {
        let t = int.trim_start_matches('0');
        if t.is_empty() {
            "0"
        } else {
            t
        }
    };
    let zero = int == "0" && frac.is_empty();
    let mut s = String::new();
    if neg && !zero {
        s.push('-');
    }
    if !(compressed && int == "0" && !frac.is_empty()) {
        s.push_str(int);
    }
    if !frac.is_empty() {
        s.push('.');
        s.push_str(frac);
    }
    s
}

fn int_digits(int: &str) -> usize {
    let t = int.trim_start_matches('0');
    t.len()
}

/// The digit budget of the statement: min(precision, 16 - integer digits).
fn spec_digits(int: &str, precision: usize) -> usize {
    precision.min(16usize.saturating_sub(int_digits(int)))
}

/// rsass' own digit rule (known-defect signature `digit-count`):
/// max(1, min(precision, 16 - ceil(log10(whole)))) fraction digits.
fn rsass_digits(whole: f64, precision: usize) -> usize {
    let l = whole.log10().ceil();
    let l = if l.is_finite() && l > 0.0 { l as usize } else { 0 };
    precision.min(16usize.saturating_sub(l)).max(1)
}

/// Acceptable outputs for value `x` (finite) whose intended decimal is
/// `decimal` (shortest repr or literal), at `digits` fraction digits.
fn candidates(x: f64, decimal: &str, digits: usize, compressed: bool) -> Vec<String> {
    let neg = x.is_sign_negative();
    let exact = format!("{:.1080}", x.abs());
    let mut out = Vec::new();
    let shortest = format!("{}", x.abs());
    for src in [exact.as_str(), decimal, shortest.as_str()] {
        for (i, f) in round_dec(src, digits) {
            let c = canon(neg, &i, &f, compressed);
            if !out.contains(&c) {
                out.push(c);
            }
        }
    }
    out
}

fn structural(text: &str, digits: usize) -> Result<(), String> {
    let t = text.strip_prefix('-').unwrap_or(text);
    if t.is_empty() || !t.bytes().all(|c| c.is_ascii_digit() || c == b'.') {
        return Err(format!("not a plain decimal numeral: {text:?}"));
    }
    if t.matches('.').count() > 1 {
        return Err(format!("two decimal points: {text:?}"));
    }
    if let Some((_, f)) = t.split_once('.') {
        if f.is_empty() || f.ends_with('0') {
            return Err(format!("trailing fractional zeros or bare point: {text:?}"));
        }
        if f.len() > digits {
            return Err(format!(
                "{} fraction digits, allowed {digits}: {text:?}",
                f.len()
            ));
        }
    }
    if text == "-0" {
        return Err("negative zero".into());
    }
    Ok(())
}

fn judge(x: f64, decimal: &str, precision: usize, compressed: bool, got: &str) -> Verdict {
    let (int, _) = split(decimal);
    let d = spec_digits(&int, precision);
    let cands = candidates(x, decimal, d, compressed);
    let st = structural(got, d);
    if st.is_ok() && cands.iter().any(|c| c == got) {
        return Verdict::pass(got);
    }
    // known-defect signature `excess digits`: the numeral carries more fraction
    // digits than the statement allows (rsass' own digit rule), but rounding the
    // *printed numeral* to the allowed digit count gives an acceptable answer.
    let d2 = rsass_digits(x.abs().trunc(), precision);
    if d2 > d && structural(got, d2).is_ok() {
        let got_abs = got.trim_start_matches('-');
        let got_abs = if got_abs.starts_with('.') {
            format!("0{got_abs}")
        } else {
            got_abs.to_string()
        };
        let neg = got.starts_with('-');
        let rerounded: Vec<String> = round_dec(&got_abs, d)
            .into_iter()
            .map(|(i, f)| canon(neg, &i, &f, compressed))
            .collect();
        if rerounded.iter().any(|r| cands.contains(r)) {
            let sig = if precision == 0 {
                "excess-digits-precision0"
            } else {
                "excess-digits-17-significant"
            };
            return Verdict::fail_sig(
                sig,
                format!("x={x:e} decimal={decimal} p={precision}: got {got:?} ({d2} fraction digits by rsass' rule), expected one of {cands:?} ({d} digits)"),
            );
        }
    }
    // known-defect signature `accumulated error`: with >= 14 fraction digits the
    // repeated `frac * 10` digit extraction is off by exactly one unit in the
    // last allowed place.
    if d >= 14 && st.is_ok() {
        let units = |t: &str| -> Option<i128> {
            let t = t.trim_start_matches('-');
            let (i, f) = split(t);
            let mut f = f;
            while f.len() < d {
                f.push('0');
            }
            format!("{}{}", if i.is_empty() { "0" } else { &i }, f).parse::<i128>().ok()
        };
        if let Some(g) = units(got) {
            if cands
                .iter()
                .filter_map(|c| units(c))
                .any(|c| (c - g).abs() == 1)
                && cands.iter().all(|c| c.starts_with('-') == got.starts_with('-'))
            {
                return Verdict::fail_sig(
                    "accumulated-error-last-place",
                    format!("x={x:e} decimal={decimal} p={precision}: got {got:?}, expected one of {cands:?} ({d} digits): off by one unit in the last place"),
                );
            }
        }
    }
    Verdict::fail(format!(
        "x={x:e} decimal={decimal} p={precision} compressed={compressed}: got {got:?}, expected one of {cands:?} ({d} digits){}",
        st.err().map(|e| format!("; {e}")).unwrap_or_default()
    ))
}

// ---------- enumeration ----------

fn fractions(precisions: &[usize], quick: bool) -> Vec<(usize, String)> {
    let prefixes: &[&str] = if quick {
        &["", "0", "9", "19"]
    } else {
        &["", "0", "1", "9", "00", "09", "19", "90", "99"]
    };
    let tails: &[&str] = &["4", "5", "49", "50", "51", "95", "99", "99999999", "500000001", "499999999"];
    let mut out = Vec::new();
    for &p in precisions {
        for pre in prefixes {
            if pre.len() > p {
                continue;
            }
            for fill in ['0', '9', '4'] {
                let mut body = pre.to_string();
                for _ in 0..(p - pre.len()) {
                    body.push(fill);
                }
                for t in tails {
                    out.push((p, format!("{body}{t}")));
                }
            }
        }
    }
    // all short fractions over {0,1,4,5,9}
    let digs = ['0', '1', '4', '5', '9'];
    let maxlen = if quick { 3 } else { 5 };
    for len in 1..=maxlen {
        for s in vp::gen::seqs(5, len) {
            let f: String = s.iter().map(|i| digs[*i]).collect();
            out.push((len.saturating_sub(1), f));
        }
    }
    out
}

const INTS: &[&str] = &[
    "0",
    "1",
    "9",
    "10",
    "99",
    "100",
    "12345",
    "999999",
    "1000000000000000",
    "9999999999999999",
    "100000000000000000000",
];

fn precisions_for(p: usize, quick: bool) -> Vec<usize> {
    let mut v = vec![p, p.saturating_sub(1), (p + 1).min(20), 0, 10, 20];
    if !quick {
        v.extend([1, 5, 15, 16, 17]);
    }
    v.sort();
    v.dedup();
    v
}

fn special_doubles() -> Vec<f64> {
    let mut v = vec![
        1.0 / 3.0,
        2.0 / 3.0,
        1.0 / 7.0,
        0.1 + 0.2,
        5e-324,
        2.2250738585072014e-308,
        1e-7,
        1e-10,
        1e-11,
        1.5e-10,
        f64::MAX,
        9007199254740992.0,
        9007199254740993.0,
        9007199254740991.0,
        4503599627370497.5,
        4503599627370496.5,
        1e15 + 0.3,
        1e16,
        1e21,
        1e22,
        123456789.123456789,
        0.5,
        1.5,
        2.5,
        0.125,
        0.375,
        0.49,
        0.049,
        99.5,
        999.9995,
        0.99999999995,
        0.999999999949,
        std::f64::consts::PI,
        std::f64::consts::E,
        0.0,
    ];
    let n = v.len();
    for i in 0..n {
        v.push(-v[i]);
    }
    v
}

fn main() {
    let ck = Check::from_args("C10");
    let quick = ck.quick();
    ck.rule("decimal literals = sign x integer part x (prefix.filler.tail placed at the rounding digit | all short fractions over {0,1,4,5,9}) and special doubles; x precisions {p-1,p,p+1,0,10,20,..} x {expanded,compressed}; distinct = distinct (value, precision, style); outcome = printed numeral");
    ck.assume("Rust's {:.N} float formatting and f64 parsing are exact / correctly rounded (used by the reference model)");

    let all_p: Vec<usize> = (0..=20).collect();
    let fr = fractions(&all_p, quick);

    // ---- section 1: Number::format on exact doubles
    let mut api: Vec<ApiCase> = Vec::new();
    {
        let mut seen = std::collections::HashSet::new();
        let mut push = |x: f64, p: usize, api: &mut Vec<ApiCase>| {
            for c in [false, true] {
                if seen.insert((x.to_bits(), p, c)) {
                    api.push(ApiCase {
                        bits: x.to_bits(),
                        precision: p,
                        compressed: c,
                    });
                }
            }
        };
        for (p, f) in &fr {
            for int in INTS {
                for neg in [false, true] {
                    let lit = format!("{}{int}.{f}", if neg { "-" } else { "" });
                    let x: f64 = lit.parse().unwrap();
                    for q in precisions_for(*p, quick) {
                        push(x, q, &mut api);
                    }
                }
            }
        }
        for x in special_doubles() {
            for q in 0..=20 {
                push(x, q, &mut api);
            }
        }
    }
    ck.run(
        "format-api",
        "precision 0..=20, both styles, boundary grammar",
        api.into_iter(),
        |c: &ApiCase| {
            let x = f64::from_bits(c.bits);
            let fmt = Fmt::new(c.compressed, c.precision).to_rsass();
            let got = match rs::guard(|| {
                rsass::value::Number::from(x).format(fmt).to_string()
            }) {
                Ok(s) => s,
                Err(p) => return Verdict::fail_sig(format!("panic:{p}"), format!("panic {p}")),
            };
            vp::report::EXECS.fetch_add(1, std::sync::atomic::Ordering::Relaxed);
            let shortest = format!("{}", x.abs());
            judge(x, &shortest, c.precision, c.compressed, &got)
        },
    );

    // ---- section 2: non-finite through the API
    #[derive(Clone, Debug, Hash, Serialize, Deserialize)]
    struct NfCase {
        which: String,
        precision: usize,
        compressed: bool,
    }
    let mut nf = Vec::new();
    for w in ["inf", "-inf", "nan"] {
        for p in 0..=20 {
            for c in [false, true] {
                nf.push(NfCase {
                    which: w.into(),
                    precision: p,
                    compressed: c,
                });
            }
        }
    }
    ck.run("non-finite", "3 values x precision 0..=20 x styles; API and declaration", nf.into_iter(), |c: &NfCase| {
        let (x, want, expr) = match c.which.as_str() {
            "inf" => (f64::INFINITY, "infinity", "math.div(1,0)"),
            "-inf" => (f64::NEG_INFINITY, "-infinity", "math.div(-1,0)"),
            _ => (f64::NAN, "NaN", "math.div(0,0)"),
        };
        let f = Fmt::new(c.compressed, c.precision);
        let got = rs::guard(|| rsass::value::Number::from(x).format(f.to_rsass()).to_string());
        if got.as_deref() != Ok(want) {
            return Verdict::fail(format!("Number::format gave {got:?}, expected {want}"));
        }
        let out = rs::eval_expr("@use \"sass:math\";", expr, f);
        let want_css = format!("calc({want})");
        match &out {
            Out::Css(v) if *v == want_css => Verdict::pass(&(got, v)),
            o => Verdict::fail(format!("declaration value of {expr}: {} expected {want_css}", o.short())),
        }
    });

    // ---- section 3: literals through compiled declarations
    let mut decl: Vec<DeclCase> = Vec::new();
    {
        let ints: &[&str] = if quick { &INTS[..7] } else { INTS };
        let stride = if quick { 7 } else { 1 };
        for (k, (p, f)) in fr.iter().enumerate() {
            if k % stride != 0 {
                continue;
            }
            for int in ints {
                for neg in [false, true] {
                    let lit = format!("{}{int}.{f}", if neg { "-" } else { "" });
                    for q in precisions_for(*p, true) {
                        for c in [false, true] {
                            decl.push(DeclCase {
                                literal: lit.clone(),
                                precision: q,
                                compressed: c,
                            });
                        }
                    }
                }
            }
        }
    }
    ck.run(
        "declaration",
        "literal in `a{b:<lit>}`; same grammar (strided in quick tier)",
        decl.into_iter(),
        |c: &DeclCase| {
            let f = Fmt::new(c.compressed, c.precision);
            let out = rs::eval_expr("", &c.literal, f);
            let got = match &out {
                Out::Css(v) => v.clone(),
                Out::Panic(p) => {
                    return Verdict::fail_sig(format!("panic:{p}"), format!("panic {p}"))
                }
                Out::Err(e) => return Verdict::fail(format!("literal rejected: {e}")),
            };
            let x: f64 = c.literal.parse().unwrap();
            let lit_abs = c.literal.trim_start_matches('-');
            judge(x, lit_abs, c.precision, c.compressed, &got)
        },
    );

    ck.finish()
}
