//! C32 Color adjustment functions obey their laws.
//!
//! Space: an in-range colour palette (short-hex grid, names, alpha hex,
//! fractional rgb grid, hsl grid incl. grey / black / white, hwb grid incl.
//! w+b >= 100%, each also with alpha) x every law instance of the statement:
//!  * `mix(c, c, w) == c` for the default and boundary weights;
//!  * invert and complement applied twice, adjust-hue by whole turns, there and
//!    back, and twice 180deg, all `== c`;
//!  * color.adjust / scale / change (module and global names) with identity
//!    arguments, channel by channel and per colour space, `== c`;
//!  * lighten/darken, saturate/desaturate, opacify/transparentize (fade-in/out):
//!    the channel moves by exactly the amount, clamped; the inverse function
//!    with the same amount restores `c` when nothing was clamped (otherwise the
//!    channel follows the two clamped moves);
//!  * grayscale: saturation 0, lightness and alpha unchanged.
//!
//! Oracle: the laws themselves (relations between real executions: `==`
//! in both operand orders and the channel functions) plus clamp arithmetic in
//! f64.  The R-color decoder below only reads the result colours back from
//! their rgb text in order to *classify* failures into known-defect signatures.

#![allow(dead_code)]

use serde::{Deserialize, Serialize};
use std::collections::BTreeMap;
use vp::report::{Check, Verdict};
use vp::rs::{self, Fmt, Out};

// ======================= R-color: the reference model =======================

/// CSS named colours (CSS Color 4 section 6.1), typed from the specification.
const NAMES: &[(&str, &str)] = &[
    ("aliceblue", "f0f8ff"), ("antiquewhite", "faebd7"), ("aqua", "00ffff"),
    ("aquamarine", "7fffd4"), ("azure", "f0ffff"), ("beige", "f5f5dc"),
    ("bisque", "ffe4c4"), ("black", "000000"), ("blanchedalmond", "ffebcd"),
    ("blue", "0000ff"), ("blueviolet", "8a2be2"), ("brown", "a52a2a"),
    ("burlywood", "deb887"), ("cadetblue", "5f9ea0"), ("chartreuse", "7fff00"),
    ("chocolate", "d2691e"), ("coral", "ff7f50"), ("cornflowerblue", "6495ed"),
    ("cornsilk", "fff8dc"), ("crimson", "dc143c"), ("cyan", "00ffff"),
    ("darkblue", "00008b"), ("darkcyan", "008b8b"), ("darkgoldenrod", "b8860b"),
    ("darkgray", "a9a9a9"), ("darkgreen", "006400"), ("darkgrey", "a9a9a9"),
    ("darkkhaki", "bdb76b"), ("darkmagenta", "8b008b"), ("darkolivegreen", "556b2f"),
    ("darkorange", "ff8c00"), ("darkorchid", "9932cc"), ("darkred", "8b0000"),
    ("darksalmon", "e9967a"), ("darkseagreen", "8fbc8f"), ("darkslateblue", "483d8b"),
    ("darkslategray", "2f4f4f"), ("darkslategrey", "2f4f4f"), ("darkturquoise", "00ced1"),
    ("darkviolet", "9400d3"), ("deeppink", "ff1493"), ("deepskyblue", "00bfff"),
    ("dimgray", "696969"), ("dimgrey", "696969"), ("dodgerblue", "1e90ff"),
    ("firebrick", "b22222"), ("floralwhite", "fffaf0"), ("forestgreen", "228b22"),
    ("fuchsia", "ff00ff"), ("gainsboro", "dcdcdc"), ("ghostwhite", "f8f8ff"),
    ("gold", "ffd700"), ("goldenrod", "daa520"), ("gray", "808080"),
    ("green", "008000"), ("greenyellow", "adff2f"), ("grey", "808080"),
    ("honeydew", "f0fff0"), ("hotpink", "ff69b4"), ("indianred", "cd5c5c"),
    ("indigo", "4b0082"), ("ivory", "fffff0"), ("khaki", "f0e68c"),
    ("lavender", "e6e6fa"), ("lavenderblush", "fff0f5"), ("lawngreen", "7cfc00"),
    ("lemonchiffon", "fffacd"), ("lightblue", "add8e6"), ("lightcoral", "f08080"),
    ("lightcyan", "e0ffff"), ("lightgoldenrodyellow", "fafad2"), ("lightgray", "d3d3d3"),
    ("lightgreen", "90ee90"), ("lightgrey", "d3d3d3"), ("lightpink", "ffb6c1"),
    ("lightsalmon", "ffa07a"), ("lightseagreen", "20b2aa"), ("lightskyblue", "87cefa"),
    ("lightslategray", "778899"), ("lightslategrey", "778899"), ("lightsteelblue", "b0c4de"),
    ("lightyellow", "ffffe0"), ("lime", "00ff00"), ("limegreen", "32cd32"),
    ("linen", "faf0e6"), ("magenta", "ff00ff"), ("maroon", "800000"),
    ("mediumaquamarine", "66cdaa"), ("mediumblue", "0000cd"), ("mediumorchid", "ba55d3"),
    ("mediumpurple", "9370db"), ("mediumseagreen", "3cb371"), ("mediumslateblue", "7b68ee"),
    ("mediumspringgreen", "00fa9a"), ("mediumturquoise", "48d1cc"), ("mediumvioletred", "c71585"),
    ("midnightblue", "191970"), ("mintcream", "f5fffa"), ("mistyrose", "ffe4e1"),
    ("moccasin", "ffe4b5"), ("navajowhite", "ffdead"), ("navy", "000080"),
    ("oldlace", "fdf5e6"), ("olive", "808000"), ("olivedrab", "6b8e23"),
    ("orange", "ffa500"), ("orangered", "ff4500"), ("orchid", "da70d6"),
    ("palegoldenrod", "eee8aa"), ("palegreen", "98fb98"), ("paleturquoise", "afeeee"),
    ("palevioletred", "db7093"), ("papayawhip", "ffefd5"), ("peachpuff", "ffdab9"),
    ("peru", "cd853f"), ("pink", "ffc0cb"), ("plum", "dda0dd"),
    ("powderblue", "b0e0e6"), ("purple", "800080"), ("rebeccapurple", "663399"),
    ("red", "ff0000"), ("rosybrown", "bc8f8f"), ("royalblue", "4169e1"),
    ("saddlebrown", "8b4513"), ("salmon", "fa8072"), ("sandybrown", "f4a460"),
    ("seagreen", "2e8b57"), ("seashell", "fff5ee"), ("sienna", "a0522d"),
    ("silver", "c0c0c0"), ("skyblue", "87ceeb"), ("slateblue", "6a5acd"),
    ("slategray", "708090"), ("slategrey", "708090"), ("snow", "fffafa"),
    ("springgreen", "00ff7f"), ("steelblue", "4682b4"), ("tan", "d2b48c"),
    ("teal", "008080"), ("thistle", "d8bfd8"), ("tomato", "ff6347"),
    ("turquoise", "40e0d0"), ("violet", "ee82ee"), ("wheat", "f5deb3"),
    ("white", "ffffff"), ("whitesmoke", "f5f5f5"), ("yellow", "ffff00"),
    ("yellowgreen", "9acd32"),
];

fn name_hex(n: &str) -> Option<&'static str> {
    let n = n.to_ascii_lowercase();
    NAMES.iter().find(|(k, _)| *k == n).map(|(_, v)| *v)
}

/// CSS Color 4 `hslToRgb`; h in degrees, s and l as fractions; result as
/// fractions, not clipped.
fn hsl_to_rgb(h: f64, s: f64, l: f64) -> [f64; 3] {
    let mut h = h % 360.0;
    if h < 0.0 {
        h += 360.0;
    }
    let f = |n: f64| {
        let k = (n + h / 30.0) % 12.0;
        let a = s * l.min(1.0 - l);
        l - a * (-1f64).max((k - 3.0).min(9.0 - k).min(1.0))
    };
    [f(0.0), f(8.0), f(4.0)]
}

/// CSS Color 4 `rgbToHsl`; fractions in, (degrees, fraction, fraction) out.
fn rgb_to_hsl(r: f64, g: f64, b: f64) -> [f64; 3] {
    let max = r.max(g).max(b);
    let min = r.min(g).min(b);
    let l = (min + max) / 2.0;
    let d = max - min;
    let (mut h, mut s) = (0.0, 0.0);
    if d != 0.0 {
        s = if l == 0.0 || l == 1.0 {
            0.0
        } else {
            (max - l) / l.min(1.0 - l)
        };
        h = if max == r {
            (g - b) / d + if g < b { 6.0 } else { 0.0 }
        } else if max == g {
            (b - r) / d + 2.0
        } else {
            (r - g) / d + 4.0
        };
        h *= 60.0;
    }
    if h >= 360.0 {
        h -= 360.0;
    }
    [h, s, l]
}

/// CSS Color 4 `hwbToRgb`; w, b fractions.
fn hwb_to_rgb(h: f64, w: f64, b: f64) -> [f64; 3] {
    if w + b >= 1.0 {
        let g = w / (w + b);
        return [g, g, g];
    }
    let rgb = hsl_to_rgb(h, 1.0, 0.5);
    [
        rgb[0] * (1.0 - w - b) + w,
        rgb[1] * (1.0 - w - b) + w,
        rgb[2] * (1.0 - w - b) + w,
    ]
}

fn rgb_to_hwb(r: f64, g: f64, b: f64) -> [f64; 3] {
    let h = rgb_to_hsl(r, g, b)[0];
    [h, r.min(g).min(b), 1.0 - r.max(g).max(b)]
}

#[derive(Clone, Copy, Debug, PartialEq, Eq)]
enum Space {
    Hex,
    Name,
    Rgb,
    Hsl,
    Hwb,
}

/// A decoded colour: the notation, the three channels *as written* (rgb on the
/// 0..255 scale, hue in degrees, the others in percent; nothing clamped), the
/// alpha as written, and the denoted rgba (r,g,b on 0..255, all clipped).
#[derive(Clone, Debug)]
struct Dec {
    space: Space,
    raw: [f64; 3],
    rgba: [f64; 4],
}

/// How out-of-range components are read.
#[derive(Clone, Copy, Debug)]
struct Reading {
    /// clamp hsl saturation and lightness to [0,100]% (else: only s >= 0, CSS Color 4)
    clamp_sl: bool,
    /// clamp negative hwb whiteness/blackness to 0
    clamp_wb_neg: bool,
    /// clamp hwb whiteness/blackness to <= 100% before normalising the sum
    clamp_wb_top: bool,
    /// convert hwb through hsl with the saturation clamped at 0 (rsass' path; differs
    /// from the CSS formula only for out-of-range whiteness/blackness)
    hwb_via_hsl: bool,
}

/// The statement's reading: out-of-range components are clamped.
const STATEMENT: Reading = Reading {
    clamp_sl: true,
    clamp_wb_neg: true,
    clamp_wb_top: false,
    hwb_via_hsl: false,
};
const STATEMENT_B: Reading = Reading {
    clamp_wb_top: true,
    ..STATEMENT
};
/// CSS Color 4: only s >= 0 is enforced, the rgb result is clipped to the gamut.
const CSS4: Reading = Reading {
    clamp_sl: false,
    clamp_wb_neg: false,
    clamp_wb_top: false,
    hwb_via_hsl: false,
};
/// rsass' behaviour (known defect): nothing clamped in hsl/hwb space except
/// s >= 0, hwb converted through hsl.
const UNCLAMPED: Reading = Reading {
    hwb_via_hsl: true,
    ..CSS4
};

#[derive(Clone, Debug)]
enum Tk {
    Num(f64, String),
    Word(String),
    Slash,
}

fn lex_number(s: &str) -> Option<(f64, String)> {
    let b = s.as_bytes();
    let mut i = 0;
    if i < b.len() && (b[i] == b'+' || b[i] == b'-') {
        i += 1;
    }
    let ds = i;
    while i < b.len() && b[i].is_ascii_digit() {
        i += 1;
    }
    if i < b.len() && b[i] == b'.' {
        i += 1;
        while i < b.len() && b[i].is_ascii_digit() {
            i += 1;
        }
    }
    if !s[ds..i].bytes().any(|c| c.is_ascii_digit()) {
        return None;
    }
    // exponent only when followed by digits
    if i < b.len() && (b[i] == b'e' || b[i] == b'E') {
        let mut j = i + 1;
        if j < b.len() && (b[j] == b'+' || b[j] == b'-') {
            j += 1;
        }
        if j < b.len() && b[j].is_ascii_digit() {
            while j < b.len() && b[j].is_ascii_digit() {
                j += 1;
            }
            i = j;
        }
    }
    let v: f64 = s[..i].parse().ok()?;
    Some((v, s[i..].to_ascii_lowercase()))
}

fn hex_bytes(h: &str) -> Option<[f64; 4]> {
    if !h.bytes().all(|c| c.is_ascii_hexdigit()) {
        return None;
    }
    let d: Vec<u32> = h.chars().filter_map(|c| c.to_digit(16)).collect();
    let v = match d.len() {
        3 => [d[0] * 17, d[1] * 17, d[2] * 17, 255],
        4 => [d[0] * 17, d[1] * 17, d[2] * 17, d[3] * 17],
        6 => [d[0] * 16 + d[1], d[2] * 16 + d[3], d[4] * 16 + d[5], 255],
        8 => [
            d[0] * 16 + d[1],
            d[2] * 16 + d[3],
            d[4] * 16 + d[5],
            d[6] * 16 + d[7],
        ],
        _ => return None,
    };
    Some([v[0] as f64, v[1] as f64, v[2] as f64, v[3] as f64 / 255.0])
}

fn clip(x: f64, hi: f64) -> f64 {
    x.max(0.0).min(hi)
}

/// Decode one CSS colour token (also the Sass-only `rgba(<color>, <alpha>)`).
fn decode(text: &str, rd: Reading) -> Result<Dec, String> {
    let t = text.trim();
    if let Some(h) = t.strip_prefix('#') {
        let v = hex_bytes(h).ok_or_else(|| format!("bad hex colour {t:?}"))?;
        return Ok(Dec {
            space: Space::Hex,
            raw: [v[0], v[1], v[2]],
            rgba: v,
        });
    }
    let Some(open) = t.find('(') else {
        let lower = t.to_ascii_lowercase();
        if lower == "transparent" {
            return Ok(Dec {
                space: Space::Name,
                raw: [0.0; 3],
                rgba: [0.0; 4],
            });
        }
        let h = name_hex(&lower).ok_or_else(|| format!("not a colour: {t:?}"))?;
        let v = hex_bytes(h).ok_or("bad table")?;
        return Ok(Dec {
            space: Space::Name,
            raw: [v[0], v[1], v[2]],
            rgba: v,
        });
    };
    if !t.ends_with(')') {
        return Err(format!("unbalanced: {t:?}"));
    }
    let fname = t[..open].trim().to_ascii_lowercase();
    let fname = fname.strip_prefix("color.").unwrap_or(&fname).to_string();
    let body = &t[open + 1..t.len() - 1];
    if body.contains('(') {
        return Err(format!("nested function in {t:?}"));
    }
    let mut toks = Vec::new();
    for w in body.replace(',', " ").replace('/', " / ").split_whitespace() {
        if w == "/" {
            toks.push(Tk::Slash);
        } else if let Some((v, u)) = lex_number(w) {
            toks.push(Tk::Num(v, u));
        } else {
            toks.push(Tk::Word(w.to_string()));
        }
    }
    // split off alpha
    let (chan, alpha): (Vec<Tk>, Option<Tk>) =
        if let Some(p) = toks.iter().position(|t| matches!(t, Tk::Slash)) {
            if p + 2 != toks.len() {
                return Err(format!("bad slash in {t:?}"));
            }
            (toks[..p].to_vec(), Some(toks[p + 1].clone()))
        } else if toks.len() == 4 {
            (toks[..3].to_vec(), Some(toks[3].clone()))
        } else if toks.len() == 2 && matches!(toks[0], Tk::Word(_)) {
            (toks[..1].to_vec(), Some(toks[1].clone()))
        } else {
            (toks.clone(), None)
        };
    let alpha = match alpha {
        None => 1.0,
        Some(Tk::Num(v, u)) if u.is_empty() => v,
        Some(Tk::Num(v, u)) if u == "%" => v / 100.0,
        Some(o) => return Err(format!("bad alpha {o:?} in {t:?}")),
    };
    let alpha_c = clip(alpha, 1.0);
    let num = |k: &Tk| -> Result<(f64, String), String> {
        match k {
            Tk::Num(v, u) => Ok((*v, u.clone())),
            o => Err(format!("expected number, got {o:?} in {t:?}")),
        }
    };
    let hue = |k: &Tk| -> Result<f64, String> {
        let (v, u) = num(k)?;
        match u.as_str() {
            "" | "deg" => Ok(v),
            "turn" => Ok(v * 360.0),
            "grad" => Ok(v * 0.9),
            "rad" => Ok(v.to_degrees()),
            _ => Err(format!("bad hue unit {u:?} in {t:?}")),
        }
    };
    let pct = |k: &Tk| -> Result<f64, String> {
        let (v, u) = num(k)?;
        match u.as_str() {
            "" | "%" => Ok(v),
            _ => Err(format!("bad percentage unit {u:?} in {t:?}")),
        }
    };
    match fname.as_str() {
        "rgb" | "rgba" => {
            if chan.len() == 1 {
                let Tk::Word(w) = &chan[0] else {
                    return Err(format!("bad rgb() {t:?}"));
                };
                let inner = decode(w, rd)?;
                return Ok(Dec {
                    space: inner.space,
                    raw: inner.raw,
                    rgba: [inner.rgba[0], inner.rgba[1], inner.rgba[2], alpha_c],
                });
            }
            if chan.len() != 3 {
                return Err(format!("rgb() needs 3 channels: {t:?}"));
            }
            let mut raw = [0.0; 3];
            for i in 0..3 {
                let (v, u) = num(&chan[i])?;
                raw[i] = match u.as_str() {
                    "" => v,
                    "%" => v * 255.0 / 100.0,
                    _ => return Err(format!("bad channel unit in {t:?}")),
                };
            }
            Ok(Dec {
                space: Space::Rgb,
                raw,
                rgba: [
                    clip(raw[0], 255.0),
                    clip(raw[1], 255.0),
                    clip(raw[2], 255.0),
                    alpha_c,
                ],
            })
        }
        "hsl" | "hsla" => {
            if chan.len() != 3 {
                return Err(format!("hsl() needs 3 channels: {t:?}"));
            }
            let raw = [hue(&chan[0])?, pct(&chan[1])?, pct(&chan[2])?];
            let (s, l) = if rd.clamp_sl {
                (clip(raw[1], 100.0), clip(raw[2], 100.0))
            } else {
                (raw[1].max(0.0), raw[2])
            };
            let rgb = hsl_to_rgb(raw[0], s / 100.0, l / 100.0);
            Ok(Dec {
                space: Space::Hsl,
                raw,
                rgba: [
                    clip(rgb[0], 1.0) * 255.0,
                    clip(rgb[1], 1.0) * 255.0,
                    clip(rgb[2], 1.0) * 255.0,
                    alpha_c,
                ],
            })
        }
        "hwb" => {
            if chan.len() != 3 {
                return Err(format!("hwb() needs 3 channels: {t:?}"));
            }
            let raw = [hue(&chan[0])?, pct(&chan[1])?, pct(&chan[2])?];
            let (mut w, mut b) = (raw[1] / 100.0, raw[2] / 100.0);
            if rd.clamp_wb_neg {
                w = w.max(0.0);
                b = b.max(0.0);
            }
            if rd.clamp_wb_top {
                w = w.min(1.0);
                b = b.min(1.0);
            }
            let rgb = if !rd.hwb_via_hsl {
                hwb_to_rgb(raw[0], w, b)
            } else {
                // the known-defect path: normalise the sum, go through hsl with the
                // saturation clamped at 0 and nothing else clamped
                let (w, b) = if w + b > 1.0 {
                    (w / (w + b), b / (w + b))
                } else {
                    (w, b)
                };
                let l = (1.0 - b + w) / 2.0;
                let s = if l == 0.0 || l == 1.0 {
                    0.0
                } else {
                    (1.0 - b - l) / l.min(1.0 - l)
                };
                hsl_to_rgb(raw[0], s.max(0.0), l)
            };
            Ok(Dec {
                space: Space::Hwb,
                raw,
                rgba: [
                    clip(rgb[0], 1.0) * 255.0,
                    clip(rgb[1], 1.0) * 255.0,
                    clip(rgb[2], 1.0) * 255.0,
                    alpha_c,
                ],
            })
        }
        _ => Err(format!("not a colour function: {t:?}")),
    }
}

fn close(a: &[f64; 4], b: &[f64; 4], tol: f64) -> bool {
    (0..3).all(|i| (a[i] - b[i]).abs() <= tol) && (a[3] - b[3]).abs() <= tol / 255.0
}

// ======================= reading rsass' output =======================

/// `name: value;` lines of the single rule in expanded output.
fn decls(css: &str) -> BTreeMap<String, String> {
    let mut m = BTreeMap::new();
    for line in css.lines() {
        let line = line.trim();
        let Some(line) = line.strip_suffix(';') else {
            continue;
        };
        if let Some((k, v)) = line.split_once(": ") {
            m.insert(k.to_string(), v.to_string());
        }
    }
    m
}

const P15: Fmt = Fmt {
    compressed: false,
    precision: 15,
};

/// Compile and return the declarations, or the failure verdict.
fn run_sheet(src: &str) -> Result<BTreeMap<String, String>, Verdict> {
    match rs::compile_str(src, P15) {
        Out::Css(css) => Ok(decls(&css)),
        Out::Err(e) => Err(Verdict::fail(format!(
            "compile error: {}",
            e.lines().next().unwrap_or("")
        ))),
        Out::Panic(p) => {
            let site = p.split(": ").next().unwrap_or("?").to_string();
            let site = site.rsplitn(2, ':').last().unwrap_or("?").to_string();
            Err(Verdict::fail_sig(format!("panic:{site}"), format!("panic {p}")))
        }
    }
}

fn join_sigs(mut sigs: Vec<&'static str>) -> String {
    sigs.sort();
    sigs.dedup();
    sigs.join("+")
}

// ======================= the case space =======================

#[derive(Clone, Debug, Hash, Serialize, Deserialize)]
struct Case {
    /// an in-range colour expression
    color: String,
    /// law instance (see `laws`)
    law: String,
}

fn n(x: f64) -> String {
    format!("{x}")
}

/// In-range colours of rgb, hsl and hwb origin, with alpha.
fn palette(quick: bool) -> Vec<String> {
    let mut v: Vec<String> = Vec::new();
    let digs: Vec<char> = if quick {
        "038bf".chars().collect()
    } else {
        "0137 8bef".replace(' ', "").chars().collect()
    };
    for a in &digs {
        for b in &digs {
            for c in &digs {
                v.push(format!("#{a}{b}{c}"));
            }
        }
    }
    v.extend(
        [
            "red", "lime", "blue", "yellow", "cyan", "magenta", "black", "white", "gray",
            "rebeccapurple", "orange", "transparent", "#010203", "#fefdfc", "#7f8081", "#3388bb80",
            "#0000", "#ffff", "rgba(#38b, 0.5)", "rgba(#fff, 0)", "rgba(#bb9, 0.25)",
            "rgba(yellow, 0.75)",
        ]
        .map(String::from),
    );
    if !quick {
        for name in ["aliceblue", "coral", "darkkhaki", "gold", "indigo", "olive", "teal", "tomato"] {
            v.push(name.to_string());
            v.push(format!("rgba({name}, 0.3)"));
        }
    }
    let ch: &[f64] = if quick {
        &[0.0, 127.5, 200.1, 255.0]
    } else {
        &[0.0, 0.4, 63.75, 127.5, 200.1, 255.0]
    };
    for r in ch {
        for g in ch {
            for b in ch {
                v.push(format!("rgb({}, {}, {})", n(*r), n(*g), n(*b)));
                v.push(format!("rgba({}, {}, {}, 0.5)", n(*r), n(*g), n(*b)));
                if !quick {
                    v.push(format!("rgba({}, {}, {}, 0)", n(*r), n(*g), n(*b)));
                }
            }
        }
    }
    let hues: &[f64] = if quick {
        &[0.0, 30.0, 90.5, 180.0, 270.0, 359.5]
    } else {
        &[0.0, 0.5, 30.0, 60.0, 90.5, 120.0, 180.0, 210.0, 240.0, 270.0, 300.0, 359.5]
    };
    let sats: &[f64] = if quick {
        &[0.0, 33.3, 50.0, 100.0]
    } else {
        &[0.0, 0.5, 33.3, 50.0, 90.0, 100.0]
    };
    let ligs: &[f64] = if quick {
        &[0.0, 20.0, 50.0, 80.0, 100.0]
    } else {
        &[0.0, 0.1, 20.0, 49.9, 50.0, 80.0, 99.9, 100.0]
    };
    for h in hues {
        for s in sats {
            for l in ligs {
                v.push(format!("hsl({}, {}%, {}%)", n(*h), n(*s), n(*l)));
                v.push(format!("hsla({}, {}%, {}%, 0.3)", n(*h), n(*s), n(*l)));
            }
        }
    }
    let hh: &[f64] = if quick {
        &[0.0, 30.0, 200.5]
    } else {
        &[0.0, 30.0, 60.0, 120.0, 200.5, 300.0, 359.5]
    };
    let ws: &[f64] = if quick {
        &[0.0, 10.5, 40.0, 100.0]
    } else {
        &[0.0, 0.1, 10.5, 20.0, 40.0, 60.0, 100.0]
    };
    let bs: &[f64] = if quick {
        &[0.0, 20.0, 60.0, 100.0]
    } else {
        &[0.0, 0.1, 20.0, 40.0, 60.0, 80.0, 100.0]
    };
    for h in hh {
        for w in ws {
            for b in bs {
                v.push(format!("hwb({} {}% {}%)", n(*h), n(*w), n(*b)));
                v.push(format!("hwb({} {}% {}% / 0.5)", n(*h), n(*w), n(*b)));
            }
        }
    }
    let mut seen = std::collections::HashSet::new();
    v.into_iter().filter(|e| seen.insert(e.clone())).collect()
}

#[derive(Clone, Debug)]
enum Kind {
    /// `lhs == $c` must hold; `hsl_space`: the expression converts $c to hsl/hwb
    Equal { lhs: String, hsl_space: bool, rounds: bool },
    /// channel `ch` of `f($c, amt)` is channel of $c moved by `sign*amt`, clamped to [0, hi]
    Move { f: &'static str, ch: &'static str, amt: String, sign: f64, hi: f64 },
    /// `g(f($c, amt), amt) == $c` when `ch + sign*amt` stays in [0, hi]
    Undo { f: &'static str, g: &'static str, ch: &'static str, amt: String, sign: f64, hi: f64 },
    Grayscale,
}

/// Amount text -> number on the channel's scale (percent or alpha units).
fn amount_value(a: &str) -> f64 {
    a.trim_end_matches('%').parse::<f64>().unwrap_or(f64::NAN)
}

/// Every law instance: (name, kind).  The name is the replayable identity.
fn laws(quick: bool) -> Vec<(String, Kind)> {
    let mut v: Vec<(String, Kind)> = Vec::new();
    let eq = |name: String, lhs: String, hsl_space: bool| {
        (
            name,
            Kind::Equal {
                lhs,
                hsl_space,
                rounds: false,
            },
        )
    };
    // mix(c, c, w) == c
    v.push(eq("mix-default".into(), "mix($c, $c)".into(), false));
    for w in ["0%", "25%", "50%", "99.9%", "100%"] {
        v.push(eq(format!("mix-{w}"), format!("mix($c, $c, {w})"), false));
    }
    // invert / complement / adjust-hue cancel out
    v.push(eq("invert-twice".into(), "invert(invert($c))".into(), false));
    v.push(eq(
        "invert-twice-weight".into(),
        "color.invert(color.invert($c, 100%), $weight: 100%)".into(),
        false,
    ));
    v.push(eq(
        "complement-twice".into(),
        "complement(complement($c))".into(),
        true,
    ));
    v.push(eq(
        "complement-module-twice".into(),
        "color.complement(color.complement($c))".into(),
        true,
    ));
    for d in ["360deg", "-360deg", "720deg", "360", "1turn"] {
        v.push(eq(format!("adjust-hue-{d}"), format!("adjust-hue($c, {d})"), true));
    }
    v.push(eq(
        "adjust-hue-module-360".into(),
        "color.adjust($c, $hue: 360deg)".into(),
        true,
    ));
    let ds: &[&str] = if quick {
        &["30deg", "180deg", "359deg"]
    } else {
        &["0.5deg", "30deg", "90.5deg", "180deg", "359deg", "400deg"]
    };
    for d in ds {
        v.push(eq(
            format!("adjust-hue-{d}-back"),
            format!("adjust-hue(adjust-hue($c, {d}), -{d})"),
            true,
        ));
        v.push(eq(
            format!("adjust-hue--{d}-forth"),
            format!("adjust-hue(adjust-hue($c, -{d}), {d})"),
            true,
        ));
    }
    v.push(eq(
        "adjust-hue-180-twice".into(),
        "adjust-hue(adjust-hue($c, 180deg), 180deg)".into(),
        true,
    ));
    v.push(eq(
        "complement-then-hue-180".into(),
        "adjust-hue(complement($c), 180deg)".into(),
        true,
    ));
    // identity arguments
    for f in ["color.adjust", "adjust-color"] {
        v.push(eq(format!("{f}-none"), format!("{f}($c)"), false));
        for (args, hsl) in [
            ("$red: 0", false),
            ("$green: 0", false),
            ("$blue: 0", false),
            ("$red: 0, $green: 0, $blue: 0, $alpha: 0", false),
            ("$alpha: 0", false),
            ("$hue: 0deg", true),
            ("$hue: 0", true),
            ("$saturation: 0%", true),
            ("$lightness: 0%", true),
            ("$hue: 0deg, $saturation: 0%, $lightness: 0%, $alpha: 0", true),
            ("$whiteness: 0%", true),
            ("$blackness: 0%", true),
            ("$hue: 0deg, $whiteness: 0%, $blackness: 0%, $alpha: 0", true),
        ] {
            if f == "adjust-color" && args.contains(',') {
                continue;
            }
            v.push(eq(format!("{f}({args})"), format!("{f}($c, {args})"), hsl));
        }
    }
    for f in ["color.scale", "scale-color"] {
        v.push(eq(format!("{f}-none"), format!("{f}($c)"), true));
        for (args, hsl) in [
            ("$red: 0%", false),
            ("$green: 0%", false),
            ("$blue: 0%", false),
            ("$red: 0%, $green: 0%, $blue: 0%, $alpha: 0%", false),
            ("$alpha: 0%", true),
            ("$saturation: 0%", true),
            ("$lightness: 0%", true),
            ("$saturation: 0%, $lightness: 0%, $alpha: 0%", true),
            ("$whiteness: 0%", true),
            ("$blackness: 0%", true),
            ("$whiteness: 0%, $blackness: 0%, $alpha: 0%", true),
            ("$lightness: -0%", true),
        ] {
            if f == "scale-color" && args.contains(',') {
                continue;
            }
            v.push(eq(format!("{f}({args})"), format!("{f}($c, {args})"), hsl));
        }
    }
    for f in ["color.change", "change-color"] {
        v.push(eq(format!("{f}-none"), format!("{f}($c)"), false));
        for (args, hsl, rounds) in [
            ("$alpha: color.alpha($c)", false, false),
            ("$red: color.red($c)", false, true),
            ("$green: color.green($c)", false, true),
            ("$blue: color.blue($c)", false, true),
            (
                "$red: color.red($c), $green: color.green($c), $blue: color.blue($c), $alpha: color.alpha($c)",
                false,
                true,
            ),
            ("$hue: color.hue($c)", true, false),
            ("$saturation: color.saturation($c)", true, false),
            ("$lightness: color.lightness($c)", true, false),
            (
                "$hue: color.hue($c), $saturation: color.saturation($c), $lightness: color.lightness($c), $alpha: color.alpha($c)",
                true,
                false,
            ),
            ("$whiteness: color.whiteness($c)", true, false),
            ("$blackness: color.blackness($c)", true, false),
            (
                "$hue: color.hue($c), $whiteness: color.whiteness($c), $blackness: color.blackness($c)",
                true,
                false,
            ),
        ] {
            if f == "change-color" && args.contains(',') {
                continue;
            }
            v.push((
                format!("{f}({})", args.replace("color.", "").replace("($c)", "")),
                Kind::Equal {
                    lhs: format!("{f}($c, {args})"),
                    hsl_space: hsl,
                    rounds,
                },
            ));
        }
    }
    // lighten/darken, saturate/desaturate, opacify/transparentize
    let pct: &[&str] = if quick {
        &["0%", "0.5%", "10%", "33.3%", "50%", "100%", "20"]
    } else {
        &["0%", "0.1%", "0.5%", "10%", "20%", "33.3%", "50%", "80%", "99.9%", "100%", "20"]
    };
    let alp: &[&str] = if quick {
        &["0", "0.1", "0.25", "0.5", "1"]
    } else {
        &["0", "0.001", "0.1", "0.2", "0.25", "0.5", "0.7", "1"]
    };
    let fam: [(&str, &str, &str, f64, f64, &[&str]); 8] = [
        ("lighten", "darken", "lightness", 1.0, 100.0, pct),
        ("darken", "lighten", "lightness", -1.0, 100.0, pct),
        ("saturate", "desaturate", "saturation", 1.0, 100.0, pct),
        ("desaturate", "saturate", "saturation", -1.0, 100.0, pct),
        ("opacify", "transparentize", "alpha", 1.0, 1.0, alp),
        ("transparentize", "opacify", "alpha", -1.0, 1.0, alp),
        ("fade-in", "fade-out", "alpha", 1.0, 1.0, alp),
        ("fade-out", "fade-in", "alpha", -1.0, 1.0, alp),
    ];
    for (f, g, ch, sign, hi, amts) in fam {
        for a in amts {
            v.push((
                format!("move-{f}-{a}"),
                Kind::Move {
                    f,
                    ch,
                    amt: a.to_string(),
                    sign,
                    hi,
                },
            ));
            v.push((
                format!("undo-{f}-{g}-{a}"),
                Kind::Undo {
                    f,
                    g,
                    ch,
                    amt: a.to_string(),
                    sign,
                    hi,
                },
            ));
        }
    }
    v.push(("grayscale".into(), Kind::Grayscale));
    v
}

const PRELUDE: &str = "@use \"sass:color\";\n";
const EPS: f64 = 1e-9;

fn num_of(d: &BTreeMap<String, String>, k: &str) -> Option<f64> {
    lex_number(d.get(k)?).map(|(v, _)| v)
}

fn seen(d: &BTreeMap<String, String>, k: &str) -> Option<[f64; 4]> {
    decode(d.get(k)?, CSS4).ok().map(|d| d.rgba)
}

/// Classify a failed `lhs == $c`.
fn classify_equal(
    d: &BTreeMap<String, String>,
    hsl_space: bool,
    rounds: bool,
) -> Option<&'static str> {
    let get = |k: &str| d.get(k).map(String::as_str).unwrap_or("<missing>");
    let (e, f, v) = (get("e"), get("f"), get("v"));
    if e == "false" && f == "false" && v == "true" {
        // same rgba, but `==` compares hsl/hwb representations field by field
        return Some("hsl-exact-compare");
    }
    if !(e == "false" && f == "false" && v == "false") {
        return None;
    }
    let (rx, rc) = (seen(d, "rx")?, seen(d, "rc")?);
    let [r0, g0, b0, a0] = rc;
    if hsl_space
        && (r0 - g0).abs() < 1e-9
        && r0 > b0
        && (close(&rx, &[b0, b0, b0, a0], 1e-6) || close(&rx, &[r0, b0, b0, a0], 1e-6))
    {
        // rgb->hsl with red == green > blue takes blue as the maximum: through hsl the
        // colour turns into the grey of its blue channel, through hwb (hue 0, correct
        // whiteness/blackness) into (red, blue, blue)
        return Some("rgb-to-hsl-red-green-tie");
    }
    if rounds
        && (0..3).any(|i| (rc[i] - rc[i].round()).abs() >= 1e-7)
        && (0..3).all(|i| {
            (rx[i] - rc[i]).abs() < 1e-7
                || ((rx[i] - rx[i].round()).abs() < 1e-7 && (rx[i] - rc[i]).abs() <= 0.5 + 1e-6)
        })
        && (rx[3] - a0).abs() < 1e-9
    {
        // red()/green()/blue() report rounded integers: changing a channel to "itself" moves it
        return Some("rgb-getters-round");
    }
    None
}

fn equal_sheet(color: &str, lhs: &str, extra: &str) -> String {
    format!(
        "{PRELUDE}$c: {color};\n$x: {lhs};\na {{\n e: $x == $c;\n f: $c == $x;\n v: color.adjust($x, $red: 0) == color.adjust($c, $red: 0);\n rx: color.adjust($x, $red: 0);\n rc: color.adjust($c, $red: 0);\n{extra}}}\n"
    )
}

fn check(c: &Case, kind: &Kind) -> Verdict {
    match kind {
        Kind::Equal {
            lhs,
            hsl_space,
            rounds,
        } => {
            let sheet = equal_sheet(&c.color, lhs, "");
            let d = match run_sheet(&sheet) {
                Ok(d) => d,
                Err(v) => {
                    // known defect: the colour's own saturation is reported a few ulp above
                    // 100% and then rejected by color.change's range check
                    if lhs.contains("$saturation: color.saturation($c)") {
                        let msg = rs::compile_str(&sheet, P15);
                        let s = run_sheet(&format!(
                            "{PRELUDE}$c: {};\na {{\n s: (color.saturation($c) - 100%) * 1000000000000;\n}}\n",
                            c.color
                        ))
                        .ok()
                        .and_then(|d| num_of(&d, "s"))
                        // the excess is a few ulp: observe it scaled by 1e12 (numbers print
                        // with at most 16 significant digits)
                        .map(|x| 100.0 + x / 1e12);
                        if msg.err_head() == Some("$saturation: Expected 100% to be within 0% and 100%.")
                            && matches!(s, Some(s) if s > 100.0 && s < 100.0 + 1e-9)
                        {
                            return Verdict::fail_sig(
                                "own-saturation-above-100-rejected",
                                format!(
                                    "$c: {}; saturation($c) = {s:?}%; {lhs}: error `$saturation: Expected 100% to be within 0% and 100%.`",
                                    c.color
                                ),
                            );
                        }
                    }
                    return v;
                }
            };
            let get = |k: &str| d.get(k).map(String::as_str).unwrap_or("<missing>");
            if get("e") == "true" && get("f") == "true" {
                return Verdict::pass(&(get("rx"), get("v")));
            }
            let detail = format!(
                "$c: {}; {lhs} == $c: {}; reversed: {}; both forced to rgb: {}; result as rgb {}, $c as rgb {}",
                c.color,
                get("e"),
                get("f"),
                get("v"),
                get("rx"),
                get("rc")
            );
            match classify_equal(&d, *hsl_space, *rounds) {
                Some(s) => Verdict::fail_sig(s, detail),
                None => Verdict::fail(detail),
            }
        }
        Kind::Move {
            f,
            ch,
            amt,
            sign,
            hi,
        } => {
            let src = format!(
                "{PRELUDE}$c: {};\n$x: {f}($c, {amt});\na {{\n p: color.{ch}($c);\n q: color.{ch}($x);\n rx: color.adjust($x, $red: 0);\n}}\n",
                c.color
            );
            let d = match run_sheet(&src) {
                Ok(d) => d,
                Err(v) => return v,
            };
            let (Some(p), Some(q)) = (num_of(&d, "p"), num_of(&d, "q")) else {
                return Verdict::fail(format!("$c: {}; {f}($c, {amt}): unreadable {ch}: {d:?}", c.color));
            };
            let moved = p + sign * amount_value(amt);
            let want = moved.max(0.0).min(*hi);
            if (q - want).abs() <= EPS * hi {
                return Verdict::pass(&(d.get("q"), d.get("rx")));
            }
            let detail = format!(
                "$c: {}; {ch}($c) = {p}; {ch}({f}($c, {amt})) = {q}, expected {want}",
                c.color
            );
            if (q - moved).abs() <= EPS * hi && matches!(*f, "lighten" | "darken") {
                // Hsla::new keeps the lightness unclamped
                return Verdict::fail_sig("lighten-darken-unclamped", detail);
            }
            Verdict::fail(detail)
        }
        Kind::Undo {
            f,
            g,
            ch,
            amt,
            sign,
            hi,
        } => {
            let lhs = format!("{g}({f}($c, {amt}), {amt})");
            let extra = format!(" p: color.{ch}($c);\n q: color.{ch}($x);\n");
            let d = match run_sheet(&equal_sheet(&c.color, &lhs, &extra)) {
                Ok(d) => d,
                Err(v) => return v,
            };
            let get = |k: &str| d.get(k).map(String::as_str).unwrap_or("<missing>");
            let (Some(p), Some(q)) = (num_of(&d, "p"), num_of(&d, "q")) else {
                return Verdict::fail(format!("$c: {}; {lhs}: unreadable {ch}: {d:?}", c.color));
            };
            let a = amount_value(amt);
            let moved = p + sign * a;
            let unclamped = moved >= -EPS * hi && moved <= hi + EPS * hi;
            if unclamped {
                if get("e") == "true" && get("f") == "true" {
                    return Verdict::pass(&("undone", get("rx")));
                }
                let detail = format!(
                    "$c: {} ({ch} {p}, nothing clamped); {lhs} == $c: {}; reversed: {}; both forced to rgb: {}; result as rgb {}, $c as rgb {}",
                    c.color,
                    get("e"),
                    get("f"),
                    get("v"),
                    get("rx"),
                    get("rc")
                );
                return match classify_equal(&d, true, false) {
                    Some(s) => Verdict::fail_sig(s, detail),
                    None => Verdict::fail(detail),
                };
            }
            // clamped on the way: the channel follows the two clamped moves
            let want = (moved.max(0.0).min(*hi) - sign * a).max(0.0).min(*hi);
            if (q - want).abs() <= EPS * hi {
                return Verdict::pass(&("clamped", d.get("q"), get("rx")));
            }
            let detail = format!(
                "$c: {}; {ch}($c) = {p}; {ch}({lhs}) = {q}, expected {want} (clamped on the way)",
                c.color
            );
            if (q - p).abs() <= EPS * hi && matches!(*f, "lighten" | "darken") {
                return Verdict::fail_sig("lighten-darken-unclamped", detail);
            }
            Verdict::fail(detail)
        }
        Kind::Grayscale => {
            let src = format!(
                "{PRELUDE}$c: {};\n$x: grayscale($c);\n$y: color.grayscale($c);\na {{\n s: color.saturation($x);\n l0: color.lightness($c);\n l1: color.lightness($x);\n a0: color.alpha($c);\n a1: color.alpha($x);\n s2: color.saturation($y);\n l2: color.lightness($y);\n a2: color.alpha($y);\n rx: color.adjust($x, $red: 0);\n}}\n",
                c.color
            );
            let d = match run_sheet(&src) {
                Ok(d) => d,
                Err(v) => return v,
            };
            let g = |k: &str| num_of(&d, k);
            let (Some(s), Some(l0), Some(l1), Some(a0), Some(a1), Some(s2), Some(l2), Some(a2)) =
                (g("s"), g("l0"), g("l1"), g("a0"), g("a1"), g("s2"), g("l2"), g("a2"))
            else {
                return Verdict::fail(format!("$c: {}; grayscale: unreadable channels {d:?}", c.color));
            };
            let ok = s.abs() <= EPS
                && s2.abs() <= EPS
                && (l0 - l1).abs() <= EPS * 100.0
                && (l0 - l2).abs() <= EPS * 100.0
                && (a0 - a1).abs() <= EPS
                && (a0 - a2).abs() <= EPS;
            if ok {
                Verdict::pass(&(d.get("l1"), d.get("a1"), d.get("rx")))
            } else {
                Verdict::fail(format!(
                    "$c: {}; grayscale: saturation {s}/{s2}, lightness {l0} -> {l1}/{l2}, alpha {a0} -> {a1}/{a2}",
                    c.color
                ))
            }
        }
    }
}

fn main() {
    let ck = Check::from_args("C32");
    let quick = ck.quick();
    ck.rule("colours = in-range palette (short-hex grid, names, alpha hex, fractional rgb grid, hsl grid incl. grey/black/white, hwb grid incl. w+b>=100%, each with alpha) x law instances (mix weights; invert/complement/adjust-hue cancellations; identity adjust/scale/change per channel and per space, module and global names; move and undo for lighten/darken, saturate/desaturate, opacify/transparentize, fade-in/out x amounts incl. 0 and the maximum; grayscale); distinct = (colour, law); outcome = result colour as rgb text / channel texts");
    ck.assume("`==`, the channel functions and color.adjust($c, $red: 0) are the observation points; the latter is only used to classify failures and to print the result, never to accept a case");
    ck.assume("'exactly the amount' and 'unchanged' are read with an f64 noise allowance of 1e-9 of the channel range");

    let pal = palette(quick);
    let laws = laws(quick);
    let by_name: BTreeMap<String, Kind> = laws.iter().cloned().collect();
    assert_eq!(by_name.len(), laws.len(), "law names must be unique");
    let sections: [(&str, &str, fn(&Kind) -> bool); 5] = [
        ("mix-and-cancel", "mix(c,c,w), invert/complement twice, adjust-hue by whole turns and there-and-back", |k| {
            matches!(k, Kind::Equal { lhs, .. } if !lhs.contains("color.adjust($c") && !lhs.contains("adjust-color") && !lhs.contains("scale") && !lhs.contains("change"))
        }),
        ("identity", "color.adjust / scale / change (and global names) with identity arguments", |k| {
            matches!(k, Kind::Equal { lhs, .. } if lhs.contains("color.adjust($c") || lhs.contains("adjust-color") || lhs.contains("scale") || lhs.contains("change"))
        }),
        ("move", "channel after lighten/darken/saturate/desaturate/opacify/transparentize/fade-in/fade-out = channel before +- amount, clamped", |k| {
            matches!(k, Kind::Move { .. })
        }),
        ("undo", "g(f(c,a),a) == c when nothing was clamped, else the channel follows both clamped moves", |k| {
            matches!(k, Kind::Undo { .. })
        }),
        ("grayscale", "saturation 0, lightness and alpha unchanged (global and module function)", |k| {
            matches!(k, Kind::Grayscale)
        }),
    ];
    for (name, bound, pred) in sections {
        let mut cases = Vec::new();
        for (law, kind) in &laws {
            if pred(kind) {
                for color in &pal {
                    cases.push(Case {
                        color: color.clone(),
                        law: law.clone(),
                    });
                }
            }
        }
        let bound = format!("{} colours x {} law instances; {bound}", pal.len(), cases.len() / pal.len().max(1));
        ck.run(name, &bound, cases.into_iter(), |c: &Case| match by_name.get(&c.law) {
            Some(kind) => check(c, kind),
            None => Verdict::fail(format!("unknown law {:?} (replay of an older case?)", c.law)),
        });
    }
    ck.finish()
}
