//! C04 Load URLs resolve to the documented candidate file.
//!
//! Space: the URL `u` is loaded by @import / @use / @forward / meta.load-css
//! from an importer at the root (`r.scss`) or in a subdirectory
//! (`sub/imp.scss`); candidate files (`u.scss`, `_u.scss`, `u/index.scss`,
//! `u/_index.scss`, `u.css`, `_u.css`, and for @import the four `.import.scss`
//! variants) exist in any combination in the importer's directory (L0) and in
//! the load paths `lp1` (L1) and `lp2` (L2); 0, 1 or 2 load paths are
//! configured.  Every candidate file carries its own marker rule
//! `.<location>-c<candidate>`, so the output tells which file was loaded.
//! Oracle (R-load): locations in the order L0, L1, L2; inside a location the
//! candidate order of the statement; first existing file wins; nothing found
//! => error.  For @import the statement fixes the position of an
//! `.import.scss` variant only relative to its own `.scss` candidate, so both
//! the interleaved order (`u.import.scss, u.scss, _u.import.scss, _u.scss`)
//! and the grouped order of dart-sass (`u.import.scss, _u.import.scss, u.scss,
//! _u.scss`) are accepted.
//! Plain-CSS fallback: `@import` of `x.css`, `http(s)://`, `//`, `url()` with
//! nothing to load is emitted verbatim; the other load kinds fail.
//! A subset is repeated on the real `FsLoader` over temp dirs in /dev/shm.

use rsass::input::{Context, FsLoader};
use serde::{Deserialize, Serialize};
use std::sync::atomic::Ordering;
use vp::report::{Check, Verdict};
use vp::rs::{self, Fmt, MemLoader, Out};

const IMPORT: u8 = 0;
const USE: u8 = 1;
const FORWARD: u8 = 2;
const LOADCSS: u8 = 3;

/// All candidate file names, in rsass'/dart-sass' grouped order; the index is
/// the candidate id used in markers and masks.
const CAND: [&str; 10] = [
    "u.import.scss",
    "_u.import.scss",
    "u.scss",
    "_u.scss",
    "u/index.import.scss",
    "u/_index.import.scss",
    "u/index.scss",
    "u/_index.scss",
    "u.css",
    "_u.css",
];
/// candidate order for @use/@forward/load-css
const ORDER_USE: [usize; 6] = [2, 3, 6, 7, 8, 9];
/// @import, `.import.scss` variant directly before its `.scss` candidate
const ORDER_IMPORT_A: [usize; 10] = [0, 2, 1, 3, 4, 6, 5, 7, 8, 9];
/// @import, import-only variants of `u`/`_u` (resp. the two index files) first
const ORDER_IMPORT_B: [usize; 10] = [0, 1, 2, 3, 4, 5, 6, 7, 8, 9];

/// Directories that may hold candidate files.
/// 0 = importer's directory, 1 = lp1, 2 = lp2, 3 = lp1/sub, 4 = lp2/sub
/// (the last two only matter for the importer in `sub/`: nothing may be found there).
const NLOC: usize = 5;
const LOC_NAME: [&str; NLOC] = ["L0", "L1", "L2", "D1", "D2"];

#[derive(Clone, Debug, Hash, Serialize, Deserialize)]
struct Case {
    /// 0 @import, 1 @use, 2 @forward, 3 meta.load-css
    kind: u8,
    /// importer is sub/imp.scss (imported by the root) instead of the root
    sub: bool,
    /// number of configured load paths (lp1, lp2)
    npaths: u8,
    /// existing candidates per directory: bit i = CAND[i]
    present: [u16; NLOC],
}

fn loc_dir(loc: usize, sub: bool) -> &'static str {
    match (loc, sub) {
        (0, false) => "",
        (0, true) => "sub/",
        (1, _) => "lp1/",
        (2, _) => "lp2/",
        (3, _) => "lp1/sub/",
        _ => "lp2/sub/",
    }
}

fn load_stmt(kind: u8, target: &str) -> String {
    match kind {
        IMPORT => format!("@import {target};\n"),
        USE => format!("@use {target} as m;\n"),
        FORWARD => format!("@forward {target};\n"),
        _ => format!("@use \"sass:meta\";\n@include meta.load-css({target});\n"),
    }
}

/// (path, content) of every file of the case; the first one is the root.
fn layout(c: &Case) -> Vec<(String, String)> {
    let mut files = Vec::new();
    let stmt = load_stmt(c.kind, "\"u\"");
    if c.sub {
        files.push(("r.scss".to_string(), "@import \"sub/imp\";\n.r {k: v}\n".to_string()));
        files.push(("sub/imp.scss".to_string(), format!("{stmt}.imp {{k: v}}\n")));
    } else {
        files.push(("r.scss".to_string(), format!("{stmt}.imp {{k: v}}\n")));
    }
    for loc in 0..NLOC {
        for (i, name) in CAND.iter().enumerate() {
            if c.present[loc] & (1 << i) != 0 {
                files.push((
                    format!("{}{name}", loc_dir(loc, c.sub)),
                    format!(".{}-c{i} {{k: v}}\n", LOC_NAME[loc]),
                ));
            }
        }
    }
    files
}

// ---------- R-load ----------

#[derive(Clone, Debug, PartialEq, Eq, Hash)]
enum Res {
    /// (location, candidate)
    Found(usize, usize),
    NotFound,
}

fn search(c: &Case, locs: &[usize], order: &[usize], candidate_major: bool) -> Res {
    let exists = |l: usize, k: usize| c.present[l] & (1 << k) != 0;
    if candidate_major {
        for k in order {
            for l in locs {
                if exists(*l, *k) {
                    return Res::Found(*l, *k);
                }
            }
        }
    } else {
        for l in locs {
            for k in order {
                if exists(*l, *k) {
                    return Res::Found(*l, *k);
                }
            }
        }
    }
    Res::NotFound
}

/// The locations the statement names: importer's directory, then the URL
/// unchanged in each configured load path.
fn locs_spec(c: &Case) -> Vec<usize> {
    let mut v = vec![0];
    v.extend((1..=c.npaths as usize).take(2));
    v
}

/// Known defect: the importer-relative URL (`sub/u`) is what gets looked up
/// in the load paths.
fn locs_prefixed(c: &Case) -> Vec<usize> {
    if !c.sub {
        return locs_spec(c);
    }
    let mut v = vec![0];
    v.extend((1..=c.npaths as usize).take(2).map(|p| p + 2));
    v
}

fn accepted(c: &Case) -> Vec<Res> {
    let locs = locs_spec(c);
    if c.kind == IMPORT {
        let a = search(c, &locs, &ORDER_IMPORT_A, false);
        let b = search(c, &locs, &ORDER_IMPORT_B, false);
        if a == b {
            vec![a]
        } else {
            vec![a, b]
        }
    } else {
        vec![search(c, &locs, &ORDER_USE, false)]
    }
}

// ---------- observation ----------

#[derive(Clone, Debug, PartialEq, Eq, Hash)]
enum Obs {
    Res(Res),
    /// something else: several markers, none, another error
    Odd(String),
    Panic(String),
}

fn observe(out: &Out) -> Obs {
    match out {
        Out::Panic(p) => Obs::Panic(p.clone()),
        Out::Err(e) => {
            let head = e.lines().next().unwrap_or("");
            if head.contains("Can't find stylesheet") || head.contains("not found") {
                Obs::Res(Res::NotFound)
            } else {
                Obs::Odd(format!("error {:?}", vp::report::truncate(e, 300)))
            }
        }
        Out::Css(css) => {
            let mut found = Vec::new();
            for line in css.lines() {
                let Some(sel) = line.strip_suffix(" {") else {
                    continue;
                };
                for (l, name) in LOC_NAME.iter().enumerate() {
                    if let Some(rest) = sel.strip_prefix(&format!(".{name}-c")) {
                        if let Ok(k) = rest.parse::<usize>() {
                            found.push(Res::Found(l, k));
                        }
                    }
                }
            }
            if found.len() == 1 && css.contains(".imp {") {
                Obs::Res(found.remove(0))
            } else {
                Obs::Odd(format!("css {css:?}"))
            }
        }
    }
}

fn show_res(r: &Res, sub: bool) -> String {
    match r {
        Res::NotFound => "not found (error)".into(),
        Res::Found(l, k) => format!("{}{}", loc_dir(*l, sub), CAND[*k]),
    }
}

fn describe(c: &Case) -> String {
    let files = layout(c);
    let names: Vec<&str> = files.iter().skip(if c.sub { 2 } else { 1 }).map(|f| f.0.as_str()).collect();
    format!(
        "{} in {} with {} load path(s); existing: {names:?}",
        load_stmt(c.kind, "\"u\"").trim().replace('\n', " "),
        if c.sub { "sub/imp.scss" } else { "r.scss" },
        c.npaths
    )
}

fn run_mem(c: &Case) -> Out {
    let files = layout(c);
    let fr: Vec<(&str, &str)> = files.iter().map(|(a, b)| (a.as_str(), b.as_str())).collect();
    let lps: &[&str] = match c.npaths {
        0 => &[],
        1 => &["lp1"],
        _ => &["lp1", "lp2"],
    };
    let loader = MemLoader::new(&fr).with_load_paths(lps).with_budget(500);
    rs::compile_with_loader(loader, "r.scss", files[0].1.as_bytes(), Fmt::EXPANDED)
}

fn panic_sig(p: &str) -> String {
    let site = p.split(": ").next().unwrap_or("?");
    let parts: Vec<&str> = site.split(':').collect();
    format!("panic:{}", parts[..parts.len().min(2)].join(":"))
}

fn check(c: &Case) -> Verdict {
    let out = run_mem(c);
    let obs = observe(&out);
    let want = accepted(c);
    let got = match &obs {
        Obs::Res(r) => r.clone(),
        Obs::Panic(p) => return Verdict::fail_sig(panic_sig(p), format!("panic {p}; {}", describe(c))),
        Obs::Odd(o) => return Verdict::fail(format!("unexpected result {o}; {}", describe(c))),
    };
    if want.contains(&got) {
        return Verdict::pass(&got);
    }
    let wants: Vec<String> = want.iter().map(|r| show_res(r, c.sub)).collect();
    let detail = format!(
        "loaded {} but the documented search gives {}; {}",
        show_res(&got, c.sub),
        wants.join(" or "),
        describe(c)
    );
    // known-defect variants (rsass' own candidate order = the grouped one)
    let order: &[usize] = if c.kind == IMPORT { &ORDER_IMPORT_B } else { &ORDER_USE };
    let variants = [
        ("candidate-major-search-order", search(c, &locs_spec(c), order, true)),
        ("subdir-importer-load-path-prefixed", search(c, &locs_prefixed(c), order, false)),
        ("candidate-major+subdir-prefixed", search(c, &locs_prefixed(c), order, true)),
    ];
    for (sig, v) in variants {
        if v == got {
            return Verdict::fail_sig(sig, detail);
        }
    }
    Verdict::fail(detail)
}

// ---------- the real FsLoader ----------

const SHM: &str = "/dev/shm/a02/c04";

fn run_fs(files: &[(String, String)], npaths: u8, tag: u64) -> Result<Out, String> {
    let dir = format!("{SHM}/{}-{tag:016x}", std::process::id());
    let res = (|| -> Result<Out, String> {
        for (p, content) in files {
            let full = format!("{dir}/{p}");
            let parent = std::path::Path::new(&full).parent().ok_or("no parent")?.to_path_buf();
            std::fs::create_dir_all(&parent).map_err(|e| format!("mkdir {parent:?}: {e}"))?;
            std::fs::write(&full, content).map_err(|e| format!("write {full}: {e}"))?;
        }
        // the load path directories exist even when empty
        for lp in ["lp1", "lp2"] {
            std::fs::create_dir_all(format!("{dir}/{lp}")).map_err(|e| format!("mkdir {lp}: {e}"))?;
        }
        let root = format!("{dir}/{}", files[0].0);
        let (mut loader, file) =
            FsLoader::for_path(std::path::Path::new(&root)).map_err(|e| format!("for_path: {e}"))?;
        for lp in ["lp1", "lp2"].iter().take(npaths as usize) {
            loader.push_path(std::path::Path::new(&format!("{dir}/{lp}")));
        }
        vp::report::EXECS.fetch_add(1, Ordering::Relaxed);
        let r = rs::guard(|| {
            Context::for_loader(loader)
                .with_format(Fmt::EXPANDED.to_rsass())
                .transform(file)
        });
        Ok(match r {
            Err(p) => Out::Panic(p),
            Ok(Ok(bytes)) => Out::Css(String::from_utf8_lossy(&bytes).into_owned()),
            Ok(Err(e)) => Out::Err(rs::guard(|| format!("{e}")).unwrap_or_else(|p| format!("<panic {p}>"))),
        })
    })();
    let _ = std::fs::remove_dir_all(&dir);
    res
}

fn same(a: &Out, b: &Out) -> bool {
    match (a, b) {
        (Out::Err(x), Out::Err(y)) => x.lines().next() == y.lines().next(),
        (x, y) => x == y,
    }
}

fn check_fs(c: &Case) -> Verdict {
    let mem = run_mem(c);
    let tag = vp::report::hash_of(&(c, std::thread::current().id()));
    match run_fs(&layout(c), c.npaths, tag) {
        Err(e) => panic!("temp dir handling failed: {e}"),
        Ok(fs) => {
            if same(&mem, &fs) {
                Verdict::pass(&observe(&mem))
            } else {
                Verdict::fail(format!(
                    "MemLoader and FsLoader disagree: mem={} fs={}; {}",
                    mem.short(),
                    fs.short(),
                    describe(c)
                ))
            }
        }
    }
}

// ---------- plain-CSS fallback ----------

#[derive(Clone, Debug, Hash, Serialize, Deserialize)]
struct FbCase {
    kind: u8,
    sub: bool,
    /// the target as written after the load keyword, e.g. `"x.css"` or `url(x)`
    target: String,
    /// must an absent target fall back to a plain CSS @import (for @import)?
    fallback: bool,
    /// 0 nothing exists; 1 a file `<target text>.scss` exists next to the
    /// importer; 2 the file named exactly like the target exists
    present: u8,
}

fn fb_layout(c: &FbCase) -> Vec<(String, String)> {
    let stmt = load_stmt(c.kind, &c.target);
    let mut files = Vec::new();
    let dir = if c.sub { "sub/" } else { "" };
    if c.sub {
        files.push(("r.scss".to_string(), "@import \"sub/imp\";\n.r {k: v}\n".to_string()));
        files.push(("sub/imp.scss".to_string(), format!("{stmt}.imp {{k: v}}\n")));
    } else {
        files.push(("r.scss".to_string(), format!("{stmt}.imp {{k: v}}\n")));
    }
    // the URL as rsass sees it: the string value, or the whole `url(..)` text
    let url = c.target.trim_matches('"').to_string();
    match c.present {
        1 => files.push((format!("{dir}{url}.scss"), ".X-scss {k: v}\n".to_string())),
        2 => files.push((format!("{dir}{url}"), ".X-exact {k: v}\n".to_string())),
        _ => {}
    }
    files
}

fn fb_run(c: &FbCase) -> Out {
    let files = fb_layout(c);
    let fr: Vec<(&str, &str)> = files.iter().map(|(a, b)| (a.as_str(), b.as_str())).collect();
    let loader = MemLoader::new(&fr).with_load_paths(&["lp1", "lp2"]).with_budget(500);
    rs::compile_with_loader(loader, "r.scss", files[0].1.as_bytes(), Fmt::EXPANDED)
}

fn check_fallback(c: &FbCase) -> Verdict {
    let out = fb_run(c);
    let show = format!("{:?}", fb_layout(c));
    let plain = format!("@import {};", c.target);
    match &out {
        Out::Panic(p) => Verdict::fail_sig(panic_sig(p), format!("panic {p}; {show}")),
        Out::Css(css) => {
            let is_plain = css.lines().next() == Some(plain.as_str()) && !css.contains(".X-");
            let inlined = css.contains(".X-") && !css.contains("@import");
            if !css.contains(".imp {") {
                return Verdict::fail(format!("importer's own rule missing: {css:?}; {show}"));
            }
            match (c.kind == IMPORT && c.fallback, c.present) {
                (true, 0) if is_plain => Verdict::pass(&("plain", css)),
                // a matching file exists: the statement lets it be loaded or (as
                // dart-sass does for these targets) still be a plain CSS import
                (true, _) if c.present > 0 && (is_plain || inlined) => Verdict::pass(&("present", css)),
                (false, _) if c.present > 0 && inlined => Verdict::pass(&("loaded", css)),
                _ => Verdict::fail(format!(
                    "expected {}, got {css:?}; {show}",
                    if c.kind == IMPORT && c.fallback {
                        format!("the plain CSS import {plain:?}")
                    } else if c.present > 0 {
                        "the existing file to be loaded".to_string()
                    } else {
                        "an error (nothing to load, no fallback for this load)".to_string()
                    }
                )),
            }
        }
        Out::Err(e) => {
            let head = e.lines().next().unwrap_or("");
            let notfound = head.contains("Can't find stylesheet") || head.contains("not found");
            if notfound && c.present == 0 && !(c.kind == IMPORT && c.fallback) {
                Verdict::pass(&("error", head))
            } else {
                Verdict::fail(format!("unexpected error {:?}; {show}", vp::report::truncate(e, 300)))
            }
        }
    }
}

fn check_fallback_fs(c: &FbCase) -> Verdict {
    let mem = fb_run(c);
    let tag = vp::report::hash_of(&(c, std::thread::current().id()));
    match run_fs(&fb_layout(c), 2, tag) {
        Err(e) => panic!("temp dir handling failed: {e}"),
        Ok(fs) => {
            if same(&mem, &fs) {
                Verdict::pass(&mem)
            } else {
                Verdict::fail(format!(
                    "MemLoader and FsLoader disagree: mem={} fs={}; {:?}",
                    mem.short(),
                    fs.short(),
                    fb_layout(c)
                ))
            }
        }
    }
}

// ---------- enumeration ----------

fn order_of(kind: u8) -> &'static [usize] {
    if kind == IMPORT {
        &ORDER_IMPORT_B
    } else {
        &ORDER_USE
    }
}

/// every subset of the kind's candidates as a mask over CAND
fn subsets(kind: u8) -> Vec<u16> {
    let ord = order_of(kind);
    (0..(1u32 << ord.len()))
        .map(|m| {
            let mut mask = 0u16;
            for (i, k) in ord.iter().enumerate() {
                if m & (1 << i) != 0 {
                    mask |= 1 << k;
                }
            }
            mask
        })
        .collect()
}

/// no candidate, or exactly one
fn singles(kind: u8) -> Vec<u16> {
    let mut v = vec![0u16];
    v.extend(order_of(kind).iter().map(|k| 1u16 << k));
    v
}

const KINDS: [u8; 4] = [IMPORT, USE, FORWARD, LOADCSS];

fn one_location_cases() -> Vec<Case> {
    let mut v = Vec::new();
    for kind in KINDS {
        for sub in [false, true] {
            for loc in 0..3 {
                for m in subsets(kind) {
                    let mut present = [0u16; NLOC];
                    present[loc] = m;
                    v.push(Case {
                        kind,
                        sub,
                        npaths: 2,
                        present,
                    });
                }
            }
        }
    }
    v
}

fn triple_cases() -> Vec<Case> {
    let mut v = Vec::new();
    for kind in KINDS {
        let s = singles(kind);
        for sub in [false, true] {
            for npaths in 0..=2u8 {
                for a in &s {
                    for b in &s {
                        for c in &s {
                            v.push(Case {
                                kind,
                                sub,
                                npaths,
                                present: [*a, *b, *c, 0, 0],
                            });
                        }
                    }
                }
            }
        }
    }
    v
}

/// importer in sub/: candidates in lp1/ (where the URL must be found) against
/// candidates in lp1/sub/ and lp2/sub/ (where nothing may be found)
fn decoy_cases() -> Vec<Case> {
    let mut v = Vec::new();
    for kind in KINDS {
        let s = singles(kind);
        for a in &s {
            for b in &s {
                for d1 in &s {
                    for d2 in [0u16, 1 << 2, 1 << 3] {
                        v.push(Case {
                            kind,
                            sub: true,
                            npaths: 2,
                            present: [*a, *b, 0, *d1, d2],
                        });
                    }
                }
            }
        }
    }
    v
}

fn fallback_cases() -> Vec<FbCase> {
    let mut v = Vec::new();
    let targets: [(&str, bool); 11] = [
        ("\"x.css\"", true),
        ("\"t/x.css\"", true),
        ("\"http://h/x\"", true),
        ("\"https://h/x\"", true),
        ("\"//h/x\"", true),
        ("\"http://h/x.scss\"", true),
        ("url(x)", true),
        ("url(\"x\")", true),
        ("url(http://h/x.css)", true),
        ("\"x\"", false),
        ("\"x.scss\"", false),
    ];
    for kind in KINDS {
        for sub in [false, true] {
            for (t, fallback) in targets {
                if kind != IMPORT && t.starts_with("url(") {
                    continue; // not a string: only @import takes url()
                }
                for present in 0..=2u8 {
                    // a file named exactly `x` (no extension) is never a candidate;
                    // `<t>.scss` for a target that already ends in .css/.scss is not one either
                    let bare = t.trim_matches('"');
                    let has_ext = bare.ends_with(".css") || bare.ends_with(".scss");
                    if (present == 2 && !has_ext) || (present == 1 && has_ext) {
                        continue;
                    }
                    if bare.starts_with("//") && present > 0 {
                        continue; // an absolute path on a real file system
                    }
                    if kind != IMPORT && present > 0 && fallback {
                        continue; // not covered by the statement
                    }
                    v.push(FbCase {
                        kind,
                        sub,
                        target: t.to_string(),
                        fallback,
                        present,
                    });
                }
            }
        }
    }
    v
}

fn main() {
    let ck = Check::from_args("C04");
    let quick = ck.quick() && !ck.is_replay();
    ck.rule("load of URL `u` by {@import,@use,@forward,load-css} from r.scss or sub/imp.scss; candidate files present/absent per directory (importer dir, lp1, lp2, and for sub/ the decoys lp1/sub, lp2/sub) as bit masks; 0..2 load paths; distinct = distinct (kind, importer, paths, masks); outcome = which marker file was loaded | not-found error");
    ck.assume("for @import both the interleaved and the grouped position of the .import.scss variants are accepted (the statement only orders each variant before its own .scss candidate)");
    let _ = std::fs::remove_dir_all(SHM);

    ck.run(
        "subsets-one-location",
        "every subset of the candidates (2^10 @import, 2^6 others) in one of L0, L1, L2; importer at root and in sub/",
        one_location_cases().into_iter(),
        check,
    );
    ck.run(
        "one-per-location",
        "no or one candidate in each of L0, L1, L2 (11^3 @import, 7^3 others) x 0..2 load paths x importer",
        triple_cases().into_iter(),
        check,
    );
    ck.run(
        "subdir-decoys",
        "importer in sub/: no or one candidate in each of sub/, lp1/, lp1/sub/ and {none, u.scss, _u.scss} in lp2/sub/",
        decoy_cases().into_iter(),
        check,
    );
    // subsets in several locations at once
    {
        let kinds: Vec<u8> = if quick { vec![USE] } else { vec![USE, FORWARD, LOADCSS] };
        let su = subsets(USE);
        let all3 = !quick;
        let cases = kinds.into_iter().flat_map(move |kind| {
            let su = su.clone();
            su.clone().into_iter().flat_map(move |a| {
                let su = su.clone();
                su.clone().into_iter().flat_map(move |b| {
                    let third: Vec<u16> = if all3 { su.clone() } else { vec![0] };
                    third.into_iter().flat_map(move |c| {
                        [false, true].into_iter().map(move |sub| Case {
                            kind,
                            sub,
                            npaths: 2,
                            present: [a, b, c, 0, 0],
                        })
                    })
                })
            })
        });
        ck.run(
            "subsets-all-locations-use",
            if quick {
                "@use: every subset of the 6 candidates in L0 x every subset in L1 (2^12) x importer"
            } else {
                "@use, @forward, load-css: every subset of the 6 candidates in each of L0, L1, L2 (2^18) x importer"
            },
            cases,
            check,
        );
    }
    {
        let si = subsets(IMPORT);
        let one = singles(IMPORT);
        let l2: Vec<u16> = if quick { vec![0] } else { one.clone() };
        let cases = si.into_iter().flat_map(move |a| {
            let one = one.clone();
            let l2 = l2.clone();
            one.into_iter().flat_map(move |b| {
                let l2 = l2.clone();
                l2.into_iter().flat_map(move |c| {
                    [false, true].into_iter().map(move |sub| Case {
                        kind: IMPORT,
                        sub,
                        npaths: 2,
                        present: [a, b, c, 0, 0],
                    })
                })
            })
        });
        ck.run(
            "subsets-import-l0",
            if quick {
                "@import: every subset of the 10 candidates in L0 x no or one candidate in L1 x importer"
            } else {
                "@import: every subset of the 10 candidates in L0 x no or one candidate in each of L1, L2 x importer"
            },
            cases,
            check,
        );
    }
    if !quick {
        let si = subsets(IMPORT);
        let cases = si.clone().into_iter().flat_map(move |a| {
            let si = si.clone();
            si.into_iter().flat_map(move |b| {
                [false, true].into_iter().map(move |sub| Case {
                    kind: IMPORT,
                    sub,
                    npaths: 2,
                    present: [a, b, 0, 0, 0],
                })
            })
        });
        ck.run(
            "subsets-import-l0-l1",
            "@import: every subset of the 10 candidates in L0 x every subset in L1 (2^20) x importer",
            cases,
            check,
        );
    }

    ck.run(
        "plain-css-fallback",
        "11 targets (.css, http(s)://, //, url(), controls) x 4 load kinds x importer x {absent, <target>.scss exists, exact file exists}",
        fallback_cases().into_iter(),
        check_fallback,
    );

    // ---- both loaders agree
    let step = if quick { 2 } else { 1 };
    ck.run(
        "fs-agreement",
        if quick {
            "every 2nd case of subsets-one-location, one-per-location and subdir-decoys on the real FsLoader"
        } else {
            "all cases of subsets-one-location, one-per-location and subdir-decoys on the real FsLoader"
        },
        one_location_cases()
            .into_iter()
            .chain(triple_cases())
            .chain(decoy_cases())
            .step_by(step),
        check_fs,
    );
    ck.run(
        "fs-agreement-fallback",
        "all plain-css-fallback cases on the real FsLoader",
        fallback_cases().into_iter(),
        check_fallback_fs,
    );
    let _ = std::fs::remove_dir_all(SHM);
    let _ = std::fs::remove_dir("/dev/shm/a02"); // only when empty
    ck.finish()
}
