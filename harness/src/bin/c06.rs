//! C06 unique-id() is unique and random() stays in range.
//!
//! * schedules: real threads compiling stylesheets that call unique-id(), run
//!   under the controlled scheduler (E3) over the cfg(kaj_rsass_verif) hooks;
//!   every interleaving of the real lock / lazy-init operations up to a
//!   preemption bound; warm (process-wide state initialised) in-process, and
//!   cold (first touch of the counter is itself contended) with one fresh
//!   subprocess per schedule.  Oracle: all identifiers distinct, each a CSS
//!   identifier.
//! * random(): the generator is a seam (verif::fastrand); every limit in a
//!   boundary alphabet x every scripted generator answer; oracle: integer in
//!   [1, limit] / number in [0, 1), as printed and as compared inside Sass.

use rayon::prelude::*;
use serde::{Deserialize, Serialize};
use serde_json::{json, Value};
use std::collections::{BTreeSet, HashSet};
use std::time::Instant;
use vp::report::{Check, Verdict};
use vp::rs::{self, Fmt, Out};
use vp::sched::{self, job, job::Job};
use vp::worker;

fn worker_handler(req: &Value) -> Value {
    match serde_json::from_value::<Job>(req["job"].clone()) {
        Ok(j) => serde_json::to_value(job::run(&j)).unwrap_or(Value::Null),
        Err(e) => json!({"worker_error": e.to_string()}),
    }
}

fn uid_sheet(calls: usize, tag: &str) -> String {
    let mut s = format!("{tag}{{");
    for i in 0..calls {
        s.push_str(&format!("p{i}:unique-id();"));
    }
    s.push('}');
    s
}

/// Extract the declaration values of a compressed/expanded output.
fn ids_of(out: &Out) -> Result<Vec<String>, String> {
    match out {
        Out::Css(css) => {
            let mut ids = Vec::new();
            for n in vp::css::parse(css) {
                if let vp::css::Node::Rule { body, .. } = n {
                    for d in body {
                        if let vp::css::Node::Decl { value, .. } = d {
                            ids.push(vp::css::toks_text(&value));
                        }
                    }
                }
            }
            Ok(ids)
        }
        o => Err(format!("compilation did not succeed: {}", o.short())),
    }
}

fn is_css_ident(s: &str) -> bool {
    // a single <ident-token> and nothing else
    let t = vp::css::tokenize(s);
    t.len() == 1 && matches!(&t[0], vp::css::Tok::Ident(n) if n == s)
}

/// Oracle for one execution: every id distinct and an identifier.
fn judge_ids(outputs: &[Vec<Out>], want_per_compile: usize) -> Result<Vec<String>, String> {
    let mut all = Vec::new();
    for (t, outs) in outputs.iter().enumerate() {
        if outs.is_empty() {
            return Err(format!("thread {t} produced no result"));
        }
        for o in outs {
            let ids = ids_of(o)?;
            if ids.len() != want_per_compile {
                return Err(format!(
                    "thread {t}: {} ids in output, expected {want_per_compile}: {}",
                    ids.len(),
                    o.short()
                ));
            }
            all.extend(ids);
        }
    }
    let set: HashSet<&String> = all.iter().collect();
    if set.len() != all.len() {
        return Err(format!("duplicate identifiers: {all:?}"));
    }
    for id in &all {
        if !is_css_ident(id) {
            return Err(format!("{id:?} is not a CSS identifier"));
        }
    }
    Ok(all)
}

#[derive(Clone, Debug, Hash, Serialize, Deserialize)]
struct SchedCase {
    threads: usize,
    calls: usize,
    cold: String,
    choices: Vec<usize>,
}

fn make_job(threads: usize, calls: usize) -> Job {
    Job {
        programs: (0..threads)
            .map(|t| vec![uid_sheet(calls, &format!("t{t}"))])
            .collect(),
        compressed: true,
        precision: 10,
        prewarm: vec![],
        prefix: vec![],
        expect: vec![],
    }
}

/// Order-insensitive shape of an execution's ids: which thread got which rank.
fn interleaving_shape(outputs: &[Vec<Out>]) -> String {
    let mut tagged: Vec<(u64, usize)> = Vec::new();
    for (t, outs) in outputs.iter().enumerate() {
        for o in outs {
            if let Ok(ids) = ids_of(o) {
                for id in ids {
                    if let Ok(v) = u64::from_str_radix(id.trim_start_matches('x'), 16) {
                        tagged.push((v, t));
                    }
                }
            }
        }
    }
    tagged.sort();
    tagged.iter().map(|(_, t)| t.to_string()).collect::<Vec<_>>().join("")
}

fn explore_warm(ck: &Check, threads: usize, calls: usize, bound: usize, cap: u64) {
    let section = "uid-schedules-warm";
    let t0 = Instant::now();
    let e0 = vp::report::EXECS.load(std::sync::atomic::Ordering::Relaxed);
    let jobt = make_job(threads, calls);
    // warm up process-wide state outside the scheduler
    let _ = rs::compile(uid_sheet(1, "w").as_bytes(), Fmt::COMPRESSED);
    let make = || job::bodies(&jobt);
    let mut shared = match sched::discover_shared(&make, threads) {
        Ok(s) => s,
        Err(e) => {
            ck.machinery_error(format!("{section}: discovery: {e}"));
            return;
        }
    };
    let mut stats = sched::ExploreStats::default();
    let mut shapes: BTreeSet<String> = BTreeSet::new();
    let mut samples: Vec<Value> = Vec::new();
    let mut failed = false;
    let mut completed = None;
    for b in 0..=bound {
        let mut st = sched::ExploreStats::default();
        let mut check = |ex: &sched::Execution<Vec<Out>>| -> bool {
            let outputs: Vec<Vec<Out>> = ex
                .results
                .iter()
                .map(|r| r.clone().unwrap_or_default())
                .collect();
            if let Some(d) = &ex.trace.deadlock {
                ck.report_fail(
                    section,
                    &SchedCase { threads, calls, cold: "warm".into(), choices: ex.choices.clone() },
                    &format!("deadlock: {d}"),
                    None,
                );
                return false;
            }
            shapes.insert(interleaving_shape(&outputs));
            if samples.len() < 2 || (ex.preemptions > 0 && samples.len() < 4) {
                samples.push(json!({"threads": threads, "calls": calls, "choices": ex.choices,
                    "preemptions": ex.preemptions, "id_order_by_thread": interleaving_shape(&outputs)}));
            }
            match judge_ids(&outputs, calls) {
                Ok(_) => true,
                Err(e) => {
                    ck.report_fail(
                        section,
                        &SchedCase { threads, calls, cold: "warm".into(), choices: ex.choices.clone() },
                        &e,
                        None,
                    );
                    false
                }
            }
        };
        match sched::explore(&make, b, cap, &mut shared, &mut st, &mut check) {
            Ok(true) => {}
            Ok(false) => {
                failed = true;
            }
            Err(e) => {
                ck.machinery_error(format!("{section}: {e}"));
                return;
            }
        }
        stats.schedules += st.schedules;
        stats.points += st.points;
        stats.total_ops += st.total_ops;
        stats.max_points = stats.max_points.max(st.max_points);
        stats.branch_points_skipped_private += st.branch_points_skipped_private;
        stats.late_shared += st.late_shared;
        if failed {
            break;
        }
        if st.cap_hit {
            stats.cap_hit = true;
            break;
        }
        completed = Some(b);
        // a bound that adds no schedule beyond the previous one means the space is exhausted
        if b > 0 && st.schedules == stats.schedules - st.schedules && false {
            break;
        }
    }
    ck.add_section(
        &format!("{section} {threads}x{calls}"),
        &format!(
            "{threads} threads x {calls} unique-id() calls; preemption bounds 0..={bound} iterated, completed {:?}; {} shared objects; max {} scheduling points per run; {} private points skipped; {} late-shared",
            completed, shared.len(), stats.max_points, stats.branch_points_skipped_private, stats.late_shared
        ),
        stats.schedules,
        stats.schedules,
        shapes.len() as u64,
        vp::report::EXECS.load(std::sync::atomic::Ordering::Relaxed) - e0,
        samples,
        stats.cap_hit,
        t0.elapsed().as_secs_f64(),
    );
}

/// Cold exploration: one fresh process per schedule, BFS by deviation level,
/// evaluated in parallel.  `prewarm` non-empty = everything but the counter is
/// warmed first, so the contended first touch is the counter's.
fn explore_cold(ck: &Check, threads: usize, calls: usize, prewarm: bool, bound: usize, cap: u64) {
    let section = "uid-schedules-cold";
    let label = if prewarm { "cold-counter" } else { "cold-process" };
    let t0 = Instant::now();
    let mut jobt = make_job(threads, calls);
    if prewarm {
        jobt.prewarm = vec!["@use \"sass:math\";a{b:math.abs(-1)}".into()];
    }
    let mut frontier: Vec<(Vec<usize>, Vec<(Vec<usize>, Option<usize>)>, usize)> =
        vec![(vec![], vec![], 0)];
    let mut schedules = 0u64;
    let mut shapes: BTreeSet<String> = BTreeSet::new();
    let mut samples = Vec::new();
    let mut cap_hit = false;
    let mut max_points = 0usize;
    let mut lazy_points = 0u64;
    let mut failed = false;
    while !frontier.is_empty() && !failed {
        if schedules + frontier.len() as u64 > cap {
            cap_hit = true;
            frontier.truncate((cap.saturating_sub(schedules)) as usize);
            if frontier.is_empty() {
                break;
            }
        }
        let results: Vec<(usize, Result<job::JobResult, String>)> = ck.install(|| {
            frontier
                .par_iter()
                .enumerate()
                .map(|(i, (prefix, expect, _))| {
                    let mut j = jobt.clone();
                    j.prefix = prefix.clone();
                    j.expect = expect.clone();
                    let r = match worker::call_fresh(&json!({"job": j})) {
                        worker::Reply::Ok(v) => serde_json::from_value::<job::JobResult>(v)
                            .map_err(|e| format!("bad worker reply: {e}")),
                        worker::Reply::Died(s) => Err(format!("worker died: {s}")),
                    };
                    (i, r)
                })
                .collect()
        });
        let mut next = Vec::new();
        for (i, r) in results {
            schedules += 1;
            vp::report::EXECS.fetch_add((threads) as u64, std::sync::atomic::Ordering::Relaxed);
            let (prefix, _, used) = &frontier[i];
            let res = match r {
                Ok(r) => r,
                Err(e) => {
                    // a dead worker under a schedule is a finding (abort/deadlock), not machinery
                    ck.report_fail(
                        section,
                        &SchedCase { threads, calls, cold: label.into(), choices: prefix.clone() },
                        &e,
                        None,
                    );
                    failed = true;
                    break;
                }
            };
            if let Some(d) = &res.divergence {
                ck.machinery_error(format!("{section}/{label}: divergence under {prefix:?}: {d}"));
                return;
            }
            let choices: Vec<usize> = res.points.iter().map(|p| p.chosen).collect();
            if let Some(d) = &res.deadlock {
                ck.report_fail(
                    section,
                    &SchedCase { threads, calls, cold: label.into(), choices: choices.clone() },
                    &format!("deadlock: {d}"),
                    None,
                );
                failed = true;
                break;
            }
            max_points = max_points.max(res.points.len());
            lazy_points += res.points.iter().filter(|p| p.lazy).count() as u64;
            shapes.insert(interleaving_shape(&res.outputs));
            if samples.len() < 3 {
                samples.push(json!({"mode": label, "threads": threads, "calls": calls, "choices_len": choices.len(),
                    "prefix": prefix, "id_order_by_thread": interleaving_shape(&res.outputs)}));
            }
            if let Err(e) = judge_ids(&res.outputs, calls) {
                ck.report_fail(
                    section,
                    &SchedCase { threads, calls, cold: label.into(), choices: choices.clone() },
                    &e,
                    None,
                );
                failed = true;
                break;
            }
            // children
            let mut pre = *used;
            for k in prefix.len()..res.points.len() {
                let p = &res.points[k];
                let cost = if p.running.is_some() { 1 } else { 0 };
                if pre + cost <= bound && (p.running.is_none() || p.shared) {
                    for alt in 1..p.enabled.len() {
                        let mut c = choices[..k].to_vec();
                        c.push(alt);
                        let e: Vec<(Vec<usize>, Option<usize>)> = res.points[..=k]
                            .iter()
                            .map(|p| (p.enabled.clone(), p.running))
                            .collect();
                        next.push((c, e, pre + cost));
                    }
                }
                if p.running.is_some() && p.chosen != 0 {
                    pre += 1;
                }
            }
        }
        frontier = next;
    }
    ck.add_section(
        &format!("{section} {label} {threads}x{calls}"),
        &format!(
            "fresh process per schedule; {threads} threads x {calls} calls; preemption bound {bound}{}; max {max_points} scheduling points per run, {lazy_points} lazy-init points seen; branching at points on objects touched by >= 2 threads in that run and at all lazy initialisations",
            if cap_hit { " (cap hit)" } else { " completed" }
        ),
        schedules,
        schedules,
        shapes.len() as u64,
        schedules * threads as u64,
        samples,
        cap_hit,
        t0.elapsed().as_secs_f64(),
    );
}

fn replay_sched(ck: &Check) {
    for section in ["uid-schedules-warm", "uid-schedules-cold"] {
        if let Some(case) = ck.replay_case(section) {
            let c: SchedCase = match serde_json::from_value(case) {
                Ok(c) => c,
                Err(e) => {
                    ck.machinery_error(format!("bad replay case: {e}"));
                    return;
                }
            };
            let mut j = make_job(c.threads, c.calls);
            j.prefix = c.choices.clone();
            if c.cold == "cold-counter" {
                j.prewarm = vec!["@use \"sass:math\";a{b:math.abs(-1)}".into()];
            }
            let run_once = || -> Result<job::JobResult, String> {
                if c.cold == "warm" {
                    let _ = rs::compile(uid_sheet(1, "w").as_bytes(), Fmt::COMPRESSED);
                    Ok(job::run(&j))
                } else {
                    match worker::call_fresh(&json!({"job": j})) {
                        worker::Reply::Ok(v) => {
                            serde_json::from_value(v).map_err(|e| e.to_string())
                        }
                        worker::Reply::Died(s) => Err(format!("worker died: {s}")),
                    }
                }
            };
            let a = run_once();
            let b = run_once();
            let verdict = |r: &Result<job::JobResult, String>| -> (bool, String) {
                match r {
                    Err(e) => (true, e.clone()),
                    Ok(r) => {
                        if let Some(d) = &r.divergence {
                            return (true, format!("DIVERGENCE {d}"));
                        }
                        if let Some(d) = &r.deadlock {
                            return (true, format!("deadlock {d}"));
                        }
                        match judge_ids(&r.outputs, c.calls) {
                            Ok(_) => (false, format!("ok shape={}", interleaving_shape(&r.outputs))),
                            Err(e) => (true, e),
                        }
                    }
                }
            };
            let (fa, ta) = verdict(&a);
            let (fb, tb) = verdict(&b);
            if fa != fb || interleaving_shape(&a.as_ref().map(|r| r.outputs.clone()).unwrap_or_default())
                != interleaving_shape(&b.as_ref().map(|r| r.outputs.clone()).unwrap_or_default())
            {
                ck.machinery_error(format!("schedule replay not deterministic: {ta} vs {tb}"));
                return;
            }
            ck.set_replay_result(fa, &format!("section={section} {}", if fa { format!("FAIL {ta}") } else { format!("PASS {ta}") }));
        }
    }
}

#[derive(Clone, Debug, Hash, Serialize, Deserialize)]
struct RandCase {
    /// limit as Sass source text; "" = random() without limit
    limit: String,
    /// scripted generator answer: i64 for limits, f64 bits for random()
    answer: i64,
}

fn main() {
    worker::serve_if_worker(worker_handler);
    let ck = Check::from_args("C06");
    ck.rule("schedules: every interleaving of the real Mutex::lock / LazyLock-init operations of N threads compiling k unique-id() calls each, preemption bounds 0,1,2,.. iterated (warm in-process, cold = fresh process per schedule); random: limit alphabet x scripted generator answers. distinct = distinct schedules (choice lists) / cases; outcome = order in which threads obtained ids / printed number");
    ck.assume("synchronisation that does not go through the cfg-swapped std::sync::{Mutex,LazyLock} imports is invisible to the scheduler");
    ck.assume("operations on objects touched by a single thread commute with the other threads' operations (private-point reduction)");

    if ck.is_replay() {
        replay_sched(&ck);
    }

    // ---- sequential uniqueness within one process, across compilations
    if !ck.is_replay() {
        let t0 = Instant::now();
        let (batches, per) = ck.tier.pick((20usize, 500usize), (100, 1000));
        let mut all: HashSet<String> = HashSet::new();
        let mut n = 0u64;
        let mut bad = None;
        for b in 0..batches {
            let out = rs::compile(uid_sheet(per, "s").as_bytes(), Fmt::new(b % 2 == 0, 10));
            match ids_of(&out) {
                Ok(ids) => {
                    for id in ids {
                        n += 1;
                        if !is_css_ident(&id) {
                            bad = Some(format!("{id:?} is not a CSS identifier"));
                        }
                        if !all.insert(id.clone()) {
                            bad = Some(format!("duplicate id {id} in batch {b}"));
                        }
                    }
                }
                Err(e) => bad = Some(e),
            }
        }
        if let Some(e) = bad {
            ck.report_fail("uid-sequential", &json!({"batches": batches, "per": per}), &e, None);
        }
        ck.add_section(
            "uid-sequential",
            &format!("{batches} compilations x {per} calls in one process, all ids pairwise distinct"),
            n,
            all.len() as u64,
            all.len() as u64,
            batches as u64,
            vec![json!({"batches": batches, "calls_per_compilation": per})],
            false,
            t0.elapsed().as_secs_f64(),
        );
    }

    // ---- schedules
    if !ck.is_replay() {
        if ck.quick() {
            explore_warm(&ck, 2, 1, 3, 200_000);
            explore_warm(&ck, 2, 2, 3, 200_000);
            explore_warm(&ck, 3, 1, 2, 200_000);
            explore_cold(&ck, 2, 1, true, 2, 3_000);
            explore_cold(&ck, 2, 1, false, 1, 1_500);
        } else {
            explore_warm(&ck, 2, 1, 6, 2_000_000);
            explore_warm(&ck, 2, 2, 6, 2_000_000);
            explore_warm(&ck, 2, 3, 5, 2_000_000);
            explore_warm(&ck, 3, 1, 4, 2_000_000);
            explore_warm(&ck, 3, 2, 3, 2_000_000);
            explore_cold(&ck, 2, 1, true, 3, 6_000);
            explore_cold(&ck, 2, 2, true, 2, 6_000);
            explore_cold(&ck, 3, 1, true, 2, 6_000);
            explore_cold(&ck, 2, 1, false, 1, 3_000);
        }
    }

    // ---- random(limit) with scripted generator answers
    let lims: Vec<(String, i64)> = vec![
        ("1".into(), 1),
        ("2".into(), 2),
        ("3".into(), 3),
        ("10".into(), 10),
        ("255".into(), 255),
        ("2147483647".into(), 2147483647),
        ("2147483648".into(), 2147483648),
        ("9007199254740991".into(), 9007199254740991),
        ("9007199254740992".into(), 9007199254740992),
    ];
    let mut rc = Vec::new();
    for (text, b) in &lims {
        let mut ans: Vec<i64> = vec![0, 1, b / 2, b - 2, b - 1];
        ans.retain(|a| *a >= 0 && a < b);
        ans.sort();
        ans.dedup();
        for a in ans {
            rc.push(RandCase { limit: text.clone(), answer: a });
        }
    }
    ck.run("random-limit", "9 limits (1 .. 2^53) x generator answers {0,1,b/2,b-2,b-1}", rc.into_iter(), |c: &RandCase| {
        rsass::verif::fastrand::clear_script();
        rsass::verif::fastrand::script_i64(&[c.answer]);
        let src = format!(
            "@use \"sass:math\";$r:math.random({l});a{{v:$r;ok:$r>=1 and $r<={l} and $r==math.round($r)}}",
            l = c.limit
        );
        let out = rs::compile(src.as_bytes(), Fmt::new(true, 20));
        let left = rsass::verif::fastrand::clear_script();
        if left != 0 {
            return Verdict::fail(format!("generator seam not consulted ({left} scripted answers left): {}", out.short()));
        }
        let want = (c.answer as i128 + 1).to_string();
        match &out {
            Out::Css(css) if *css == format!("a{{v:{want};ok:true}}\n") => Verdict::pass(css),
            o => Verdict::fail(format!("limit {} answer {}: expected v:{want};ok:true, got {}", c.limit, c.answer, o.short())),
        }
    });

    // ---- random() with scripted generator answers
    let fr: Vec<f64> = vec![0.0, 2f64.powi(-53), 0.25, 0.5, 1.0 - 2f64.powi(-53), 1e-300, 0.1];
    let rc2: Vec<RandCase> = fr
        .iter()
        .map(|f| RandCase { limit: String::new(), answer: f.to_bits() as i64 })
        .collect();
    ck.run("random-unit", "generator answers {0, 2^-53, .., 1-2^-53}", rc2.into_iter(), |c: &RandCase| {
        let f = f64::from_bits(c.answer as u64);
        rsass::verif::fastrand::clear_script();
        rsass::verif::fastrand::script_f64(&[f]);
        // Sass comparisons are fuzzy (1 - 2^-53 is not `<` 1 in Sass), so the range is
        // checked on the printed value (precision 20) and only `>= 0`, `<= 1` inside Sass.
        let src = "@use \"sass:math\";$r:math.random();a{v:$r;ok:$r>=0 and $r<=1;u:math.is-unitless($r)}";
        let out = rs::compile(src.as_bytes(), Fmt::new(false, 20));
        let left = rsass::verif::fastrand::clear_script();
        if left != 0 {
            return Verdict::fail(format!("generator seam not consulted: {}", out.short()));
        }
        let css = match &out {
            Out::Css(css) => css.clone(),
            o => return Verdict::fail(format!("random() with generator answer {f:e}: {}", o.short())),
        };
        let mut v = None;
        let mut rest_ok = false;
        for n in vp::css::parse(&css) {
            if let vp::css::Node::Rule { body, .. } = n {
                let mut oks = 0;
                for d in body {
                    if let vp::css::Node::Decl { name, value } = d {
                        let t = vp::css::toks_text(&value);
                        match name.as_str() {
                            "v" => v = t.parse::<f64>().ok(),
                            "ok" | "u" if t == "true" => oks += 1,
                            _ => {}
                        }
                    }
                }
                rest_ok = oks == 2;
            }
        }
        match v {
            Some(x) if rest_ok && x >= 0.0 && x < 1.0 && (x - f).abs() <= 1e-15 => Verdict::pass(&(c.answer, css)),
            _ => Verdict::fail(format!("random() with generator answer {f:e}: {css:?}")),
        }
    });

    // ---- invalid limits must be errors
    #[derive(Clone, Debug, Hash, Serialize, Deserialize)]
    struct BadLimit {
        limit: String,
    }
    let bad: Vec<BadLimit> = ["0", "-1", "1.5", "-0.5", "0.5", "math.div(1,0)", "math.div(0,0)", "\"3\"", "true", "(1 2)"]
        .iter()
        .map(|l| BadLimit { limit: l.to_string() })
        .collect();
    ck.run("random-invalid-limit", "non-positive, fractional, non-finite and non-numeric limits", bad.into_iter(), |c: &BadLimit| {
        rsass::verif::fastrand::clear_script();
        let src = format!("@use \"sass:math\";a{{v:math.random({})}}", c.limit);
        match rs::compile(src.as_bytes(), Fmt::EXPANDED) {
            Out::Err(e) => Verdict::pass(&e.lines().next().unwrap_or("").to_string()),
            o => Verdict::fail(format!("random({}) must be an error, got {}", c.limit, o.short())),
        }
    });

    // ---- real generator, labelled sample
    #[derive(Clone, Debug, Hash, Serialize, Deserialize)]
    struct RealCase {
        limit: String,
        round: usize,
    }
    let rounds = ck.tier.pick(200, 2000);
    let mut real = Vec::new();
    for (text, _) in &lims {
        for r in 0..rounds {
            real.push(RealCase { limit: text.clone(), round: r });
        }
    }
    for r in 0..rounds {
        real.push(RealCase { limit: String::new(), round: r });
    }
    ck.note("sampled_supplement", json!("section random-real-generator draws from the real fastrand generator: a sample, not part of the exhaustive claim"));
    ck.run("random-real-generator (sample)", "real generator, repeated draws per limit (sample)", real.into_iter(), |c: &RealCase| {
        rsass::verif::fastrand::clear_script();
        let src = if c.limit.is_empty() {
            "@use \"sass:math\";$r:math.random();a{ok:$r>=0 and $r<1}".to_string()
        } else {
            format!("@use \"sass:math\";$r:math.random({l});a{{ok:$r>=1 and $r<={l} and $r==math.round($r)}}", l = c.limit)
        };
        match rs::compile(src.as_bytes(), Fmt::COMPRESSED) {
            Out::Css(css) if css == "a{ok:true}\n" => Verdict::pass(&c.limit),
            o => Verdict::fail(format!("{}", o.short())),
        }
    });

    ck.finish()
}
