//! C24 selector.unify / extend / replace / nest / append obey their algebra.
//!
//! Space: a generated alphabet of complex selectors (compounds over type,
//! universal, class, id, attribute, pseudo-class, pseudo-element, `:not/:is`,
//! `:root/:host`; `k1 <comb> k2 [<comb> k3]` over every combinator) and lists.
//!  * `unify-super`     all ordered pairs (a, b): each of a, b is a
//!                      superselector of every complex selector of unify(a, b);
//!  * `extend-keeps`    s x extendee x extender: the complex selectors of s (as
//!                      printed by selector.parse) are a subsequence of the result;
//!  * `replace-none`    s x original x replacement where no compound of s (at any
//!                      depth) contains the simple selectors of the original:
//!                      result == selector.parse(s);
//!  * `nest-emitted`    selector.nest(a, b[, c]) == the selector emitted for
//!                      `a{b{[c{]x:y}}` (b, c with and without `&`);
//!  * `append-emitted`  selector.append(a, b[, c]) == the selector emitted for
//!                      `a{&b{[&c{]x:y}}` for suffixes b (simple selectors,
//!                      `-s`/`_s`/type suffixes, lists of them).
//! Oracle: relational (selector functions against each other and against
//! emitted rules).  Models in this file: the text splitter used to enumerate
//! and to decide "matches none", and a small sound semantic superselector test
//! that backs up Sass' conservative is-superselector in the unify law (see
//! below); pseudo-elements of a unify result are not counted against the law
//! (a pseudo-element retargets a compound, it does not narrow it).

use serde::{Deserialize, Serialize};
use vp::report::{Check, Verdict};
use vp::rs::{self, Fmt, Out};

// ---------------------------------------------------------------- text model

/// Split `s` at depth 0 (outside parentheses, brackets, quotes) on `sep`.
fn split_top(s: &str, sep: char) -> Vec<String> {
    let mut out = Vec::new();
    let mut cur = String::new();
    let mut depth = 0i32;
    let mut quote: Option<char> = None;
    for ch in s.chars() {
        if let Some(q) = quote {
            cur.push(ch);
            if ch == q {
                quote = None;
            }
            continue;
        }
        match ch {
            '"' | '\'' => {
                quote = Some(ch);
                cur.push(ch);
            }
            '(' | '[' => {
                depth += 1;
                cur.push(ch);
            }
            ')' | ']' => {
                depth -= 1;
                cur.push(ch);
            }
            c if c == sep && depth == 0 => {
                out.push(std::mem::take(&mut cur));
            }
            c => cur.push(c),
        }
    }
    out.push(cur);
    out
}

fn list_items(s: &str) -> Vec<String> {
    split_top(s, ',').into_iter().map(|x| x.trim().to_string()).filter(|x| !x.is_empty()).collect()
}

/// Split a compound selector text into its simple selectors.
fn simples(c: &str) -> Vec<String> {
    let mut out: Vec<String> = Vec::new();
    let mut cur = String::new();
    let mut depth = 0i32;
    let mut prev = '\0';
    for ch in c.chars() {
        let start = depth == 0 && (matches!(ch, '.' | '#' | '[') || (ch == ':' && prev != ':'));
        if start && !cur.is_empty() {
            out.push(std::mem::take(&mut cur));
        }
        match ch {
            '(' | '[' => depth += 1,
            ')' | ']' => depth -= 1,
            _ => {}
        }
        cur.push(ch);
        prev = ch;
    }
    if !cur.is_empty() {
        out.push(cur);
    }
    out
}

/// Every compound (as its list of simple selector texts) occurring in the
/// selector list text `s`, at any depth (arguments of selector pseudos included).
fn all_compounds(s: &str, out: &mut Vec<Vec<String>>) {
    for complex in list_items(s) {
        for tok in split_top(&complex, ' ') {
            if tok.is_empty() || matches!(tok.as_str(), ">" | "+" | "~") {
                continue;
            }
            let simp = simples(&tok);
            for x in &simp {
                if x.starts_with(':') {
                    if let (Some(i), true) = (x.find('('), x.ends_with(')')) {
                        all_compounds(&x[i + 1..x.len() - 1], out);
                    }
                }
            }
            out.push(simp);
        }
    }
}

/// Model of "x matches none of s's complex selectors" (strongest reading: no
/// compound anywhere in s carries all simple selectors of one of x's compounds).
fn matches_none(s: &str, x: &str) -> bool {
    let mut comps = Vec::new();
    all_compounds(s, &mut comps);
    for xc in list_items(x) {
        let xs = simples(&xc);
        if xs.iter().any(|k| k == "*" || k.contains('|')) {
            return false; // wildcard matching: no claim
        }
        // a type selector against namespaced types, and a selector pseudo against
        // a pseudo of the same name, may "match" as superselectors without being
        // textually present: no claim
        let is_type = |k: &String| !matches!(k.chars().next(), Some('.' | '#' | '[' | ':'));
        if xs.iter().any(is_type) && s.contains('|') {
            return false;
        }
        for k in &xs {
            if let Some(i) = k.find('(') {
                if s.contains(&k[..=i]) {
                    return false;
                }
            }
        }
        if comps.iter().any(|c| xs.iter().all(|k| c.contains(k))) {
            return false;
        }
    }
    true
}


// ---------------------------------------------------------------- semantic superselector model
//
// Sass' is-superselector is a conservative approximation (dart-sass, too,
// answers false for `a > b` against `a > x ~ b` although every element matched
// by the second is matched by the first).  The unify law is about the notion
// itself, so a complex selector of the result is accepted when either the real
// is-superselector says so or this small sound model does: the subselector is
// read as a chain of elements e0..en; from the chain one knows, for each e_k,
// its preceding siblings (left neighbours over `+`/`~`), its parent (left end
// of its sibling run, when entered by `>`) and strict ancestors (every e_p
// with p < k whose own combinator is `>` or descendant).  The superselector's
// compounds are mapped right to left onto chain elements whose compound
// contains all their simple selectors (pseudo-elements of the subselector are
// ignored: a pseudo-element retargets, it does not narrow).

type Chain = Vec<(char, Vec<String>)>;

fn parse_chain(s: &str) -> Option<Chain> {
    let mut parts = Vec::new();
    let mut comb = ' ';
    let mut first = true;
    for t in split_top(s.trim(), ' ') {
        match t.as_str() {
            "" => {}
            ">" | "+" | "~" => {
                if first {
                    return None; // leading combinator: no claim from the model
                }
                comb = t.chars().next().unwrap_or(' ');
            }
            _ => {
                parts.push((comb, simples(&t)));
                comb = ' ';
                first = false;
            }
        }
    }
    if parts.is_empty() {
        None
    } else {
        Some(parts)
    }
}

fn comp_contains(sup: &[String], sub: &[String]) -> bool {
    sup.iter().all(|x| {
        if x == "*" || x == "*|*" || sub.contains(x) {
            return true;
        }
        // `*|a` matches `a` in every namespace
        match x.strip_prefix("*|") {
            Some(name) => sub.iter().any(|y| y == name || y.rsplit_once('|').is_some_and(|(_, n)| n == name)),
            None => false,
        }
    })
}

/// `a[..=j]` can be mapped onto the chain with a[j] on element k.
fn map_onto(a: &Chain, j: usize, c: &Chain, k: usize) -> bool {
    if !comp_contains(&a[j].1, &c[k].1) {
        return false;
    }
    if j == 0 {
        return true;
    }
    // relation between a[j-1] and a[j] is a[j].0; chain relation between c[p] and c[p+1] is c[p+1].0
    let sib = |ch: char| ch == '+' || ch == '~';
    match a[j].0 {
        '+' => k > 0 && c[k].0 == '+' && map_onto(a, j - 1, c, k - 1),
        '~' => {
            let mut p = k;
            while p > 0 && sib(c[p].0) {
                p -= 1;
                if map_onto(a, j - 1, c, p) {
                    return true;
                }
            }
            false
        }
        '>' => {
            let mut qd = k;
            while qd > 0 && sib(c[qd].0) {
                qd -= 1;
            }
            qd > 0 && c[qd].0 == '>' && map_onto(a, j - 1, c, qd - 1)
        }
        _ => (0..k).any(|p| !sib(c[p + 1].0) && map_onto(a, j - 1, c, p)),
    }
}

/// Sound (incomplete) semantic test: the selector list `sup` matches every
/// element the complex selector `sub` matches.
fn sem_sup(sup: &str, sub: &str) -> bool {
    let Some(c) = parse_chain(sub) else { return false };
    list_items(sup).iter().any(|a| match parse_chain(a) {
        Some(a) => map_onto(&a, a.len() - 1, &c, c.len() - 1),
        None => false,
    })
}

// ---------------------------------------------------------------- running

/// Sass double-quoted string literal denoting `s`.
fn q(s: &str) -> String {
    let mut o = String::from("\"");
    for ch in s.chars() {
        if ch == '"' || ch == '\\' {
            o.push('\\');
        }
        o.push(ch);
    }
    o.push('"');
    o
}

const USE: &str = "@use \"sass:selector\";";

/// Compile `a{p0:<e0>;p1:<e1>;...}` and return the printed values (None: the
/// declaration was omitted, i.e. the value is null).
fn props(exprs: &[String]) -> Result<Vec<Option<String>>, Out> {
    let mut src = String::from(USE);
    src.push_str("\na{");
    for (i, e) in exprs.iter().enumerate() {
        src.push_str(&format!("p{i}:{e};"));
    }
    src.push_str("}\n");
    match rs::compile_str(&src, Fmt::EXPANDED) {
        Out::Css(css) => {
            let mut out = vec![None; exprs.len()];
            for line in css.lines() {
                if let Some(rest) = line.strip_prefix("  p") {
                    if let Some((n, v)) = rest.split_once(": ") {
                        if let (Ok(i), Some(v)) = (n.parse::<usize>(), v.strip_suffix(';')) {
                            if i < out.len() {
                                out[i] = Some(v.to_string());
                            }
                        }
                    }
                }
            }
            Ok(out)
        }
        o => Err(o),
    }
}

fn panic_site(p: &str) -> String {
    // file + normalised message (no line number): survives unrelated edits
    vp::rs::panic_site(p)
}

fn err_verdict(what: &str, o: &Out) -> Verdict {
    match o {
        Out::Panic(p) => Verdict::fail_sig(format!("panic:{}", panic_site(p)), format!("{what}: panic {p}")),
        o => Verdict::fail(format!("{what}: {}", o.short())),
    }
}

/// The selector text of the single rule emitted for `src` (None: no rule).
fn emitted_selector(src: &str) -> Result<Option<String>, Out> {
    match rs::compile_str(src, Fmt::EXPANDED) {
        Out::Css(css) => {
            if css.trim().is_empty() {
                return Ok(None);
            }
            match css.strip_suffix(" {\n  x: y;\n}\n") {
                Some(sel) if !sel.contains('{') => Ok(Some(sel.to_string())),
                _ => Ok(Some(format!("<<unexpected output {css:?}>>"))),
            }
        }
        o => Err(o),
    }
}

// ---------------------------------------------------------------- cases

#[derive(Clone, Debug, Hash, Serialize, Deserialize)]
struct Pair {
    a: String,
    b: String,
}
#[derive(Clone, Debug, Hash, Serialize, Deserialize)]
struct Sxy {
    s: String,
    x: String,
    y: String,
}
#[derive(Clone, Debug, Hash, Serialize, Deserialize)]
struct Nest {
    /// selectors from outermost to innermost
    v: Vec<String>,
}

fn complexes(quick: bool) -> Vec<String> {
    let comp: &[&str] = &[
        "a", "b", "*", ".c", ".d", "#i", "#j", "a.c", "b.d", "[t]", ":hover", "::before", "::after", ":not(.c)",
        ":is(.c, .d)", ":root", ":host", "a::before",
    ];
    let comp_more: &[&str] = &["ns|a", "*|a", ".c.d", "a#i", ".c:hover", ":not(a)", ":where(a)", ":has(> a)", ":host(.c)", ":nth-child(2n+1)", "[t=v]"];
    let k2: &[&str] = if quick { &["a", "b", ".c", "#i", "b.d", "::before"] } else { &["a", "b", ".c", ".d", "#i", "b.d", ":root", "::before"] };
    let k3: &[&str] = if quick { &["a", ".c"] } else { &["a", ".c", "#i"] };
    let combs = [" ", " > ", " ~ ", " + "];
    let mut v: Vec<String> = comp.iter().map(|s| s.to_string()).collect();
    if !quick {
        v.extend(comp_more.iter().map(|s| s.to_string()));
    }
    for a in k2 {
        for c in combs {
            for b in k2 {
                v.push(format!("{a}{c}{b}"));
            }
        }
    }
    for a in k3 {
        for c1 in combs {
            for b in k3 {
                for c2 in combs {
                    for c in k3 {
                        if quick && (a == b || b == c) {
                            continue;
                        }
                        v.push(format!("{a}{c1}{b}{c2}{c}"));
                    }
                }
            }
        }
    }
    let mut seen = std::collections::HashSet::new();
    v.retain(|s| seen.insert(s.clone()));
    v
}

const LISTS: &[&str] = &["a, .c", "a .c, b > .d", ".c, .d, #i", "a.c, a + .c"];

fn main() {
    let ck = Check::from_args("C24");
    let quick = ck.quick();
    ck.rule("generated complex selectors (compounds; k1 comb k2; k1 comb k2 comb k3 over all four combinators) and lists; unify: all ordered pairs; extend/replace: s x compound extendee x extender; nest/append: parent x child (x grandchild) against the emitted selector of the equivalent nested rules; distinct = distinct argument texts; outcome = the printed results");
    ck.assume("selector.is-superselector is the relation the unify law is stated in (checked on its own in C23)");
    ck.assume("value printing of the selector functions' result lists (comma list of space lists of strings) is faithful; complex selectors are recovered by splitting at top-level commas");

    let cx = complexes(quick);
    let mut all: Vec<String> = cx.clone();
    all.extend(LISTS.iter().map(|s| s.to_string()));

    // ---- unify-super
    let pairs = vp::gen::pairs(&all, &all).map(|(a, b)| Pair { a, b });
    ck.run("unify-super", "all ordered pairs of the alphabet", pairs, |c: &Pair| {
        let u = match props(&[format!("selector.unify({}, {})", q(&c.a), q(&c.b))]) {
            Ok(v) => v,
            Err(o) => return err_verdict("selector.unify", &o),
        };
        let Some(u) = &u[0] else {
            return Verdict::Trivial; // null: nothing claimed
        };
        let items = list_items(u);
        let mut exprs = Vec::new();
        for it in &items {
            exprs.push(format!("selector.is-superselector({}, {})", q(&c.a), q(it)));
            exprs.push(format!("selector.is-superselector({}, {})", q(&c.b), q(it)));
        }
        let r = match props(&exprs) {
            Ok(v) => v,
            Err(o) => return err_verdict(&format!("is-superselector on the result {u:?}"), &o),
        };
        let mut bad = Vec::new();
        let mut by_model = 0u32;
        for (i, it) in items.iter().enumerate() {
            for (k, side) in [(0, &c.a), (1, &c.b)] {
                match r[2 * i + k].as_deref() {
                    Some("true") => {}
                    Some("false") => {
                        if sem_sup(side, it) {
                            by_model += 1;
                        } else {
                            bad.push(format!("{side:?} ⊉ {it:?}"));
                        }
                    }
                    o => return Verdict::fail(format!("unexpected is-superselector value {o:?}")),
                }
            }
        }
        if bad.is_empty() {
            Verdict::pass(&(u, by_model))
        } else {
            Verdict::fail(format!("unify({:?}, {:?}) = {u:?}: {}", c.a, c.b, bad.join("; ")))
        }
    });

    // ---- extend-keeps / replace-none
    let s_alpha: Vec<String> = {
        let base: &[&str] = &[
            "a", ".c", "a.c", "a.c.d", "#i.c", ".c:hover", ".c::before", "a .c", "a > .c", ".c ~ .d", ".c + a", ".c .c", "a.c .d > .c",
            ":not(.c)", ":is(.c, a)", ":where(.c) .d", ":has(> .c)", ".d:not(.c)", "a, .c", "a.c, .d .c", ".c, .c.d, a", ".d, a > .c, #i",
            "[t].c", "*", "*.c",
        ];
        let more: &[&str] = &[
            ".c.c", ":not(:is(.c))", ":nth-child(2n+1 of .c)", "::slotted(.c)", ":host(.c)", ":host-context(.c) a", "a ~ .c + .d > .c", ".c, .c", "ns|a.c",
            ":not(.c, .d)", ":is(a .c, .d)", ".c:not(.c)", "a.c, a.c.d, .c",
        ];
        let mut v: Vec<String> = base.iter().map(|s| s.to_string()).collect();
        if !quick {
            v.extend(more.iter().map(|s| s.to_string()));
            // and the generated complex selectors of the quick alphabet
            for c in complexes(true) {
                if !v.contains(&c) {
                    v.push(c);
                }
            }
        }
        v
    };
    let x_alpha: Vec<&str> = {
        let mut v = vec![".c", "a", ".d", "#i", ".q", "a.c", ".c.d", ":hover", "::before", "[t]", ".c, .d", ":not(.c)"];
        if !quick {
            v.extend(["b", ".c.q", "#q", ":focus", ":is(.c, a)", ".q, a", "a.c:hover"]);
        }
        v
    };
    let y_alpha: Vec<&str> = {
        let mut v = vec![".e", "b", ".c", "a.c", "b .e", "b > .e", ".e ~ .f", ".e, .f", ".c.e", "#j", "::after", ":not(.e)"];
        if !quick {
            v.extend(["a", ".d", "b + .e", "b .e > .f", ".e, b .f, #j", ":is(.e, .f)", "*", ":root .e", "#i"]);
        }
        v
    };
    let mut sxy: Vec<Sxy> = Vec::new();
    for s in &s_alpha {
        for x in &x_alpha {
            for y in &y_alpha {
                sxy.push(Sxy { s: s.clone(), x: x.to_string(), y: y.to_string() });
            }
        }
    }
    ck.note("replace_none_claims", serde_json::json!(sxy.iter().filter(|c| matches_none(&c.s, &c.x)).count()));
    ck.run("extend-keeps", "s x compound extendee x extender", sxy.clone().into_iter(), |c: &Sxy| {
        let r = match props(&[format!("selector.parse({})", q(&c.s)), format!("selector.extend({}, {}, {})", q(&c.s), q(&c.x), q(&c.y))]) {
            Ok(v) => v,
            Err(o) => return err_verdict("selector.extend", &o),
        };
        let (Some(orig), Some(res)) = (&r[0], &r[1]) else {
            return Verdict::fail(format!("extend({:?}, {:?}, {:?}) or parse returned null: {r:?}", c.s, c.x, c.y));
        };
        let orig_items = list_items(orig);
        let res_items = list_items(res);
        // subsequence check
        let mut j = 0;
        for o in &orig_items {
            match res_items[j..].iter().position(|r| r == o) {
                Some(k) => j += k + 1,
                None => {
                    let present = res_items.contains(o);
                    return Verdict::fail(format!(
                        "extend({:?}, {:?}, {:?}) = {res:?}: original {o:?} {} (originals {orig:?})",
                        c.s,
                        c.x,
                        c.y,
                        if present { "is out of order" } else { "is missing" }
                    ));
                }
            }
        }
        Verdict::pass(res)
    });

    ck.run("replace-none", "s x original x replacement; claim only where the original matches no compound of s", sxy.into_iter(), |c: &Sxy| {
        if !matches_none(&c.s, &c.x) {
            // run it anyway (must not panic), but nothing is claimed
            return match props(&[format!("selector.replace({}, {}, {})", q(&c.s), q(&c.x), q(&c.y))]) {
                Err(Out::Panic(p)) => Verdict::fail_sig(format!("panic:{}", panic_site(&p)), format!("selector.replace: panic {p}")),
                _ => Verdict::Trivial,
            };
        }
        let r = match props(&[format!("selector.parse({})", q(&c.s)), format!("selector.replace({}, {}, {})", q(&c.s), q(&c.x), q(&c.y))]) {
            Ok(v) => v,
            Err(o) => return err_verdict("selector.replace", &o),
        };
        if r[0].is_some() && r[0] == r[1] {
            Verdict::pass(&r)
        } else {
            Verdict::fail(format!("replace({:?}, {:?}, {:?}) = {:?}, expected the unchanged {:?}", c.s, c.x, c.y, r[1], r[0]))
        }
    });

    // ---- nest-emitted
    let parents: Vec<String> = {
        let mut v: Vec<String> = cx.clone();
        v.extend(LISTS.iter().map(|s| s.to_string()));
        v
    };
    let children: Vec<&str> = {
        let mut v = vec![
            "b", ".e", "b .e", "> b", "+ b", "~ b", "b > .e", "&", "&.e", "& .e", "& > .e", ".e &", ".e > &", "&:hover", "&::after", "&-s", "&_s", "&b",
            "& + &", ":not(&)", ":is(&, .e) b", "b, .e", "&.e, b", "& b, .e &", "&, &.e", "#j", "[u]", "*",
        ];
        if !quick {
            v.extend([
                "b ~ .e + #j", "&.e.f", "& &", ".e & .f", ":has(> &)", ":not(&.e)", "&:not(.e)", "&[u]", "&#j", "> b, + .e", "& > b, ~ .e", "b, &-s, & > .e",
                ":where(&) > b", "b:is(& .e)", "::before", "&::before:hover",
            ]);
        }
        v
    };
    let mut nests: Vec<Nest> = Vec::new();
    for p in &parents {
        for c in &children {
            nests.push(Nest { v: vec![p.clone(), c.to_string()] });
        }
    }
    {
        // three levels
        let p3: &[&str] = if quick { &["a", "a, .c", "a > .c"] } else { &["a", "a, .c", "a > .c", ".c ~ .d", "#i", "*", ":hover"] };
        let mid: &[&str] = &["b", "&.e", "> b", "b, &:hover", ".e &"];
        for p in p3 {
            for m in mid {
                for c in &children {
                    nests.push(Nest { v: vec![p.to_string(), m.to_string(), c.to_string()] });
                }
            }
        }
    }
    ck.run("nest-emitted", "parent x child (x grandchild), children with and without &", nests.into_iter(), |c: &Nest| {
        let args = c.v.iter().map(|s| q(s)).collect::<Vec<_>>().join(", ");
        let f = props(&[format!("selector.nest({args})")]);
        let mut src = String::new();
        for s in &c.v {
            src.push_str(s);
            src.push('{');
        }
        src.push_str("x:y");
        for _ in &c.v {
            src.push('}');
        }
        let e = emitted_selector(&src);
        judge_pair("selector.nest", &args, &src, f, e)
    });

    // ---- append-emitted
    let bases: Vec<String> = {
        let mut v: Vec<String> = cx.clone();
        v.extend(LISTS.iter().map(|s| s.to_string()));
        v
    };
    let suffixes: Vec<&str> = {
        let mut v = vec![".e", "#j", "[u]", ":hover", "::after", ":not(.e)", "-s", "_s", "b", "b.e", ".e.f", ".e:hover", ".e, :hover", "-s, .e", "b, #j"];
        if !quick {
            v.extend([":is(.e, .f)", ":nth-child(2)", "[u=v]", "--s", "s-1", ".e, -s, [u]", "::after:hover", ".e .f", ".e > .f", "-s .e"]);
        }
        v
    };
    let mut apps: Vec<Nest> = Vec::new();
    for p in &bases {
        for s in &suffixes {
            apps.push(Nest { v: vec![p.clone(), s.to_string()] });
        }
    }
    {
        let p3: &[&str] = if quick { &["a", "a, .c", "a > .c"] } else { &["a", "a, .c", "a > .c", ".c ~ .d", "#i", ":hover"] };
        let mid: &[&str] = &[".e", "-s", ":hover", ".e, -s"];
        for p in p3 {
            for m in mid {
                for s in &suffixes {
                    apps.push(Nest { v: vec![p.to_string(), m.to_string(), s.to_string()] });
                }
            }
        }
    }
    ck.run("append-emitted", "base x suffix (x suffix); suffix = simple selectors, name suffixes, lists of them", apps.into_iter(), |c: &Nest| {
        let args = c.v.iter().map(|s| q(s)).collect::<Vec<_>>().join(", ");
        let f = props(&[format!("selector.append({args})")]);
        let mut src = String::new();
        for (i, s) in c.v.iter().enumerate() {
            if i == 0 {
                src.push_str(s);
            } else {
                // `&` in front of every complex selector of the suffix list
                let items: Vec<String> = list_items(s).iter().map(|it| format!("&{it}")).collect();
                src.push_str(&items.join(", "));
            }
            src.push('{');
        }
        src.push_str("x:y");
        for _ in &c.v {
            src.push('}');
        }
        let e = emitted_selector(&src);
        judge_pair("selector.append", &args, &src, f, e)
    });

    ck.finish()
}

/// Known-defect variant of the emitted selector: in a nested rule `&` is
/// substituted through `Selector::unify` (css/selectors/selector.rs resolve_ref),
/// which, unlike selector.append, drops repeated classes, keeps only the first
/// pseudo-element and moves it to the end of its compound, and drops the whole
/// complex selector when a `:host`/`:host-context` compound also has a type,
/// class or `:hover`.  Predicts the emitted text from the function's result.
fn amp_via_unify(fn_result: &str) -> Option<String> {
    let mut out = Vec::new();
    'complex: for complex in list_items(fn_result) {
        let mut toks = Vec::new();
        for tok in split_top(&complex, ' ') {
            if tok.is_empty() {
                continue;
            }
            if matches!(tok.as_str(), ">" | "+" | "~") {
                toks.push(tok);
                continue;
            }
            let simp = simples(&tok);
            let host = simp.iter().any(|x| x == ":host" || x.starts_with(":host(") || x.starts_with(":host-context("));
            if host && simp.iter().any(|x| x == ":hover" || x.starts_with('.') || !matches!(x.chars().next(), Some('.' | '#' | '[' | ':'))) {
                continue 'complex;
            }
            let mut v: Vec<String> = Vec::new();
            let mut pe: Option<String> = None;
            for x in simp {
                if x.starts_with("::") {
                    if pe.is_none() {
                        pe = Some(x);
                    }
                } else if x.starts_with('.') && v.contains(&x) {
                    // repeated class dropped
                } else {
                    v.push(x);
                }
            }
            v.extend(pe);
            toks.push(v.concat());
        }
        out.push(toks.join(" "));
    }
    if out.is_empty() {
        None
    } else {
        Some(out.join(", "))
    }
}

/// Compare a selector function result with the emitted selector of `src`.
fn judge_pair(fname: &str, args: &str, src: &str, f: Result<Vec<Option<String>>, Out>, e: Result<Option<String>, Out>) -> Verdict {
    match (f, e) {
        (Err(Out::Panic(p)), _) => Verdict::fail_sig(format!("panic:{}", panic_site(&p)), format!("{fname}({args}): panic {p}")),
        (_, Err(Out::Panic(p))) => Verdict::fail_sig(format!("panic:{}", panic_site(&p)), format!("`{src}`: panic {p}")),
        (Err(_), Err(_)) => Verdict::Trivial,
        (Err(o), Ok(sel)) => Verdict::fail(format!("{fname}({args}) fails ({}) but `{src}` emits {sel:?}", o.err_head().unwrap_or(""))),
        (Ok(v), Err(o)) => Verdict::fail(format!("{fname}({args}) = {:?} but `{src}` fails: {}", v[0], o.err_head().unwrap_or(""))),
        (Ok(v), Ok(sel)) => {
            if v[0] == sel {
                Verdict::pass(&sel)
            } else {
                let detail = format!("{fname}({args}) = {:?} but `{src}` emits {sel:?}", v[0]);
                match &v[0] {
                    Some(f) if amp_via_unify(f) == sel => Verdict::fail_sig("amp-via-unify", detail),
                    _ => Verdict::fail(detail),
                }
            }
        }
    }
}
