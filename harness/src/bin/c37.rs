//! C37 @use/@forward configuration and visibility rules hold.
//!
//! Space: module graphs of up to 3 in-memory files (`r.scss` root, one or two
//! library files).  A library file declares the fixed member set
//! `$v`, `$d !default`, private `$-p` (or `$_p`), `@function f` (reads `$d`),
//! `@mixin m` (reads `$d`), private `@function -g` -- or the "mid" set `$w`,
//! `$e !default`, `@function h` -- after its load statements.  Load statements:
//! `@use url [as n|*] [with (..)]` (both clause orders) and
//! `@forward url [as p-*] [show|hide names] [with (.. [!default])]`.
//! Every case ends in exactly one *probe* in the root: a variable read, function
//! call, mixin include, assignment followed by a read/call, or a member listing
//! (`meta.module-variables/-functions`), with or without a namespace.
//! Sections slice this grammar by sub-claim of the statement; a last section
//! covers the built-in modules.
//! Oracle (R-vis): a reference interpreter of the Sass module system written
//! here (configuration objects with used-marks, public views, prefix/filter of
//! forwarded views, namespaces) that predicts the probe value or an error.
//! Known-defect variants: the same interpreter with switches, one per root
//! cause seen in rsass; a failing case gets the *smallest* switch set that
//! reproduces the real observation exactly as its signature, otherwise it is
//! an unsigned failure.

use serde::{Deserialize, Serialize};
use std::collections::{BTreeMap, BTreeSet};
use vp::report::{Check, Verdict};
use vp::rs::{self, ErrKind, Fmt, MemLoader, Out};

// ---------------------------------------------------------------------------
// case language
// ---------------------------------------------------------------------------

#[derive(Clone, Debug, Hash, PartialEq, Eq, Serialize, Deserialize)]
struct WithArg {
    name: String,
    val: i64,
    dflt: bool,
}

#[derive(Clone, Debug, Hash, PartialEq, Eq, Serialize, Deserialize)]
struct Load {
    /// "use" | "forward"
    kind: String,
    /// index of the target file
    to: usize,
    url: String,
    /// use: "" (default namespace) | "*" | name;  forward: "" | prefix (`p-` for `as p-*`)
    as_: String,
    /// forward only: "" | "show" | "hide"
    filter: String,
    /// forward only: the listed names, variables with `$`
    names: Vec<String>,
    with: Vec<WithArg>,
    /// use only: write `with (..)` before `as ..` (the order only rsass accepts)
    with_first: bool,
}

#[derive(Clone, Debug, Hash, PartialEq, Eq, Serialize, Deserialize)]
struct Expr {
    /// "var" | "fn"
    kind: String,
    ns: String,
    name: String,
}

#[derive(Clone, Debug, Hash, PartialEq, Eq, Serialize, Deserialize)]
struct FileSpec {
    path: String,
    loads: Vec<Load>,
    /// "" | "leaf" | "leaf_" (private spelled `$_p`) | "mid"
    members: String,
    /// `$i: <expr>;` after the members (visibility inside a library file)
    inner: Option<Expr>,
}

#[derive(Clone, Debug, Hash, PartialEq, Eq, Serialize, Deserialize)]
struct Probe {
    /// var | fn | mixin | assign-var | assign-fn | vars | fns
    kind: String,
    ns: String,
    name: String,
    /// assign-fn: the function called after the assignment
    read: String,
}

#[derive(Clone, Debug, Hash, Serialize, Deserialize)]
struct Case {
    files: Vec<FileSpec>,
    probe: Probe,
}

fn norm(s: &str) -> String {
    s.replace('_', "-")
}

fn is_private(name: &str) -> bool {
    name.starts_with('-') || name.starts_with('_')
}

// ---------- source text ----------

/// a configured value of `null` (only used for declared names, so no variable stays null)
const NULLV: i64 = i64::MIN;

fn with_text(w: &[WithArg]) -> String {
    let parts: Vec<String> = w
        .iter()
        .map(|a| format!("${}: {}{}", a.name, if a.val == NULLV { "null".to_string() } else { a.val.to_string() }, if a.dflt { " !default" } else { "" }))
        .collect();
    format!(" with ({})", parts.join(", "))
}

fn load_text(l: &Load) -> String {
    if l.kind == "use" {
        let a = match l.as_.as_str() {
            "" => String::new(),
            n => format!(" as {n}"),
        };
        let w = if l.with.is_empty() { String::new() } else { with_text(&l.with) };
        if l.with_first {
            format!("@use \"{}\"{w}{a};\n", l.url)
        } else {
            format!("@use \"{}\"{a}{w};\n", l.url)
        }
    } else {
        let mut s = format!("@forward \"{}\"", l.url);
        if !l.as_.is_empty() {
            s.push_str(&format!(" as {}*", l.as_));
        }
        if !l.filter.is_empty() {
            s.push_str(&format!(" {} {}", l.filter, l.names.join(", ")));
        }
        if !l.with.is_empty() {
            s.push_str(&with_text(&l.with));
        }
        s.push_str(";\n");
        s
    }
}

fn expr_text(e: &Expr) -> String {
    let ns = if e.ns.is_empty() { String::new() } else { format!("{}.", e.ns) };
    if e.kind == "var" {
        format!("{ns}${}", e.name)
    } else {
        format!("{ns}{}()", e.name)
    }
}

fn file_text(c: &Case, k: usize) -> String {
    let f = &c.files[k];
    let mut s = String::new();
    if k == 0 && (c.probe.kind == "vars" || c.probe.kind == "fns") {
        s.push_str("@use \"sass:meta\";\n@use \"sass:map\";\n");
    }
    for l in &f.loads {
        s.push_str(&load_text(l));
    }
    let b = 10 * k as i64;
    match f.members.as_str() {
        "leaf" | "leaf_" => {
            let p = if f.members == "leaf" { "-p" } else { "_p" };
            s.push_str(&format!(
                "$v: {};\n$d: {} !default;\n${p}: {};\n@function f() {{ @return $d; }}\n@mixin m() {{ m: $d; }}\n@function -g() {{ @return ${p}; }}\n",
                b + 1,
                b + 2,
                b + 3
            ));
        }
        "mid" => {
            s.push_str(&format!(
                "$w: {};\n$e: {} !default;\n@function h() {{ @return $e; }}\n",
                b + 5,
                b + 6
            ));
        }
        _ => {}
    }
    if let Some(e) = &f.inner {
        s.push_str(&format!("$i: {};\n", expr_text(e)));
    }
    if k == 0 {
        let p = &c.probe;
        let ns = if p.ns.is_empty() { String::new() } else { format!("{}.", p.ns) };
        match p.kind.as_str() {
            "var" => s.push_str(&format!("x {{ y: {ns}${}; }}\n", p.name)),
            "fn" => s.push_str(&format!("x {{ y: {ns}{}(); }}\n", p.name)),
            "mixin" => s.push_str(&format!("x {{ @include {ns}{}; }}\n", p.name)),
            "assign-var" => s.push_str(&format!("{ns}${}: 9;\nx {{ y: {ns}${}; }}\n", p.name, p.name)),
            "assign-fn" => s.push_str(&format!("{ns}${}: 9;\nx {{ y: {ns}{}(); }}\n", p.name, p.read)),
            "vars" => s.push_str(&format!(
                "x {{ y: meta.inspect(map.keys(meta.module-variables(\"{}\"))); }}\n",
                p.ns
            )),
            _ => s.push_str(&format!(
                "x {{ y: meta.inspect(map.keys(meta.module-functions(\"{}\"))); }}\n",
                p.ns
            )),
        }
    }
    s
}

// ---------------------------------------------------------------------------
// R-vis: the reference interpreter (with known-defect switches)
// ---------------------------------------------------------------------------

/// `with` is implemented by pre-defining the variables in the fresh module scope:
/// unknown / non-!default names are accepted (and become members), nothing is
/// passed on through `@forward`, no "unused configuration" check.
const F_CFG: u16 = 1;
/// `with` on a module that is already loaded is silently ignored.
const F_LOADED: u16 = 2;
/// private members (`-x`, `_x`) are part of a module's public view.
const F_PRIV: u16 = 4;
/// default namespace = text after the last `/` or `:` with `_` -> `-`; no stripping of a
/// leading underscore or of the extension; `as` names are stored raw but looked up normalised.
const F_NS: u16 = 8;
/// `@use .. as n with (..)` is a syntax error; only `with (..) as n` parses.
const F_ORDER: u16 = 16;
/// `@forward .. as p-* show/hide`: functions are filtered by the variable list and
/// variables by the function/mixin list.
const F_SWAP: u16 = 32;
/// `@use .. as *` copies the members into the using scope: they become members of the
/// using module (visible to *its* users) and assignments do not reach the used module.
const F_STAR: u16 = 64;
/// the view of a module that forwards something is a copy (assignments through the
/// namespace do not reach the module; the forwarding module's own members are copied too).
const F_FWDCOPY: u16 = 128;

const FLAG_NAMES: [(u16, &str); 8] = [
    (F_CFG, "config-predefine"),
    (F_LOADED, "config-loaded-ignored"),
    (F_PRIV, "private-visible"),
    (F_NS, "namespace-raw"),
    (F_ORDER, "as-with-order"),
    (F_SWAP, "prefix-filter-swapped"),
    (F_STAR, "star-copies"),
    (F_FWDCOPY, "forward-copies"),
];

#[derive(Clone, Debug, PartialEq, Eq, Hash, PartialOrd, Ord)]
enum O {
    Val(String),
    Err,
    /// the `expected ";"` syntax error at `as n with`
    ParseErr,
}

/// (defining module, variable the body reads)
type Callable = (usize, String);

#[derive(Clone, Default, Debug)]
struct Members {
    vars: BTreeMap<String, usize>,
    fns: BTreeMap<String, Callable>,
    mixins: BTreeMap<String, Callable>,
}

#[derive(Clone, Default, Debug)]
struct Mod {
    own: Members,
    fwd: Members,
    has_fwd: bool,
    ns: BTreeMap<String, Members>,
    stars: Vec<Members>,
}

struct CfgEntry {
    val: i64,
    used: bool,
}

struct World<'a> {
    case: &'a Case,
    fl: u16,
    /// reading choices of the reference: `with (..) as n` is a syntax error / `_` and `-`
    /// are the same character in a namespace
    strict_order: bool,
    ns_norm: bool,
    /// `@forward .. as p-* show $..` + configuration: the list is compared with the
    /// unprefixed name (what dart-sass' `throughForward` does) instead of the prefixed one
    cfg_filter_unprefixed: bool,
    cells: Vec<i64>,
    mods: Vec<Mod>,
    loaded: BTreeMap<usize, usize>,
    cfg: Vec<CfgEntry>,
    depth: usize,
    /// texts held by variables (code -> text)
    texts: BTreeMap<i64, String>,
}

type R<T> = Result<T, O>;

impl World<'_> {
    fn on(&self, f: u16) -> bool {
        self.fl & f != 0
    }

    fn new_cell(&mut self, v: i64) -> usize {
        self.cells.push(v);
        self.cells.len() - 1
    }

    fn recell(&mut self, m: &mut Members) {
        for c in m.vars.values_mut() {
            let v = self.cells[*c];
            self.cells.push(v);
            *c = self.cells.len() - 1;
        }
    }

    /// what users of module `m` see
    fn api(&mut self, m: usize) -> Members {
        let md = self.mods[m].clone();
        let mut out = md.fwd.clone();
        let keep = |n: &String| self.fl & F_PRIV != 0 || !is_private(n);
        for (n, c) in &md.own.vars {
            if keep(n) {
                out.vars.insert(n.clone(), *c);
            }
        }
        for (n, c) in &md.own.fns {
            if keep(n) {
                out.fns.insert(n.clone(), c.clone());
            }
        }
        for (n, c) in &md.own.mixins {
            if keep(n) {
                out.mixins.insert(n.clone(), c.clone());
            }
        }
        if md.has_fwd && self.on(F_FWDCOPY) {
            self.recell(&mut out);
        }
        out
    }

    fn default_namespace(&self, url: &str) -> R<String> {
        if self.on(F_NS) {
            let i = url.rfind([':', '/']).map_or(0, |i| i + 1);
            return Ok(url[i..].replace('_', "-"));
        }
        let base = url.rsplit('/').next().unwrap_or(url);
        let base = base.strip_prefix('_').unwrap_or(base);
        let base = base.split('.').next().unwrap_or(base);
        let mut ch = base.chars();
        let ok = match ch.next() {
            Some(c) if c.is_ascii_alphabetic() || c == '_' => true,
            Some('-') => base.len() > 1,
            _ => false,
        } && base.chars().all(|c| c.is_ascii_alphanumeric() || c == '-' || c == '_');
        if ok {
            Ok(base.to_string())
        } else {
            Err(O::Err)
        }
    }

    fn bind_key(&self, ns: &str, from_as: bool) -> String {
        if self.on(F_NS) {
            // `as` names are stored as written; default names were normalised on derivation
            let _ = from_as;
            ns.to_string()
        } else if self.ns_norm {
            norm(ns)
        } else {
            ns.to_string()
        }
    }

    fn lookup_key(&self, ns: &str) -> String {
        if self.on(F_NS) || self.ns_norm {
            norm(ns)
        } else {
            ns.to_string()
        }
    }

    /// is the forwarded member (`var`, prefixed name) let through by the filter?
    fn allowed(&self, l: &Load, var: bool, mixin: bool, name: &str) -> bool {
        if l.filter.is_empty() {
            return true;
        }
        let swapped = self.on(F_SWAP) && !l.as_.is_empty() && !mixin;
        let use_var_list = var != swapped;
        let listed = l.names.iter().any(|n| match n.strip_prefix('$') {
            Some(v) => use_var_list && norm(v) == name,
            None => !use_var_list && norm(n) == name,
        });
        if l.filter == "show" {
            listed
        } else {
            !listed
        }
    }

    fn parse_error_in(&self, file: usize) -> bool {
        self.case.files[file].loads.iter().any(|l| {
            l.kind == "use" && !l.as_.is_empty() && !l.with.is_empty() && {
                if self.on(F_ORDER) {
                    !l.with_first
                } else {
                    l.with_first && self.strict_order
                }
            }
        })
    }

    /// Execute file `file` as a module. `incoming`: configuration (name -> entry);
    /// `pre`: variables pre-defined by the F_CFG mechanism.
    fn exec(&mut self, file: usize, incoming: &[(String, usize)], pre: &[(String, i64)]) -> R<usize> {
        if self.parse_error_in(file) {
            return Err(O::ParseErr);
        }
        self.depth += 1;
        assert!(self.depth < 8, "generator produced a load cycle");
        let m = self.mods.len();
        self.mods.push(Mod::default());
        for (n, v) in pre {
            let c = self.new_cell(*v);
            self.mods[m].own.vars.insert(n.clone(), c);
        }
        let spec = self.case.files[file].clone();
        for l in &spec.loads {
            self.load(m, l, incoming)?;
        }
        let b = 10 * file as i64;
        let decls: Vec<(&str, i64, bool)> = match spec.members.as_str() {
            "leaf" | "leaf_" => vec![("v", b + 1, false), ("d", b + 2, true), ("-p", b + 3, false)],
            "mid" => vec![("w", b + 5, false), ("e", b + 6, true)],
            _ => vec![],
        };
        for (n, v, dflt) in decls {
            let mut val = v;
            if dflt {
                if self.on(F_CFG) {
                    // pre-defined by `with`: `!default` keeps it unless it is null
                    if self.mods[m].own.vars.get(n).is_some_and(|c| self.cells[*c] != NULLV) {
                        continue;
                    }
                } else if let Some((_, idx)) = incoming.iter().find(|(k, _)| k == n) {
                    // a configured null counts as configured (used) but lets the default apply
                    if self.cfg[*idx].val != NULLV {
                        val = self.cfg[*idx].val;
                    }
                    self.cfg[*idx].used = true;
                }
            }
            match self.mods[m].own.vars.get(n) {
                Some(c) => self.cells[*c] = val,
                None => {
                    let c = self.new_cell(val);
                    self.mods[m].own.vars.insert(n.to_string(), c);
                }
            }
        }
        match spec.members.as_str() {
            "leaf" | "leaf_" => {
                self.mods[m].own.fns.insert("f".into(), (m, "d".into()));
                self.mods[m].own.mixins.insert("m".into(), (m, "d".into()));
                self.mods[m].own.fns.insert("-g".into(), (m, "-p".into()));
            }
            "mid" => {
                self.mods[m].own.fns.insert("h".into(), (m, "e".into()));
            }
            _ => {}
        }
        if let Some(e) = &spec.inner {
            let v = self.eval(m, e)?;
            // `$i` holds a number or the text of a plain CSS function call (kept by code)
            let code = match v.parse::<i64>() {
                Ok(n) => n,
                Err(_) => {
                    let code = -1000 - self.texts.len() as i64;
                    self.texts.insert(code, v);
                    code
                }
            };
            let c = self.new_cell(code);
            self.mods[m].own.vars.insert("i".into(), c);
        }
        self.depth -= 1;
        self.loaded.insert(file, m);
        Ok(m)
    }

    fn load(&mut self, s: usize, l: &Load, incoming: &[(String, usize)]) -> R<()> {
        let forward = l.kind == "forward";
        // duplicate names in one with-clause
        let mut seen = BTreeSet::new();
        let dup = l.with.iter().any(|w| !seen.insert(norm(&w.name)));

        let target = if let Some(m) = self.loaded.get(&l.to).copied() {
            if !l.with.is_empty() && !self.on(F_LOADED) {
                return Err(O::Err);
            }
            m
        } else if self.on(F_CFG) {
            let mut pre: Vec<(String, i64)> = Vec::new();
            for w in &l.with {
                let n = norm(&w.name);
                let mut val = w.val;
                if w.dflt {
                    if let Some(c) = self.mods[s].own.vars.get(&n) {
                        val = self.cells[*c];
                    }
                }
                if pre.iter().any(|(k, _)| *k == n) {
                    return Err(O::Err);
                }
                pre.push((n, val));
            }
            self.exec(l.to, &[], &pre)?
        } else {
            if dup {
                return Err(O::Err);
            }
            let mut cfg: Vec<(String, usize)> = Vec::new();
            if forward {
                for (n, idx) in incoming {
                    if let Some(rest) = n.strip_prefix(l.as_.as_str()) {
                        let listed_as = if self.cfg_filter_unprefixed { rest } else { n.as_str() };
                        if self.allowed(l, true, false, listed_as) {
                            cfg.push((rest.to_string(), *idx));
                        }
                    }
                }
            }
            let mut own: Vec<usize> = Vec::new();
            for w in &l.with {
                let n = norm(&w.name);
                if w.dflt && cfg.iter().any(|(k, _)| *k == n) {
                    continue;
                }
                cfg.retain(|(k, _)| *k != n);
                self.cfg.push(CfgEntry { val: w.val, used: false });
                own.push(self.cfg.len() - 1);
                cfg.push((n, self.cfg.len() - 1));
            }
            let m = self.exec(l.to, &cfg, &[])?;
            if own.iter().any(|i| !self.cfg[*i].used) {
                return Err(O::Err);
            }
            m
        };

        let mut view = self.api(target);
        if forward {
            let mut out = Members::default();
            for (n, c) in &view.vars {
                let pn = format!("{}{n}", l.as_);
                if self.allowed(l, true, false, &pn) {
                    out.vars.insert(pn, *c);
                }
            }
            for (n, c) in &view.fns {
                let pn = format!("{}{n}", l.as_);
                if self.allowed(l, false, false, &pn) {
                    out.fns.insert(pn, c.clone());
                }
            }
            for (n, c) in &view.mixins {
                let pn = format!("{}{n}", l.as_);
                if self.allowed(l, false, true, &pn) {
                    out.mixins.insert(pn, c.clone());
                }
            }
            if self.on(F_FWDCOPY) {
                self.recell(&mut out);
            }
            let md = &mut self.mods[s];
            md.fwd.vars.extend(out.vars);
            md.fwd.fns.extend(out.fns);
            md.fwd.mixins.extend(out.mixins);
            md.has_fwd = true;
            return Ok(());
        }
        match l.as_.as_str() {
            "*" => {
                if self.on(F_STAR) {
                    self.recell(&mut view);
                    let md = &mut self.mods[s];
                    md.own.vars.extend(view.vars);
                    md.own.fns.extend(view.fns);
                    md.own.mixins.extend(view.mixins);
                } else {
                    self.mods[s].stars.push(view);
                }
            }
            "" => {
                let ns = self.default_namespace(&l.url)?;
                let key = self.bind_key(&ns, false);
                if self.mods[s].ns.insert(key, view).is_some() && !self.on(F_NS) {
                    return Err(O::Err);
                }
            }
            n => {
                let key = self.bind_key(n, true);
                if self.mods[s].ns.insert(key, view).is_some() && !self.on(F_NS) {
                    return Err(O::Err);
                }
            }
        }
        Ok(())
    }

    fn view_of(&self, s: usize, ns: &str) -> R<&Members> {
        self.mods[s].ns.get(&self.lookup_key(ns)).ok_or(O::Err)
    }

    fn var_cell(&self, s: usize, ns: &str, name: &str) -> R<usize> {
        let name = norm(name);
        if ns.is_empty() {
            if let Some(c) = self.mods[s].own.vars.get(&name) {
                return Ok(*c);
            }
            for v in &self.mods[s].stars {
                if let Some(c) = v.vars.get(&name) {
                    return Ok(*c);
                }
            }
            return Err(O::Err);
        }
        let view = self.view_of(s, ns)?;
        if is_private(&name) && !self.on(F_PRIV) {
            return Err(O::Err);
        }
        view.vars.get(&name).copied().ok_or(O::Err)
    }

    fn callable(&self, s: usize, ns: &str, name: &str, mixin: bool) -> R<Option<Callable>> {
        let name = norm(name);
        let pick = |m: &Members| if mixin { m.mixins.get(&name).cloned() } else { m.fns.get(&name).cloned() };
        if ns.is_empty() {
            if let Some(c) = pick(&self.mods[s].own) {
                return Ok(Some(c));
            }
            for v in &self.mods[s].stars {
                if let Some(c) = pick(v) {
                    return Ok(Some(c));
                }
            }
            return Ok(None);
        }
        let view = self.view_of(s, ns)?;
        if is_private(&name) && !self.on(F_PRIV) {
            return Err(O::Err);
        }
        pick(view).map(Some).ok_or(O::Err)
    }

    fn show(&self, v: i64) -> String {
        match self.texts.get(&v) {
            Some(t) => t.clone(),
            None => v.to_string(),
        }
    }

    fn call(&self, c: &Callable) -> R<String> {
        let cell = self.mods[c.0].own.vars.get(&c.1).ok_or(O::Err)?;
        Ok(self.show(self.cells[*cell]))
    }

    fn eval(&self, s: usize, e: &Expr) -> R<String> {
        if e.kind == "var" {
            let c = self.var_cell(s, &e.ns, &e.name)?;
            Ok(self.show(self.cells[c]))
        } else {
            match self.callable(s, &e.ns, &e.name, false)? {
                Some(c) => self.call(&c),
                None => Ok(format!("{}()", e.name)),
            }
        }
    }

    fn assign(&mut self, s: usize, ns: &str, name: &str, val: i64) -> R<()> {
        match self.var_cell(s, ns, name) {
            Ok(c) => {
                self.cells[c] = val;
                Ok(())
            }
            Err(e) => {
                if ns.is_empty() {
                    let c = self.new_cell(val);
                    self.mods[s].own.vars.insert(norm(name), c);
                    Ok(())
                } else {
                    Err(e)
                }
            }
        }
    }

    fn probe(&mut self, root: usize) -> R<String> {
        let p = self.case.probe.clone();
        let e = |kind: &str, name: &str| Expr {
            kind: kind.into(),
            ns: p.ns.clone(),
            name: name.into(),
        };
        match p.kind.as_str() {
            "var" => Ok(format!("y: {}", self.eval(root, &e("var", &p.name))?)),
            "fn" => Ok(format!("y: {}", self.eval(root, &e("fn", &p.name))?)),
            "mixin" => match self.callable(root, &p.ns, &p.name, true)? {
                Some(c) => Ok(format!("m: {}", self.call(&c)?)),
                None => Err(O::Err),
            },
            "assign-var" => {
                self.assign(root, &p.ns, &p.name, 9)?;
                Ok(format!("y: {}", self.eval(root, &e("var", &p.name))?))
            }
            "assign-fn" => {
                self.assign(root, &p.ns, &p.name, 9)?;
                Ok(format!("y: {}", self.eval(root, &e("fn", &p.read))?))
            }
            "vars" => {
                let v = self.view_of(root, &p.ns)?;
                Ok(format!("keys: {}", v.vars.keys().cloned().collect::<Vec<_>>().join(",")))
            }
            _ => {
                let v = self.view_of(root, &p.ns)?;
                Ok(format!("keys: {}", v.fns.keys().cloned().collect::<Vec<_>>().join(",")))
            }
        }
    }
}

fn run_model(case: &Case, fl: u16, strict_order: bool, ns_norm: bool, cfg_filter_unprefixed: bool) -> O {
    let mut w = World {
        case,
        fl,
        strict_order,
        ns_norm,
        cfg_filter_unprefixed,
        cells: Vec::new(),
        mods: Vec::new(),
        loaded: BTreeMap::new(),
        cfg: Vec::new(),
        depth: 0,
        texts: BTreeMap::new(),
    };
    let r = w.exec(0, &[], &[]).and_then(|root| w.probe(root));
    match r {
        Ok(v) => O::Val(v),
        Err(o) => o,
    }
}

/// Every outcome the (possibly defective) model accepts, over the reading choices.
fn model(case: &Case, fl: u16) -> Vec<O> {
    let mut out = Vec::new();
    for so in [true, false] {
        for nn in [false, true] {
            for cu in [false, true] {
                let o = run_model(case, fl, so, nn, cu);
                if !out.contains(&o) {
                    out.push(o);
                }
            }
        }
    }
    out
}

// ---------------------------------------------------------------------------
// real execution
// ---------------------------------------------------------------------------

fn has_std_as_with(case: &Case) -> bool {
    case.files
        .iter()
        .any(|f| f.loads.iter().any(|l| l.kind == "use" && !l.as_.is_empty() && !l.with.is_empty() && !l.with_first))
}

fn keys_of(v: &str) -> String {
    // `"a", "b"` | `("a",)` | `()`
    let mut keys: Vec<String> = Vec::new();
    let mut rest = v;
    while let Some(i) = rest.find('"') {
        let after = &rest[i + 1..];
        match after.find('"') {
            Some(j) => {
                keys.push(after[..j].to_string());
                rest = &after[j + 1..];
            }
            None => break,
        }
    }
    keys.sort();
    format!("keys: {}", keys.join(","))
}

fn run_real(case: &Case) -> (O, String, Option<String>) {
    let srcs: Vec<String> = (0..case.files.len()).map(|k| file_text(case, k)).collect();
    let files: Vec<(&str, &str)> = case.files.iter().zip(&srcs).map(|(f, s)| (f.path.as_str(), s.as_str())).collect();
    let loader = MemLoader::new(&files).with_budget(200);
    let (out, kind) = rs::compile_with_loader_kind(loader, &case.files[0].path, srcs[0].as_bytes(), Fmt::EXPANDED);
    let shown = out.short();
    let head = out.err_head().map(String::from);
    let o = match out {
        Out::Css(css) => match css.strip_prefix("x {\n  ").and_then(|b| b.strip_suffix(";\n}\n")) {
            Some(body) if !body.contains('\n') => {
                if case.probe.kind == "vars" || case.probe.kind == "fns" {
                    match body.strip_prefix("y: ") {
                        Some(v) => O::Val(keys_of(v)),
                        None => O::Val(format!("<<{body}>>")),
                    }
                } else {
                    O::Val(body.to_string())
                }
            }
            _ => O::Val(format!("<<unexpected css {css:?}>>")),
        },
        Out::Err(e) => {
            let head = e.lines().next().unwrap_or("");
            if kind == Some(ErrKind::Parse) && head == "expected \";\"." && has_std_as_with(case) {
                O::ParseErr
            } else {
                O::Err
            }
        }
        Out::Panic(p) => O::Val(format!("<<panic {p}>>")),
    };
    (o, shown, head)
}

fn describe(case: &Case) -> String {
    let mut s = String::new();
    for k in 0..case.files.len() {
        s.push_str(&format!("{}: {:?}; ", case.files[k].path, file_text(case, k)));
    }
    s
}

/// all non-empty switch sets, fewest switches first
fn switch_sets() -> &'static [u16] {
    static SETS: std::sync::OnceLock<Vec<u16>> = std::sync::OnceLock::new();
    SETS.get_or_init(|| {
        // defects repaired in /repo by fix: commits are no longer candidate explanations:
        // if the old behaviour returns it matches no signature and is reported
        const FIXED: u16 = F_SWAP;
        let mut sets: Vec<u16> = (1u16..256).filter(|s| s & FIXED == 0).collect();
        sets.sort_by_key(|s| (s.count_ones(), *s));
        sets
    })
}

fn check(case: &Case) -> Verdict {
    let want = model(case, 0);
    let (real, shown, head) = run_real(case);
    if let O::Val(v) = &real {
        if let Some(p) = v.strip_prefix("<<panic ") {
            let site: Vec<&str> = p.split(':').collect();
            let site = site[..site.len().min(2)].join(":");
            return Verdict::fail_sig(format!("panic:{site}"), format!("expected {want:?}, {shown}; {}", describe(case)));
        }
    }
    if want.contains(&real) {
        // only the presence of an error is specified; its first line goes into the observation
        return Verdict::pass(&(real, head));
    }
    // smallest set of known-defect switches that reproduces the observation exactly
    for fl in switch_sets() {
        let fl = *fl;
        if model(case, fl).contains(&real) {
            let names: Vec<&str> = FLAG_NAMES.iter().filter(|(f, _)| fl & f != 0).map(|(_, n)| *n).collect();
            return Verdict::fail_sig(
                names.join("+"),
                format!("expected {want:?}, got {real:?} ({shown}); reproduced by defect switches {names:?}; {}", describe(case)),
            );
        }
    }
    Verdict::fail(format!("expected {want:?}, got {real:?} ({shown}); {}", describe(case)))
}

// ---------------------------------------------------------------------------
// enumeration helpers
// ---------------------------------------------------------------------------

fn wa(name: &str, val: i64) -> WithArg {
    WithArg { name: name.into(), val, dflt: false }
}

fn wd(name: &str, val: i64) -> WithArg {
    WithArg { name: name.into(), val, dflt: true }
}

fn use_(to: usize, url: &str, as_: &str, with: Vec<WithArg>, with_first: bool) -> Load {
    Load {
        kind: "use".into(),
        to,
        url: url.into(),
        as_: as_.into(),
        filter: String::new(),
        names: vec![],
        with,
        with_first,
    }
}

fn fwd(to: usize, url: &str, prefix: &str, filter: &str, names: &[&str], with: Vec<WithArg>) -> Load {
    Load {
        kind: "forward".into(),
        to,
        url: url.into(),
        as_: prefix.into(),
        filter: filter.into(),
        names: names.iter().map(|s| s.to_string()).collect(),
        with,
        with_first: false,
    }
}

fn file(path: &str, loads: Vec<Load>, members: &str, inner: Option<Expr>) -> FileSpec {
    FileSpec {
        path: path.into(),
        loads,
        members: members.into(),
        inner,
    }
}

fn pr(kind: &str, ns: &str, name: &str) -> Probe {
    Probe {
        kind: kind.into(),
        ns: ns.into(),
        name: name.into(),
        read: String::new(),
    }
}

fn pr_af(ns: &str, name: &str, read: &str) -> Probe {
    Probe {
        kind: "assign-fn".into(),
        ns: ns.into(),
        name: name.into(),
        read: read.into(),
    }
}

/// All with-clauses: sequences of length 0..=max over the (name, value) alphabet;
/// the k-th entry gets value 7 + k so that duplicates are distinguishable.
fn with_lists(names: &[&str], max: usize, nulls: bool) -> Vec<Vec<WithArg>> {
    let mut out = Vec::new();
    for s in vp::gen::seqs_upto(names.len(), max) {
        let l: Vec<WithArg> = s.iter().enumerate().map(|(k, i)| wa(names[*i], 7 + k as i64)).collect();
        // the same list with `null` as its first value (declared names only)
        if nulls && l.first().is_some_and(|w| w.name != "u") {
            let mut n = l.clone();
            n[0].val = NULLV;
            out.push(l);
            out.push(n);
        } else {
            out.push(l);
        }
    }
    out
}

/// every probe against one namespace (or none) for the given member names
fn probes_for(ns: &str, vars: &[&str], fns: &[&str], mixins: &[&str], assign: &[(&str, &str)], lists: bool) -> Vec<Probe> {
    let mut v = Vec::new();
    for n in vars {
        v.push(pr("var", ns, n));
    }
    for n in fns {
        v.push(pr("fn", ns, n));
    }
    for n in mixins {
        v.push(pr("mixin", ns, n));
    }
    for (n, read) in assign {
        if read.is_empty() {
            v.push(pr("assign-var", ns, n));
        } else {
            v.push(pr_af(ns, n, read));
        }
    }
    if lists && !ns.is_empty() {
        v.push(pr("vars", ns, ""));
        v.push(pr("fns", ns, ""));
    }
    v
}

/// Development aid: `VP_ONLY=sec1,sec2` restricts the run to those sections.
fn only(section: &str) -> bool {
    match std::env::var("VP_ONLY") {
        Ok(v) if !v.is_empty() => v.split(',').any(|s| s == section),
        _ => true,
    }
}

// ---------------------------------------------------------------------------
// built-in modules
// ---------------------------------------------------------------------------

#[derive(Clone, Debug, Hash, Serialize, Deserialize)]
struct BCase {
    /// module name without `sass:`
    module: String,
    form: String,
}

/// (module, an expression using `NS.` for the namespace prefix, its value)
const BUILTINS: [(&str, &str, &str); 7] = [
    ("math", "NS.$pi", "3.1415926536"),
    ("list", "NS.length(1 2)", "2"),
    ("map", "NS.has-key((a: 1), a)", "true"),
    ("string", "NS.length(\"ab\")", "2"),
    ("meta", "NS.type-of(1)", "number"),
    ("color", "NS.alpha(#102030)", "1"),
    ("selector", "NS.is-superselector(\"a\", \"a\")", "true"),
];

const BFORMS: [&str; 27] = [
    "use", "use-as", "use-as-old-ns", "use-star",
    "with-known", "with-unknown", "with-known-as", "with-known-as-wf", "with-unknown-star",
    "forward-with", "forward-with-in-lib", "use-lib-with", "use-lib-read",
    "assign", "assign-as", "assign-default", "assign-unknown", "assign-global", "assign-star",
    "assign-via-forward", "assign-lib-own-var", "loadcss-with", "loadcss-plain",
    "with-empty-name-clash", "use-twice", "forward-show-read", "forward-hide-read",
];

/// (files, acceptable outcomes, the exact wrong observation of a known defect with its signature)
#[allow(clippy::type_complexity)]
fn builtin_case(c: &BCase) -> (Vec<(String, String)>, Vec<O>, Vec<(O, &'static str)>) {
    let (m, expr, val) = BUILTINS.iter().find(|b| b.0 == c.module).copied().unwrap_or(BUILTINS[0]);
    let rd = |ns: &str| {
        let e = if ns.is_empty() { expr.replace("NS.", "") } else { expr.replace("NS", ns) };
        format!("x {{ y: {e}; }}\n")
    };
    let ok = vec![O::Val(format!("y: {val}"))];
    let err = vec![O::Err];
    let var = if m == "math" { "pi" } else { "zz" };
    let r = |s: String| vec![("r.scss".to_string(), s)];
    let r2 = |s: String, a: String| vec![("r.scss".to_string(), s), ("a.scss".to_string(), a)];
    match c.form.as_str() {
        "use" => (r(format!("@use \"sass:{m}\";\n{}", rd(m))), ok, vec![]),
        "use-as" => (r(format!("@use \"sass:{m}\" as q;\n{}", rd("q"))), ok, vec![]),
        "use-as-old-ns" => (r(format!("@use \"sass:{m}\" as q;\n{}", rd(m))), err, vec![]),
        "use-star" => (r(format!("@use \"sass:{m}\" as *;\n{}", rd(""))), ok, vec![]),
        "with-known" => (r(format!("@use \"sass:{m}\" with (${var}: 3);\n{}", rd(m))), err, vec![]),
        "with-unknown" => (r(format!("@use \"sass:{m}\" with ($zz: 3);\n{}", rd(m))), err, vec![]),
        "with-known-as" => (r(format!("@use \"sass:{m}\" as q with (${var}: 3);\n{}", rd("q"))), err, vec![]),
        "with-known-as-wf" => (r(format!("@use \"sass:{m}\" with (${var}: 3) as q;\n{}", rd("q"))), err, vec![]),
        "with-unknown-star" => (r(format!("@use \"sass:{m}\" as * with ($zz: 3);\n{}", rd(""))), err, vec![]),
        "forward-with" => (r(format!("@forward \"sass:{m}\" with (${var}: 3);\nx {{ y: 1; }}\n")), err, vec![]),
        "forward-with-in-lib" => (
            r2(format!("@use \"a\";\n{}", rd("a")), format!("@forward \"sass:{m}\" with (${var}: 3);\n")),
            err,
            vec![],
        ),
        "use-lib-with" => (
            r2(format!("@use \"a\" with (${var}: 3);\n{}", rd("a")), format!("@forward \"sass:{m}\";\n")),
            err,
            vec![
                (O::Val("y: 3".into()), "builtin-configured-through-forward"),
                (O::Val(format!("y: {val}")), "builtin-configured-through-forward"),
            ],
        ),
        "use-lib-read" => (r2(format!("@use \"a\";\n{}", rd("a")), format!("@forward \"sass:{m}\";\n")), ok, vec![]),
        "assign" => (r(format!("@use \"sass:{m}\";\n{m}.${var}: 3;\n{}", rd(m))), err, vec![]),
        "assign-as" => (r(format!("@use \"sass:{m}\" as q;\nq.${var}: 3;\n{}", rd("q"))), err, vec![]),
        "assign-default" => {
            // a guarded assignment to an existing variable is a no-op in Sass; an error is as good
            let mut acc = vec![O::Err];
            if m == "math" {
                acc.push(O::Val(format!("y: {val}")));
            }
            (r(format!("@use \"sass:{m}\";\n{m}.${var}: 3 !default;\n{}", rd(m))), acc, vec![])
        }
        "assign-unknown" => (r(format!("@use \"sass:{m}\";\n{m}.$zz: 3;\n{}", rd(m))), err, vec![]),
        "assign-global" => (r(format!("@use \"sass:{m}\";\n{m}.${var}: 3 !global;\n{}", rd(m))), err, vec![]),
        "assign-star" => {
            if m == "math" {
                (
                    r(format!("@use \"sass:{m}\" as *;\n$pi: 3;\nx {{ y: $pi; }}\n")),
                    err,
                    vec![(O::Val("y: 3".into()), "builtin-assigned-through-star")],
                )
            } else {
                // a new variable of the root, nothing of the built-in module is touched
                (r(format!("@use \"sass:{m}\" as *;\n$zz: 3;\nx {{ y: $zz; }}\n")), vec![O::Val("y: 3".into())], vec![])
            }
        }
        "assign-via-forward" => (
            r2(format!("@use \"a\";\na.${var}: 3;\n{}", rd("a")), format!("@forward \"sass:{m}\";\n")),
            err,
            vec![],
        ),
        "assign-lib-own-var" => (
            r2(
                "@use \"a\";\na.$w: 3;\nx { y: a.$w; }\n".to_string(),
                format!("@forward \"sass:{m}\";\n$w: 1;\n"),
            ),
            vec![O::Val("y: 3".into())],
            vec![(O::Err, "forwarding-module-treated-as-builtin")],
        ),
        "loadcss-with" => (
            r(format!(
                "@use \"sass:meta\";\n@include meta.load-css(\"sass:{m}\", $with: ({var}: 3));\nx {{ y: 1; }}\n"
            )),
            err,
            vec![],
        ),
        "loadcss-plain" => (
            r(format!("@use \"sass:meta\";\n@include meta.load-css(\"sass:{m}\");\nx {{ y: 1; }}\n")),
            vec![O::Val("y: 1".into())],
            vec![],
        ),
        "with-empty-name-clash" => (
            // a user file named like the module does not make it configurable
            r2(format!("@use \"sass:{m}\" with ($d: 3);\n{}", rd(m)), "$d: 1 !default;\n".to_string()),
            err,
            vec![],
        ),
        "use-twice" => (r(format!("@use \"sass:{m}\";\n@use \"sass:{m}\" as q;\n{}", rd("q"))), ok, vec![]),
        "forward-show-read" => (
            r2(
                format!("@use \"a\";\n{}", rd("a")),
                format!("@forward \"sass:{m}\" show {};\n", builtin_member(expr)),
            ),
            ok,
            vec![],
        ),
        _ => (
            r2(
                format!("@use \"a\";\n{}", rd("a")),
                format!("@forward \"sass:{m}\" hide {};\n", builtin_member(expr)),
            ),
            err,
            vec![],
        ),
    }
}

/// `$pi` / `length`: the member that `expr` uses
fn builtin_member(expr: &str) -> String {
    let e = expr.trim_start_matches("NS.");
    let end = e.find('(').unwrap_or(e.len());
    e[..end].to_string()
}

fn check_builtin(c: &BCase) -> Verdict {
    let (files, want, known) = builtin_case(c);
    let name = if c.form == "with-empty-name-clash" { format!("{}.scss", c.module) } else { "a.scss".to_string() };
    let fs: Vec<(&str, &str)> = files
        .iter()
        .map(|(p, s)| (if p == "a.scss" { name.as_str() } else { p.as_str() }, s.as_str()))
        .collect();
    let loader = MemLoader::new(&fs).with_budget(100);
    let out = rs::compile_with_loader(loader, "r.scss", files[0].1.as_bytes(), Fmt::EXPANDED);
    let real = match &out {
        Out::Css(css) => match css.strip_prefix("x {\n  ").and_then(|b| b.strip_suffix(";\n}\n")) {
            Some(b) => O::Val(b.to_string()),
            None => O::Val(format!("<<unexpected css {css:?}>>")),
        },
        Out::Err(_) => O::Err,
        Out::Panic(p) => {
            let site: Vec<&str> = p.split(':').collect();
            let site = site[..site.len().min(2)].join(":");
            return Verdict::fail_sig(format!("panic:{site}"), format!("{files:?}: panic {p}"));
        }
    };
    if want.contains(&real) {
        return Verdict::pass(&(real, out.err_head().map(String::from)));
    }
    for (o, sig) in known {
        if o == real {
            return Verdict::fail_sig(sig, format!("{files:?}: expected {want:?}, got {}", out.short()));
        }
    }
    Verdict::fail(format!("{files:?}: expected {want:?}, got {}", out.short()))
}

// ---------------------------------------------------------------------------
// main
// ---------------------------------------------------------------------------

fn main() {
    let ck = Check::from_args("C37");
    let quick = ck.quick() && !ck.is_replay();
    ck.rule("module graphs of <= 3 in-memory files; library members {$v, $d !default, private $-p|$_p, function f, mixin m, private function -g} or {$w, $e !default, function h}; load statements @use [as n|*] [with(..)] (both clause orders) and @forward [as p-*] [show|hide ..] [with(.. [!default])] enumerated per section; exactly one probe per case (variable read, function call, mixin include, assignment + read/call, member listing; with every candidate namespace or none); distinct = distinct (graph, probe); outcome = probe value or error");
    ck.assume("the reference interpreter R-vis restates the Sass module system (dart-sass semantics) for this statement language; error *texts* are not compared, only the presence of an error (a syntax error at `as n with` is told apart by its message `expected \";\".`); where Sass leaves the reading open (`with (..) as n` order, `_` vs `-` in a namespace) both outcomes are accepted");
    macro_rules! run {
        ($name:expr, $bound:expr, $cases:expr) => {
            if only($name) {
                ck.run($name, $bound, $cases.into_iter(), check)
            }
        };
    }

    // ---- 1. configuration of a directly used module
    {
        let names: &[&str] = if quick { &["d", "v", "u", "-p"] } else { &["d", "v", "u", "-p", "_p", "f", "_d"] };
        let maxw = if quick { 2 } else { 3 };
        let mut cases = Vec::new();
        for members in if quick { vec!["leaf"] } else { vec!["leaf", "leaf_"] } {
            for with in with_lists(names, maxw, true) {
                for as_ in ["", "n", "*"] {
                    for wf in [false, true] {
                        if wf && (as_.is_empty() || with.is_empty()) {
                            continue;
                        }
                        let mut probes = Vec::new();
                        for ns in ["a", "n", ""] {
                            probes.extend(probes_for(
                                ns,
                                &["v", "d", "u", "-p", "_p"],
                                &["f", "-g"],
                                &["m"],
                                &[("v", ""), ("d", "f"), ("u", ""), ("-p", "-g")],
                                true,
                            ));
                        }
                        for p in probes {
                            cases.push(Case {
                                files: vec![
                                    file("r.scss", vec![use_(1, "a", as_, with.clone(), wf)], "", None),
                                    file("a.scss", vec![], members, None),
                                ],
                                probe: p,
                            });
                        }
                    }
                }
            }
        }
        run!(
            "use-config",
            &format!("r @use a: with-clauses of <= {maxw} entries over {names:?} x as {{default, n, *}} x both clause orders x every probe via a, n or no namespace"),
            cases
        );
    }

    // ---- 2. the default namespace
    {
        // (path of the file, url written in @use)
        let mut layouts: Vec<(&str, &str)> = vec![
            ("a.scss", "a"),
            ("_a.scss", "a"),
            ("_a.scss", "_a"),
            ("a.scss", "a.scss"),
            ("_a.scss", "_a.scss"),
            ("d/a.scss", "d/a"),
            ("d/_a.scss", "d/_a"),
            ("d/_a.scss", "d/_a.scss"),
            ("d/index.scss", "d"),
            ("d/_index.scss", "d"),
            ("a_b.scss", "a_b"),
            ("a.scss", "./a"),
        ];
        if !quick {
            layouts.extend([
                ("d/a.scss", "./d/a"),
                ("d/a.scss", "d/../d/a"),
                ("a-b.scss", "a-b"),
                ("_a_b.scss", "a_b"),
                ("d/index.scss", "d/index"),
                ("a.scss", "d/../a.scss"),
                ("_1a.scss", "1a"),
                ("_-a.scss", "-a"),
            ]);
        }
        let nss = ["a", "-a", "d", "a-b", "a_b", "index", "n", "n_x", "n-x", "b", ""];
        let mut cases = Vec::new();
        for (path, url) in &layouts {
            for as_ in ["", "n", "n_x", "*"] {
                for ns in nss {
                    for p in probes_for(ns, &["v"], &["f"], &["m"], &[("d", "f")], false) {
                        cases.push(Case {
                            files: vec![
                                file("r.scss", vec![use_(1, url, as_, vec![], false)], "", None),
                                file(path, vec![], "leaf", None),
                            ],
                            probe: p,
                        });
                    }
                }
            }
        }
        run!(
            "namespace",
            &format!("{} (path, url) layouts x as {{default, n, n_x, *}} x {} candidate namespaces x {{var, fn, mixin, assign}}", layouts.len(), nss.len()),
            cases
        );
    }

    // ---- 3. @forward show / hide / prefix
    {
        let alphabet: Vec<&str> = if quick {
            vec!["$v", "$d", "f", "m", "$f", "v", "$-p"]
        } else {
            vec!["$v", "$d", "f", "m", "$f", "v", "$-p", "-g", "$m", "d"]
        };
        let maxl = if quick { 2 } else { 3 };
        let mut lists: Vec<Vec<usize>> = Vec::new();
        for mask in 1u32..(1 << alphabet.len()) {
            if mask.count_ones() as usize <= maxl {
                lists.push((0..alphabet.len()).filter(|i| mask & (1 << i) != 0).collect());
            }
        }
        lists.sort_by_key(|l| l.len());
        let mut cases = Vec::new();
        for prefix in ["", "p-"] {
            // filters: none, or show/hide of a list spelled with or without the prefix
            let mut filters: Vec<(String, Vec<String>)> = vec![(String::new(), vec![])];
            for l in &lists {
                for kind in ["show", "hide"] {
                    let spellings: &[bool] = if prefix.is_empty() { &[false] } else { &[true, false] };
                    for prefixed in spellings {
                        let names: Vec<String> = l
                            .iter()
                            .map(|i| {
                                let n = alphabet[*i];
                                if *prefixed {
                                    match n.strip_prefix('$') {
                                        Some(v) => format!("${prefix}{v}"),
                                        None => format!("{prefix}{n}"),
                                    }
                                } else {
                                    n.to_string()
                                }
                            })
                            .collect();
                        filters.push((kind.to_string(), names));
                    }
                }
            }
            for (kind, names) in &filters {
                for as_ in if quick { vec!["", "*"] } else { vec!["", "*", "n"] } {
                    if as_ == "*" && quick && names.len() > 1 {
                        continue;
                    }
                    let ns = match as_ {
                        "" => "a",
                        "*" => "",
                        n => n,
                    };
                    let mut probes = probes_for(
                        ns,
                        &["v", "d", "-p", "p-v", "p-d", "p--p"],
                        &["f", "p-f", "-g", "p--g", "v", "p-v"],
                        &["m", "p-m", "f", "p-f"],
                        &[("d", "f"), ("p-d", "p-f")],
                        true,
                    );
                    if prefix.is_empty() {
                        probes.retain(|p| !p.name.starts_with("p-"));
                    }
                    for p in probes {
                        let names: Vec<&str> = names.iter().map(String::as_str).collect();
                        cases.push(Case {
                            files: vec![
                                file("r.scss", vec![use_(1, "a", as_, vec![], false)], "", None),
                                file("a.scss", vec![fwd(2, "b", prefix, kind, &names, vec![])], "mid", None),
                                file("b.scss", vec![], if as_ == "n" { "leaf_" } else { "leaf" }, None),
                            ],
                            probe: p,
                        });
                    }
                }
            }
        }
        run!(
            "forward-filter",
            &format!("r @use a [as *]; a @forward b [as p-*] [show|hide L], L = every subset of <= {maxl} names of {alphabet:?} spelled with and without the prefix; every member probed under its plain and prefixed name"),
            cases
        );
    }

    // ---- 4. configuration through @forward
    {
        let cfg_names: &[&str] = if quick { &["d", "p-d", "v", "e", "u"] } else { &["d", "p-d", "v", "e", "u", "p-v", "-p", "p_d"] };
        let maxw = if quick { 1 } else { 2 };
        let fwd_withs: Vec<Vec<WithArg>> = vec![
            vec![],
            vec![wa("d", 5)],
            vec![wd("d", 5)],
            vec![wa("v", 5)],
            vec![wa("u", 5)],
            vec![wd("u", 5)],
            vec![wa("d", 5), wd("d", 6)],
        ];
        let filters: Vec<(&str, Vec<&str>)> = vec![
            ("", vec![]),
            ("show", vec!["$d"]),
            ("hide", vec!["$d"]),
            ("show", vec!["$p-d"]),
            ("hide", vec!["$p-d"]),
            ("show", vec!["f"]),
            ("show", vec!["d", "p-d"]),
        ];
        let mut cases = Vec::new();
        // (null configuration values are enumerated for direct @use only)
        for with in with_lists(cfg_names, maxw, false) {
            for fw in &fwd_withs {
                for (fk, fnames) in &filters {
                    for prefix in ["", "p-"] {
                        for as_ in if quick { vec![""] } else { vec!["", "n"] } {
                            let ns = if as_.is_empty() { "a" } else { as_ };
                            let probes = probes_for(
                                ns,
                                &["d", "p-d", "u", "e", "v", "p-v"],
                                &["f", "p-f", "h"],
                                &["m", "p-m"],
                                &[],
                                true,
                            );
                            for p in probes {
                                cases.push(Case {
                                    files: vec![
                                        file("r.scss", vec![use_(1, "a", as_, with.clone(), !as_.is_empty() && !with.is_empty())], "", None),
                                        file("a.scss", vec![fwd(2, "b", prefix, fk, fnames, fw.clone())], "mid", None),
                                        file("b.scss", vec![], "leaf", None),
                                    ],
                                    probe: p,
                                });
                            }
                        }
                    }
                }
            }
        }
        run!(
            "forward-config",
            &format!("r @use a with(<= {maxw} of {cfg_names:?}); a @forward b [as p-*] [7 filters] [with: 7 forms incl. !default]; b and a's own !default variables probed by value, through f()/h()/m and by listing"),
            cases
        );
    }

    // ---- 5. three-file graphs: transitive visibility, shared modules, load order
    {
        // loads of a (towards b)
        let mut a_loads: Vec<Vec<Load>> = vec![vec![]];
        for as_ in ["", "*", "n"] {
            a_loads.push(vec![use_(2, "b", as_, vec![], false)]);
            // (`as` + `with` in the order rsass parses; the standard order is section use-config's business)
            a_loads.push(vec![use_(2, "b", as_, vec![wa("d", 5)], !as_.is_empty())]);
        }
        a_loads.push(vec![fwd(2, "b", "", "", &[], vec![])]);
        a_loads.push(vec![fwd(2, "b", "", "", &[], vec![wa("d", 5)])]);
        a_loads.push(vec![fwd(2, "b", "", "", &[], vec![wd("d", 5)])]);
        // the same module used and forwarded by a, in both orders, the second or the first configured
        a_loads.push(vec![use_(2, "b", "", vec![], false), fwd(2, "b", "", "", &[], vec![])]);
        a_loads.push(vec![use_(2, "b", "", vec![], false), fwd(2, "b", "", "", &[], vec![wa("d", 5)])]);
        a_loads.push(vec![fwd(2, "b", "", "", &[], vec![wa("d", 5)]), use_(2, "b", "", vec![], false)]);
        a_loads.push(vec![fwd(2, "b", "p-", "", &[], vec![]), use_(2, "b", "*", vec![], false)]);
        // loads of r
        let ua: Vec<Load> = ["", "*"].iter().map(|a| use_(1, "a", a, vec![], false)).collect();
        let mut ub: Vec<Load> = Vec::new();
        for a in ["", "*"] {
            ub.push(use_(2, "b", a, vec![], false));
            ub.push(use_(2, "b", a, vec![wa("d", 7)], !a.is_empty()));
        }
        let mut r_loads: Vec<Vec<Load>> = Vec::new();
        for x in &ua {
            r_loads.push(vec![x.clone()]);
        }
        for x in &ua {
            for y in &ub {
                r_loads.push(vec![x.clone(), y.clone()]);
                r_loads.push(vec![y.clone(), x.clone()]);
            }
        }
        if !quick {
            for x in &ua {
                r_loads.push(vec![use_(1, "a", &x.as_, vec![wa("e", 7)], !x.as_.is_empty())]);
                r_loads.push(vec![use_(1, "a", &x.as_, vec![wa("d", 7)], !x.as_.is_empty())]);
            }
        }
        let inners: Vec<Option<Expr>> = vec![
            None,
            Some(Expr { kind: "var".into(), ns: "".into(), name: "v".into() }),
            Some(Expr { kind: "var".into(), ns: "b".into(), name: "v".into() }),
            Some(Expr { kind: "fn".into(), ns: "".into(), name: "f".into() }),
            Some(Expr { kind: "fn".into(), ns: "n".into(), name: "f".into() }),
            Some(Expr { kind: "var".into(), ns: "b".into(), name: "-p".into() }),
        ];
        let mut cases = Vec::new();
        for rl in &r_loads {
            for al in &a_loads {
                for inner in &inners {
                    let mut probes = Vec::new();
                    for ns in ["a", "b", ""] {
                        probes.extend(probes_for(
                            ns,
                            &["v", "d", "w", "i"],
                            &["f", "h"],
                            &["m"],
                            if quick { &[("d", "f")] } else { &[("d", "f"), ("v", ""), ("e", "h")] },
                            ns != "",
                        ));
                    }
                    for p in probes {
                        cases.push(Case {
                            files: vec![
                                file("r.scss", rl.clone(), "", None),
                                file("a.scss", al.clone(), "mid", inner.clone()),
                                file("b.scss", vec![], "leaf", None),
                            ],
                            probe: p,
                        });
                    }
                }
            }
        }
        run!(
            "graph3",
            &format!("{} root bodies (@use a / @use b in both orders, as default|*, b configured or not) x {} bodies of a (@use b as default|*|n / @forward b, configured or not) x {} expressions evaluated inside a x probes via a, b, none", r_loads.len(), a_loads.len(), inners.len()),
            cases
        );
    }

    // ---- 6. built-in modules
    if only("builtin") {
        let mut cases = Vec::new();
        for b in BUILTINS {
            for f in BFORMS {
                cases.push(BCase { module: b.0.into(), form: f.into() });
            }
        }
        ck.run(
            "builtin",
            "7 built-in modules x 27 forms (use, as, *, with known/unknown, @forward with, configured or assigned through a forwarding file, assignment plain/!default/!global/unknown/through *, load-css with)",
            cases.into_iter(),
            check_builtin,
        );
    }

    ck.finish()
}
