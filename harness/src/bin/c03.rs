//! C03 Each module is executed once per compilation.
//!
//! Space: every acyclic @use/@forward graph over `r.scss` (root), `a.scss`,
//! `d/b.scss` (and `d/c.scss` in the 4-file sections); each file body is a list
//! of `@use "<url>" as u<k>` / `@forward "<url>"` statements (target x
//! spelling in {canonical, `./x`, `d/../x` resp. `../d/x`}).  Every module
//! owns a counter variable `$c<m>` (initially 0) that is bumped through its
//! mixin `bump-<m>`, and emits a marker rule `.m-<m>`.  Every file, after its
//! loads, bumps each module it @uses (in statement order) and prints the
//! counter it then sees: `.<file>-u<k> {v: u<k>.$c<m>}`.
//! Oracle (R-load): modules are identified by canonical path, executed once in
//! DFS order at their first load; one counter per module, every namespace is a
//! live view.  The expected CSS text follows exactly: every marker once, the
//! counters 1, 2, 3.. in execution order.
//! Section `graphs-4-flat`: four files in one directory, canonical URLs only.
//! Section `via-import`: the same module is used by the root and by a file the
//! root @imports.

use serde::{Deserialize, Serialize};
use std::collections::BTreeMap;
use vp::report::{Check, Verdict};
use vp::rs::{self, Fmt, Out};

const USE: u8 = 1;
const FORWARD: u8 = 2;

#[derive(Clone, Debug, Hash, PartialEq, Eq, Serialize, Deserialize)]
struct Edge {
    /// 1 @use, 2 @forward
    kind: u8,
    /// index of the target file
    to: u8,
    /// spelling: 0 canonical, 1 `./x`, 2 through a directory and back (`d/../x`, `../d/x`)
    sp: u8,
}

#[derive(Clone, Debug, Hash, Serialize, Deserialize)]
struct Case {
    /// load statements of r.scss, a.scss, d/b.scss [, d/c.scss], in source order
    files: Vec<Vec<Edge>>,
    /// all files in one directory: r.scss, a.scss, b.scss, c.scss
    #[serde(default)]
    flat: bool,
}

const TREE: [&str; 4] = ["r.scss", "a.scss", "d/b.scss", "d/c.scss"];
const FLAT: [&str; 4] = ["r.scss", "a.scss", "b.scss", "c.scss"];
type Paths = &'static [&'static str; 4];
const LETTER: [&str; 4] = ["r", "a", "b", "c"];

fn dir_of(path: &str) -> &str {
    match path.rfind('/') {
        Some(p) => &path[..=p],
        None => "",
    }
}

/// The URL written in `from` to load `to` with spelling `sp`.
fn spell(from: &str, to: &str, sp: u8) -> String {
    let stem = to.strip_suffix(".scss").unwrap_or(to);
    let fd = dir_of(from);
    let canonical = if fd.is_empty() {
        stem.to_string()
    } else if let Some(rest) = stem.strip_prefix(fd) {
        rest.to_string()
    } else {
        format!("../{stem}")
    };
    match sp {
        0 => canonical,
        1 => format!("./{canonical}"),
        _ => {
            if fd.is_empty() {
                format!("d/../{canonical}")
            } else {
                format!("../d/{canonical}")
            }
        }
    }
}

fn source(files: &[Vec<Edge>], i: usize, paths: Paths) -> String {
    let l = LETTER[i];
    let mut s = String::new();
    for (k, e) in files[i].iter().enumerate() {
        let url = spell(paths[i], paths[e.to as usize], e.sp);
        if e.kind == USE {
            s.push_str(&format!("@use \"{url}\" as u{k};\n"));
        } else {
            s.push_str(&format!("@forward \"{url}\";\n"));
        }
    }
    if i != 0 {
        s.push_str(&format!("$c{l}: 0;\n@mixin bump-{l} {{ $c{l}: $c{l} + 1 !global; }}\n"));
    }
    for (k, e) in files[i].iter().enumerate() {
        if e.kind == USE {
            let t = LETTER[e.to as usize];
            s.push_str(&format!("@include u{k}.bump-{t};\n.{l}-u{k} {{v: u{k}.$c{t}}}\n"));
        }
    }
    s.push_str(&format!(".m-{l} {{k: v}}\n"));
    s
}

// ---------- the model and its known-defect variants ----------

#[derive(Clone, Copy, Debug, PartialEq, Eq)]
struct Variant {
    /// module instances are keyed by the path as spelled (importer's spelled
    /// directory + URL) instead of the canonical path
    spelled_key: bool,
    /// `@use` of a module that itself executed an `@forward` binds the namespace
    /// to a copy of the module's variables taken at that moment
    snapshot: bool,
}

const CORRECT: Variant = Variant {
    spelled_key: false,
    snapshot: false,
};

#[derive(Default)]
struct Inst {
    counter: i64,
    has_forward: bool,
}

struct Run<'a> {
    files: &'a [Vec<Edge>],
    paths: Paths,
    v: Variant,
    inst: BTreeMap<String, Inst>,
    /// (selector, declaration) in output order
    out: Vec<(String, String)>,
}

impl Run<'_> {
    fn exec(&mut self, i: usize, me: &str) {
        let base = dir_of(me).to_string();
        // (k, target letter, instance key, snapshot value)
        let mut ns: Vec<(usize, &'static str, String, Option<i64>)> = Vec::new();
        for (k, e) in self.files[i].iter().enumerate() {
            let t = e.to as usize;
            let full = format!("{base}{}.scss", spell(self.paths[i], self.paths[t], e.sp));
            let key = if self.v.spelled_key {
                full
            } else {
                rs::normalize_path(&full).unwrap_or(full)
            };
            if !self.inst.contains_key(&key) {
                self.inst.insert(key.clone(), Inst::default());
                self.exec(t, &key);
            }
            if e.kind == FORWARD {
                if let Some(m) = self.inst.get_mut(me) {
                    m.has_forward = true;
                }
            } else {
                let target = &self.inst[&key];
                let snap = if self.v.snapshot && target.has_forward {
                    Some(target.counter)
                } else {
                    None
                };
                ns.push((k, LETTER[t], key, snap));
            }
        }
        for (k, _t, key, snap) in ns {
            let live = {
                let m = self.inst.get_mut(&key).expect("instance exists");
                m.counter += 1;
                m.counter
            };
            self.out.push((format!(".{}-u{k}", LETTER[i]), format!("v: {}", snap.unwrap_or(live))));
        }
        self.out.push((format!(".m-{}", LETTER[i]), "k: v".to_string()));
    }
}

fn predict(files: &[Vec<Edge>], paths: Paths, v: Variant) -> String {
    let mut r = Run {
        files,
        paths,
        v,
        inst: BTreeMap::new(),
        out: Vec::new(),
    };
    r.inst.insert(paths[0].to_string(), Inst::default());
    r.exec(0, paths[0]);
    render(&r.out)
}

fn render(rules: &[(String, String)]) -> String {
    let blocks: Vec<String> = rules.iter().map(|(s, d)| format!("{s} {{\n  {d};\n}}\n")).collect();
    blocks.join("\n")
}

fn acyclic(files: &[Vec<Edge>]) -> bool {
    // no file reaches itself
    let n = files.len();
    for s in 0..n {
        let mut seen = vec![false; n];
        let mut todo: Vec<usize> = files[s].iter().map(|e| e.to as usize).collect();
        while let Some(i) = todo.pop() {
            if i == s {
                return false;
            }
            if !seen[i] {
                seen[i] = true;
                todo.extend(files[i].iter().map(|e| e.to as usize));
            }
        }
    }
    true
}

/// Files the root cannot reach have no influence: only the representative
/// with empty bodies is kept.
fn relevant(files: &[Vec<Edge>]) -> bool {
    let n = files.len();
    let mut reach = vec![false; n];
    let mut todo = vec![0usize];
    reach[0] = true;
    while let Some(i) = todo.pop() {
        for e in &files[i] {
            let t = e.to as usize;
            if !reach[t] {
                reach[t] = true;
                todo.push(t);
            }
        }
    }
    (0..n).all(|i| reach[i] || files[i].is_empty())
}

fn marker_counts(css: &str, n: usize) -> Vec<usize> {
    (0..n)
        .map(|i| {
            let m = format!(".m-{} {{", LETTER[i]);
            css.matches(&m).count()
        })
        .collect()
}

fn describe(files: &[Vec<Edge>], paths: Paths) -> String {
    let mut s = String::new();
    for i in 0..files.len() {
        s.push_str(&format!("{}: {:?}; ", paths[i], source(files, i, paths)));
    }
    s
}

fn panic_sig(p: &str) -> String {
    let site = p.split(": ").next().unwrap_or("?");
    let parts: Vec<&str> = site.split(':').collect();
    format!("panic:{}", parts[..parts.len().min(2)].join(":"))
}

fn check(case: &Case) -> Verdict {
    let files = &case.files;
    let n = files.len();
    let paths: Paths = if case.flat { &FLAT } else { &TREE };
    let srcs: Vec<String> = (0..n).map(|i| source(files, i, paths)).collect();
    let fs: Vec<(&str, &str)> = (0..n).map(|i| (paths[i], srcs[i].as_str())).collect();
    let out = rs::compile_files(&fs, paths[0], srcs[0].as_bytes(), Fmt::EXPANDED);
    let want = predict(files, paths, CORRECT);
    let got = match &out {
        Out::Css(c) => c.clone(),
        Out::Panic(p) => return Verdict::fail_sig(panic_sig(p), format!("panic {p}; {}", describe(files, paths))),
        Out::Err(e) => {
            return Verdict::fail(format!(
                "acyclic module graph does not compile: {:?}; {}",
                vp::report::truncate(e, 300),
                describe(files, paths)
            ))
        }
    };
    if got == want {
        return Verdict::pass(&got);
    }
    // which sub-claim is broken
    let reach: Vec<bool> = (0..n).map(|i| want.contains(&format!(".m-{} {{", LETTER[i]))).collect();
    let counts = marker_counts(&got, n);
    let dup: Vec<String> = (0..n)
        .filter(|i| counts[*i] != usize::from(reach[*i]))
        .map(|i| format!("{} x{}", paths[i], counts[i]))
        .collect();
    let what = if dup.is_empty() {
        "users do not see the same module variables".to_string()
    } else {
        format!("module CSS not emitted exactly once ({})", dup.join(", "))
    };
    let detail = format!("{what}: got {got:?}, expected {want:?}; {}", describe(files, paths));
    let variants = [
        ("module-keyed-by-spelled-path", Variant { spelled_key: true, snapshot: false }),
        ("use-of-forwarding-module-copies-variables", Variant { spelled_key: false, snapshot: true }),
        ("spelled-path+copied-variables", Variant { spelled_key: true, snapshot: true }),
    ];
    for (sig, v) in variants {
        if predict(files, paths, v) == got {
            return Verdict::fail_sig(sig, detail);
        }
    }
    Verdict::fail(detail)
}

// ---------- via @import ----------

#[derive(Clone, Debug, Hash, Serialize, Deserialize)]
struct ImpCase {
    /// spelling of the root's own `@use` of a.scss (None: the root does not use it)
    root_use: Option<u8>,
    /// how often the root imports i.scss
    imports: u8,
    /// spelling of i.scss' `@use` of a.scss
    inner_use: u8,
    /// the @import is nested in a style rule
    nested: bool,
}

fn check_import(c: &ImpCase) -> Verdict {
    let a = "$ca: 0;\n@mixin bump-a { $ca: $ca + 1 !global; }\n.m-a {k: v}\n";
    let i = format!(
        "@use \"{}\" as u0;\n@include u0.bump-a;\n.i-u0 {{v: u0.$ca}}\n",
        spell("i.scss", "a.scss", c.inner_use)
    );
    let mut r = String::new();
    if let Some(sp) = c.root_use {
        r.push_str(&format!("@use \"{}\" as u0;\n", spell("r.scss", "a.scss", sp)));
    }
    for _ in 0..c.imports {
        if c.nested {
            r.push_str(".w {\n  @import \"i\";\n}\n");
        } else {
            r.push_str("@import \"i\";\n");
        }
    }
    if c.root_use.is_some() {
        r.push_str("@include u0.bump-a;\n.r-u0 {v: u0.$ca}\n");
    }
    r.push_str(".m-r {k: v}\n");
    let out = rs::compile_files(&[("a.scss", a), ("i.scss", &i)], "r.scss", r.as_bytes(), Fmt::EXPANDED);
    let show = format!("r.scss: {r:?}; i.scss: {i:?}; a.scss: {a:?}");
    let css = match &out {
        Out::Css(c) => c.clone(),
        Out::Panic(p) => return Verdict::fail_sig(panic_sig(p), format!("panic {p}; {show}")),
        Out::Err(e) => return Verdict::fail(format!("does not compile: {:?}; {show}", vp::report::truncate(e, 300))),
    };
    // observed: number of marker rules of a, and the counters in output order
    let markers = css.matches(".m-a {").count();
    let seen: Vec<i64> = css
        .lines()
        .filter_map(|l| l.trim().strip_prefix("v: "))
        .filter_map(|v| v.trim_end_matches(';').parse().ok())
        .collect();
    let total = c.imports as i64 + i64::from(c.root_use.is_some());
    let want: Vec<i64> = (1..=total).collect();
    if markers == 1 && seen == want {
        return Verdict::pass(&css);
    }
    let detail = format!("module a.scss: marker emitted {markers} times (expected 1), counters seen {seen:?} (expected {want:?}); output {css:?}; {show}");
    // known defect: every @import starts a fresh module cache (a new CssData), so a
    // module used inside an imported file is executed again for every import and
    // once more for the root's own use
    let v_markers = c.imports as usize + usize::from(c.root_use.is_some());
    let mut v_seen: Vec<i64> = vec![1; c.imports as usize];
    if c.root_use.is_some() {
        v_seen.push(1);
    }
    if markers == v_markers && seen == v_seen {
        return Verdict::fail_sig("module-cache-per-import", detail);
    }
    Verdict::fail(detail)
}

// ---------- enumeration ----------

fn bodies(choices: &[Edge], max: usize) -> Vec<Vec<Edge>> {
    let mut out: Vec<Vec<Edge>> = vec![vec![]];
    let mut last: Vec<Vec<Edge>> = vec![vec![]];
    for _ in 0..max {
        let mut next = Vec::new();
        for b in &last {
            for e in choices {
                let mut nb = b.clone();
                nb.push(e.clone());
                next.push(nb);
            }
        }
        out.extend(next.iter().cloned());
        last = next;
    }
    out
}

fn choices(from: usize, n: usize, spellings: u8) -> Vec<Edge> {
    let mut v = Vec::new();
    for kind in [USE, FORWARD] {
        for to in 1..n {
            if to == from {
                continue;
            }
            for sp in 0..spellings {
                v.push(Edge {
                    kind,
                    to: to as u8,
                    sp,
                });
            }
        }
    }
    v
}

/// All acyclic graphs over `n` files with at most `max[i]` statements in file i.
fn graphs(n: usize, max: Vec<usize>, spellings: u8, flat: bool) -> impl Iterator<Item = Case> {
    let per: Vec<Vec<Vec<Edge>>> = (0..n).map(|i| bodies(&choices(i, n, spellings), max[i])).collect();
    let radix: Vec<usize> = per.iter().map(Vec::len).collect();
    vp::gen::mixed(radix)
        .map(move |ix| Case {
            files: ix.iter().enumerate().map(|(i, k)| per[i][*k].clone()).collect(),
            flat,
        })
        .filter(|c| relevant(&c.files) && acyclic(&c.files))
}

fn main() {
    let ck = Check::from_args("C03");
    let quick = ck.quick() && !ck.is_replay();
    ck.rule("acyclic @use/@forward graphs over r.scss, a.scss, d/b.scss (, d/c.scss): each file body = list of (@use as u<k> | @forward) x target x spelling in {x, ./x, d/../x | ../d/x}; every file bumps the counter of each module it uses and prints it; files the root cannot reach are empty; distinct = distinct graph; outcome = the CSS text (markers and counters)");
    ck.assume("module CSS is emitted where the module is first loaded (all @use/@forward rules precede every other statement, so this equals dart-sass' dependency order)");

    let (r3, o3) = if quick { (2, 2) } else { (3, 2) };
    ck.run(
        "graphs-3",
        &format!("3 files, <= {r3} statements in the root, <= {o3} in a.scss and d/b.scss, 3 spellings"),
        graphs(3, vec![r3, o3, o3], 3, false),
        check,
    );
    let sp4 = if quick { 2 } else { 3 };
    ck.run(
        "graphs-4",
        &format!("4 files, <= 2 statements in the root, <= 1 in the others, {sp4} spellings"),
        graphs(4, vec![2, 1, 1, 1], sp4, false),
        check,
    );
    if !quick {
        ck.run(
            "graphs-4-deep",
            "4 files, <= 2 statements in the root and in a.scss, <= 1 in d/b.scss and d/c.scss, 2 spellings",
            graphs(4, vec![2, 2, 1, 1], 2, false),
            check,
        );
    }

    // all files in one directory, canonical URLs only: the diamond shapes proper
    let fl = if quick { vec![3, 1, 1, 1] } else { vec![3, 2, 2, 2] };
    ck.run(
        "graphs-4-flat",
        &format!("4 files in one directory, canonical URLs, <= {fl:?} statements per file"),
        graphs(4, fl.clone(), 1, true),
        check,
    );

    let mut imp = Vec::new();
    for root_use in [None, Some(0u8), Some(1), Some(2)] {
        for imports in 1..=3u8 {
            for inner_use in 0..3u8 {
                // (a nested @import of a file with @use rules is kept out: not clearly valid Sass)
                for nested in [false] {
                    imp.push(ImpCase {
                        root_use,
                        imports,
                        inner_use,
                        nested,
                    });
                }
            }
        }
    }
    ck.run(
        "via-import",
        "a.scss used by the root (not / 3 spellings) and by i.scss (3 spellings), which the root imports 1..3 times",
        imp.into_iter(),
        check_import,
    );
    ck.finish()
}
