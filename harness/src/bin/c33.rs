//! C33 Emitted color text denotes the computed color.
//!
//! Space: colour-valued expressions — every short-hex colour (as written, through
//! a function that keeps the hex source, through one that resets it), every
//! named colour (same paths, with alpha, as hex and as rgb(), and a one-off
//! neighbour that must not get the name), integer and fractional rgb grids, hsl
//! and hwb grids incl. out-of-range and wrap-around inputs, the formatter's
//! 1e-7 boundary values, and ~30-50 adjustment-function templates over an in-range
//! palette — x output precision {10, 5 | 10, 5, 3, 1, 0} x {expanded, compressed}.
//!
//! Oracle: the *computed* colour is read from rsass without printing any colour
//! (blackness() of the colour with two rgb channels zeroed = 1 - channel/255,
//! alpha(), at precision 15); the *emitted* token is decoded by R-color, an own
//! CSS Color 4 decoder for hex / short hex / names / rgb() / rgba() / hsl() /
//! hsla() / `transparent`.  The two must agree to the output precision: half a
//! unit of the last printed place of every printed number, propagated through
//! the hsl->rgb formula for hsl() text; exactly for hex and names.

#![allow(dead_code)]

use serde::{Deserialize, Serialize};
use std::collections::BTreeMap;
use vp::report::{Check, Verdict};
use vp::rs::{self, Fmt, Out};

// ======================= R-color: the reference model =======================

/// CSS named colours (CSS Color 4 section 6.1), typed from the specification.
const NAMES: &[(&str, &str)] = &[
    ("aliceblue", "f0f8ff"), ("antiquewhite", "faebd7"), ("aqua", "00ffff"),
    ("aquamarine", "7fffd4"), ("azure", "f0ffff"), ("beige", "f5f5dc"),
    ("bisque", "ffe4c4"), ("black", "000000"), ("blanchedalmond", "ffebcd"),
    ("blue", "0000ff"), ("blueviolet", "8a2be2"), ("brown", "a52a2a"),
    ("burlywood", "deb887"), ("cadetblue", "5f9ea0"), ("chartreuse", "7fff00"),
    ("chocolate", "d2691e"), ("coral", "ff7f50"), ("cornflowerblue", "6495ed"),
    ("cornsilk", "fff8dc"), ("crimson", "dc143c"), ("cyan", "00ffff"),
    ("darkblue", "00008b"), ("darkcyan", "008b8b"), ("darkgoldenrod", "b8860b"),
    ("darkgray", "a9a9a9"), ("darkgreen", "006400"), ("darkgrey", "a9a9a9"),
    ("darkkhaki", "bdb76b"), ("darkmagenta", "8b008b"), ("darkolivegreen", "556b2f"),
    ("darkorange", "ff8c00"), ("darkorchid", "9932cc"), ("darkred", "8b0000"),
    ("darksalmon", "e9967a"), ("darkseagreen", "8fbc8f"), ("darkslateblue", "483d8b"),
    ("darkslategray", "2f4f4f"), ("darkslategrey", "2f4f4f"), ("darkturquoise", "00ced1"),
    ("darkviolet", "9400d3"), ("deeppink", "ff1493"), ("deepskyblue", "00bfff"),
    ("dimgray", "696969"), ("dimgrey", "696969"), ("dodgerblue", "1e90ff"),
    ("firebrick", "b22222"), ("floralwhite", "fffaf0"), ("forestgreen", "228b22"),
    ("fuchsia", "ff00ff"), ("gainsboro", "dcdcdc"), ("ghostwhite", "f8f8ff"),
    ("gold", "ffd700"), ("goldenrod", "daa520"), ("gray", "808080"),
    ("green", "008000"), ("greenyellow", "adff2f"), ("grey", "808080"),
    ("honeydew", "f0fff0"), ("hotpink", "ff69b4"), ("indianred", "cd5c5c"),
    ("indigo", "4b0082"), ("ivory", "fffff0"), ("khaki", "f0e68c"),
    ("lavender", "e6e6fa"), ("lavenderblush", "fff0f5"), ("lawngreen", "7cfc00"),
    ("lemonchiffon", "fffacd"), ("lightblue", "add8e6"), ("lightcoral", "f08080"),
    ("lightcyan", "e0ffff"), ("lightgoldenrodyellow", "fafad2"), ("lightgray", "d3d3d3"),
    ("lightgreen", "90ee90"), ("lightgrey", "d3d3d3"), ("lightpink", "ffb6c1"),
    ("lightsalmon", "ffa07a"), ("lightseagreen", "20b2aa"), ("lightskyblue", "87cefa"),
    ("lightslategray", "778899"), ("lightslategrey", "778899"), ("lightsteelblue", "b0c4de"),
    ("lightyellow", "ffffe0"), ("lime", "00ff00"), ("limegreen", "32cd32"),
    ("linen", "faf0e6"), ("magenta", "ff00ff"), ("maroon", "800000"),
    ("mediumaquamarine", "66cdaa"), ("mediumblue", "0000cd"), ("mediumorchid", "ba55d3"),
    ("mediumpurple", "9370db"), ("mediumseagreen", "3cb371"), ("mediumslateblue", "7b68ee"),
    ("mediumspringgreen", "00fa9a"), ("mediumturquoise", "48d1cc"), ("mediumvioletred", "c71585"),
    ("midnightblue", "191970"), ("mintcream", "f5fffa"), ("mistyrose", "ffe4e1"),
    ("moccasin", "ffe4b5"), ("navajowhite", "ffdead"), ("navy", "000080"),
    ("oldlace", "fdf5e6"), ("olive", "808000"), ("olivedrab", "6b8e23"),
    ("orange", "ffa500"), ("orangered", "ff4500"), ("orchid", "da70d6"),
    ("palegoldenrod", "eee8aa"), ("palegreen", "98fb98"), ("paleturquoise", "afeeee"),
    ("palevioletred", "db7093"), ("papayawhip", "ffefd5"), ("peachpuff", "ffdab9"),
    ("peru", "cd853f"), ("pink", "ffc0cb"), ("plum", "dda0dd"),
    ("powderblue", "b0e0e6"), ("purple", "800080"), ("rebeccapurple", "663399"),
    ("red", "ff0000"), ("rosybrown", "bc8f8f"), ("royalblue", "4169e1"),
    ("saddlebrown", "8b4513"), ("salmon", "fa8072"), ("sandybrown", "f4a460"),
    ("seagreen", "2e8b57"), ("seashell", "fff5ee"), ("sienna", "a0522d"),
    ("silver", "c0c0c0"), ("skyblue", "87ceeb"), ("slateblue", "6a5acd"),
    ("slategray", "708090"), ("slategrey", "708090"), ("snow", "fffafa"),
    ("springgreen", "00ff7f"), ("steelblue", "4682b4"), ("tan", "d2b48c"),
    ("teal", "008080"), ("thistle", "d8bfd8"), ("tomato", "ff6347"),
    ("turquoise", "40e0d0"), ("violet", "ee82ee"), ("wheat", "f5deb3"),
    ("white", "ffffff"), ("whitesmoke", "f5f5f5"), ("yellow", "ffff00"),
    ("yellowgreen", "9acd32"),
];

fn name_hex(n: &str) -> Option<&'static str> {
    let n = n.to_ascii_lowercase();
    NAMES.iter().find(|(k, _)| *k == n).map(|(_, v)| *v)
}

/// CSS Color 4 `hslToRgb`; h in degrees, s and l as fractions; result as
/// fractions, not clipped.
fn hsl_to_rgb(h: f64, s: f64, l: f64) -> [f64; 3] {
    let mut h = h % 360.0;
    if h < 0.0 {
        h += 360.0;
    }
    let f = |n: f64| {
        let k = (n + h / 30.0) % 12.0;
        let a = s * l.min(1.0 - l);
        l - a * (-1f64).max((k - 3.0).min(9.0 - k).min(1.0))
    };
    [f(0.0), f(8.0), f(4.0)]
}

/// CSS Color 4 `rgbToHsl`; fractions in, (degrees, fraction, fraction) out.
fn rgb_to_hsl(r: f64, g: f64, b: f64) -> [f64; 3] {
    let max = r.max(g).max(b);
    let min = r.min(g).min(b);
    let l = (min + max) / 2.0;
    let d = max - min;
    let (mut h, mut s) = (0.0, 0.0);
    if d != 0.0 {
        s = if l == 0.0 || l == 1.0 {
            0.0
        } else {
            (max - l) / l.min(1.0 - l)
        };
        h = if max == r {
            (g - b) / d + if g < b { 6.0 } else { 0.0 }
        } else if max == g {
            (b - r) / d + 2.0
        } else {
            (r - g) / d + 4.0
        };
        h *= 60.0;
    }
    if h >= 360.0 {
        h -= 360.0;
    }
    [h, s, l]
}

/// CSS Color 4 `hwbToRgb`; w, b fractions.
fn hwb_to_rgb(h: f64, w: f64, b: f64) -> [f64; 3] {
    if w + b >= 1.0 {
        let g = w / (w + b);
        return [g, g, g];
    }
    let rgb = hsl_to_rgb(h, 1.0, 0.5);
    [
        rgb[0] * (1.0 - w - b) + w,
        rgb[1] * (1.0 - w - b) + w,
        rgb[2] * (1.0 - w - b) + w,
    ]
}

fn rgb_to_hwb(r: f64, g: f64, b: f64) -> [f64; 3] {
    let h = rgb_to_hsl(r, g, b)[0];
    [h, r.min(g).min(b), 1.0 - r.max(g).max(b)]
}

#[derive(Clone, Copy, Debug, PartialEq, Eq)]
enum Space {
    Hex,
    Name,
    Rgb,
    Hsl,
    Hwb,
}

/// A decoded colour: the notation, the three channels *as written* (rgb on the
/// 0..255 scale, hue in degrees, the others in percent; nothing clamped), the
/// alpha as written, and the denoted rgba (r,g,b on 0..255, all clipped).
#[derive(Clone, Debug)]
struct Dec {
    space: Space,
    raw: [f64; 3],
    rgba: [f64; 4],
}

/// How out-of-range components are read.
#[derive(Clone, Copy, Debug)]
struct Reading {
    /// clamp hsl saturation and lightness to [0,100]% (else: only s >= 0, CSS Color 4)
    clamp_sl: bool,
    /// clamp negative hwb whiteness/blackness to 0
    clamp_wb_neg: bool,
    /// clamp hwb whiteness/blackness to <= 100% before normalising the sum
    clamp_wb_top: bool,
    /// convert hwb through hsl with the saturation clamped at 0 (rsass' path; differs
    /// from the CSS formula only for out-of-range whiteness/blackness)
    hwb_via_hsl: bool,
}

/// The statement's reading: out-of-range components are clamped.
const STATEMENT: Reading = Reading {
    clamp_sl: true,
    clamp_wb_neg: true,
    clamp_wb_top: false,
    hwb_via_hsl: false,
};
const STATEMENT_B: Reading = Reading {
    clamp_wb_top: true,
    ..STATEMENT
};
/// CSS Color 4: only s >= 0 is enforced, the rgb result is clipped to the gamut.
const CSS4: Reading = Reading {
    clamp_sl: false,
    clamp_wb_neg: false,
    clamp_wb_top: false,
    hwb_via_hsl: false,
};
/// rsass' behaviour (known defect): nothing clamped in hsl/hwb space except
/// s >= 0, hwb converted through hsl.
const UNCLAMPED: Reading = Reading {
    hwb_via_hsl: true,
    ..CSS4
};

#[derive(Clone, Debug)]
enum Tk {
    Num(f64, String),
    Word(String),
    Slash,
}

fn lex_number(s: &str) -> Option<(f64, String)> {
    let b = s.as_bytes();
    let mut i = 0;
    if i < b.len() && (b[i] == b'+' || b[i] == b'-') {
        i += 1;
    }
    let ds = i;
    while i < b.len() && b[i].is_ascii_digit() {
        i += 1;
    }
    if i < b.len() && b[i] == b'.' {
        i += 1;
        while i < b.len() && b[i].is_ascii_digit() {
            i += 1;
        }
    }
    if !s[ds..i].bytes().any(|c| c.is_ascii_digit()) {
        return None;
    }
    // exponent only when followed by digits
    if i < b.len() && (b[i] == b'e' || b[i] == b'E') {
        let mut j = i + 1;
        if j < b.len() && (b[j] == b'+' || b[j] == b'-') {
            j += 1;
        }
        if j < b.len() && b[j].is_ascii_digit() {
            while j < b.len() && b[j].is_ascii_digit() {
                j += 1;
            }
            i = j;
        }
    }
    let v: f64 = s[..i].parse().ok()?;
    Some((v, s[i..].to_ascii_lowercase()))
}

fn hex_bytes(h: &str) -> Option<[f64; 4]> {
    if !h.bytes().all(|c| c.is_ascii_hexdigit()) {
        return None;
    }
    let d: Vec<u32> = h.chars().filter_map(|c| c.to_digit(16)).collect();
    let v = match d.len() {
        3 => [d[0] * 17, d[1] * 17, d[2] * 17, 255],
        4 => [d[0] * 17, d[1] * 17, d[2] * 17, d[3] * 17],
        6 => [d[0] * 16 + d[1], d[2] * 16 + d[3], d[4] * 16 + d[5], 255],
        8 => [
            d[0] * 16 + d[1],
            d[2] * 16 + d[3],
            d[4] * 16 + d[5],
            d[6] * 16 + d[7],
        ],
        _ => return None,
    };
    Some([v[0] as f64, v[1] as f64, v[2] as f64, v[3] as f64 / 255.0])
}

fn clip(x: f64, hi: f64) -> f64 {
    x.max(0.0).min(hi)
}

/// Decode one CSS colour token (also the Sass-only `rgba(<color>, <alpha>)`).
fn decode(text: &str, rd: Reading) -> Result<Dec, String> {
    let t = text.trim();
    if let Some(h) = t.strip_prefix('#') {
        let v = hex_bytes(h).ok_or_else(|| format!("bad hex colour {t:?}"))?;
        return Ok(Dec {
            space: Space::Hex,
            raw: [v[0], v[1], v[2]],
            rgba: v,
        });
    }
    let Some(open) = t.find('(') else {
        let lower = t.to_ascii_lowercase();
        if lower == "transparent" {
            return Ok(Dec {
                space: Space::Name,
                raw: [0.0; 3],
                rgba: [0.0; 4],
            });
        }
        let h = name_hex(&lower).ok_or_else(|| format!("not a colour: {t:?}"))?;
        let v = hex_bytes(h).ok_or("bad table")?;
        return Ok(Dec {
            space: Space::Name,
            raw: [v[0], v[1], v[2]],
            rgba: v,
        });
    };
    if !t.ends_with(')') {
        return Err(format!("unbalanced: {t:?}"));
    }
    let fname = t[..open].trim().to_ascii_lowercase();
    let fname = fname.strip_prefix("color.").unwrap_or(&fname).to_string();
    let body = &t[open + 1..t.len() - 1];
    if body.contains('(') {
        return Err(format!("nested function in {t:?}"));
    }
    let mut toks = Vec::new();
    for w in body.replace(',', " ").replace('/', " / ").split_whitespace() {
        if w == "/" {
            toks.push(Tk::Slash);
        } else if let Some((v, u)) = lex_number(w) {
            toks.push(Tk::Num(v, u));
        } else {
            toks.push(Tk::Word(w.to_string()));
        }
    }
    // split off alpha
    let (chan, alpha): (Vec<Tk>, Option<Tk>) =
        if let Some(p) = toks.iter().position(|t| matches!(t, Tk::Slash)) {
            if p + 2 != toks.len() {
                return Err(format!("bad slash in {t:?}"));
            }
            (toks[..p].to_vec(), Some(toks[p + 1].clone()))
        } else if toks.len() == 4 {
            (toks[..3].to_vec(), Some(toks[3].clone()))
        } else if toks.len() == 2 && matches!(toks[0], Tk::Word(_)) {
            (toks[..1].to_vec(), Some(toks[1].clone()))
        } else {
            (toks.clone(), None)
        };
    let alpha = match alpha {
        None => 1.0,
        Some(Tk::Num(v, u)) if u.is_empty() => v,
        Some(Tk::Num(v, u)) if u == "%" => v / 100.0,
        Some(o) => return Err(format!("bad alpha {o:?} in {t:?}")),
    };
    let alpha_c = clip(alpha, 1.0);
    let num = |k: &Tk| -> Result<(f64, String), String> {
        match k {
            Tk::Num(v, u) => Ok((*v, u.clone())),
            o => Err(format!("expected number, got {o:?} in {t:?}")),
        }
    };
    let hue = |k: &Tk| -> Result<f64, String> {
        let (v, u) = num(k)?;
        match u.as_str() {
            "" | "deg" => Ok(v),
            "turn" => Ok(v * 360.0),
            "grad" => Ok(v * 0.9),
            "rad" => Ok(v.to_degrees()),
            _ => Err(format!("bad hue unit {u:?} in {t:?}")),
        }
    };
    let pct = |k: &Tk| -> Result<f64, String> {
        let (v, u) = num(k)?;
        match u.as_str() {
            "" | "%" => Ok(v),
            _ => Err(format!("bad percentage unit {u:?} in {t:?}")),
        }
    };
    match fname.as_str() {
        "rgb" | "rgba" => {
            if chan.len() == 1 {
                let Tk::Word(w) = &chan[0] else {
                    return Err(format!("bad rgb() {t:?}"));
                };
                let inner = decode(w, rd)?;
                return Ok(Dec {
                    space: inner.space,
                    raw: inner.raw,
                    rgba: [inner.rgba[0], inner.rgba[1], inner.rgba[2], alpha_c],
                });
            }
            if chan.len() != 3 {
                return Err(format!("rgb() needs 3 channels: {t:?}"));
            }
            let mut raw = [0.0; 3];
            for i in 0..3 {
                let (v, u) = num(&chan[i])?;
                raw[i] = match u.as_str() {
                    "" => v,
                    "%" => v * 255.0 / 100.0,
                    _ => return Err(format!("bad channel unit in {t:?}")),
                };
            }
            Ok(Dec {
                space: Space::Rgb,
                raw,
                rgba: [
                    clip(raw[0], 255.0),
                    clip(raw[1], 255.0),
                    clip(raw[2], 255.0),
                    alpha_c,
                ],
            })
        }
        "hsl" | "hsla" => {
            if chan.len() != 3 {
                return Err(format!("hsl() needs 3 channels: {t:?}"));
            }
            let raw = [hue(&chan[0])?, pct(&chan[1])?, pct(&chan[2])?];
            let (s, l) = if rd.clamp_sl {
                (clip(raw[1], 100.0), clip(raw[2], 100.0))
            } else {
                (raw[1].max(0.0), raw[2])
            };
            let rgb = hsl_to_rgb(raw[0], s / 100.0, l / 100.0);
            Ok(Dec {
                space: Space::Hsl,
                raw,
                rgba: [
                    clip(rgb[0], 1.0) * 255.0,
                    clip(rgb[1], 1.0) * 255.0,
                    clip(rgb[2], 1.0) * 255.0,
                    alpha_c,
                ],
            })
        }
        "hwb" => {
            if chan.len() != 3 {
                return Err(format!("hwb() needs 3 channels: {t:?}"));
            }
            let raw = [hue(&chan[0])?, pct(&chan[1])?, pct(&chan[2])?];
            let (mut w, mut b) = (raw[1] / 100.0, raw[2] / 100.0);
            if rd.clamp_wb_neg {
                w = w.max(0.0);
                b = b.max(0.0);
            }
            if rd.clamp_wb_top {
                w = w.min(1.0);
                b = b.min(1.0);
            }
            let rgb = if !rd.hwb_via_hsl {
                hwb_to_rgb(raw[0], w, b)
            } else {
                // the known-defect path: normalise the sum, go through hsl with the
                // saturation clamped at 0 and nothing else clamped
                let (w, b) = if w + b > 1.0 {
                    (w / (w + b), b / (w + b))
                } else {
                    (w, b)
                };
                let l = (1.0 - b + w) / 2.0;
                let s = if l == 0.0 || l == 1.0 {
                    0.0
                } else {
                    (1.0 - b - l) / l.min(1.0 - l)
                };
                hsl_to_rgb(raw[0], s.max(0.0), l)
            };
            Ok(Dec {
                space: Space::Hwb,
                raw,
                rgba: [
                    clip(rgb[0], 1.0) * 255.0,
                    clip(rgb[1], 1.0) * 255.0,
                    clip(rgb[2], 1.0) * 255.0,
                    alpha_c,
                ],
            })
        }
        _ => Err(format!("not a colour function: {t:?}")),
    }
}

fn close(a: &[f64; 4], b: &[f64; 4], tol: f64) -> bool {
    (0..3).all(|i| (a[i] - b[i]).abs() <= tol) && (a[3] - b[3]).abs() <= tol / 255.0
}

// ======================= reading rsass' output =======================

/// `name: value;` lines of the single rule in expanded output.
fn decls(css: &str) -> BTreeMap<String, String> {
    let mut m = BTreeMap::new();
    for line in css.lines() {
        let line = line.trim();
        let Some(line) = line.strip_suffix(';') else {
            continue;
        };
        if let Some((k, v)) = line.split_once(": ") {
            m.insert(k.to_string(), v.to_string());
        }
    }
    m
}

const P15: Fmt = Fmt {
    compressed: false,
    precision: 15,
};

/// Compile and return the declarations, or the failure verdict.
fn run_sheet(src: &str) -> Result<BTreeMap<String, String>, Verdict> {
    match rs::compile_str(src, P15) {
        Out::Css(css) => Ok(decls(&css)),
        Out::Err(e) => Err(Verdict::fail(format!(
            "compile error: {}",
            e.lines().next().unwrap_or("")
        ))),
        Out::Panic(p) => {
            let site = p.split(": ").next().unwrap_or("?").to_string();
            let site = site.rsplitn(2, ':').last().unwrap_or("?").to_string();
            Err(Verdict::fail_sig(format!("panic:{site}"), format!("panic {p}")))
        }
    }
}

fn join_sigs(mut sigs: Vec<&'static str>) -> String {
    sigs.sort();
    sigs.dedup();
    sigs.join("+")
}

// ======================= the case space =======================

#[derive(Clone, Debug, Hash, Serialize, Deserialize)]
struct Case {
    /// colour-valued expression
    expr: String,
    /// output precision
    precision: usize,
    /// where the colour stands: "plain" `b: E`, "interp" `b: #{E}`, "list" `b: 1px solid E`,
    /// "comma" `b: E, 1px`
    ctx: String,
}

/// The emitted colour token of `expr` in context `ctx`.
fn emit(expr: &str, ctx: &str, fmt: Fmt) -> Out {
    let value = match ctx {
        "interp" => format!("#{{{expr}}}"),
        "list" => format!("1px solid {expr}"),
        "comma" => format!("{expr}, 1px"),
        _ => expr.to_string(),
    };
    match rs::eval_expr(PRELUDE, &value, fmt) {
        Out::Css(t) => {
            let tok = match ctx {
                "list" => t.strip_prefix("1px solid ").map(str::to_string),
                "comma" => t
                    .strip_suffix(", 1px")
                    .or_else(|| t.strip_suffix(",1px"))
                    .map(str::to_string),
                _ => Some(t.clone()),
            };
            Out::Css(tok.unwrap_or_else(|| format!("<<unexpected declaration value {t:?}>>")))
        }
        o => o,
    }
}

fn n(x: f64) -> String {
    if x == 0.0 && x.is_sign_negative() {
        "-0".to_string()
    } else {
        format!("{x}")
    }
}

/// Colour-valued function applications, `$c` is replaced by a palette colour.
fn templates(quick: bool) -> Vec<&'static str> {
    let mut v = vec![
        "lighten($c, 10%)",
        "darken($c, 33.3%)",
        "saturate($c, 20%)",
        "desaturate($c, 50%)",
        "adjust-hue($c, 30deg)",
        "adjust-hue($c, 359.99999995deg)",
        "complement($c)",
        "invert($c)",
        "invert($c, 50%)",
        "grayscale($c)",
        "mix($c, #38b, 30%)",
        "mix($c, rgba(#fc0, 0.2))",
        "opacify($c, 0.25)",
        "transparentize($c, 0.3)",
        "rgba($c, 0.5)",
        "rgba($c, 1)",
        "color.adjust($c, $red: 1.5)",
        "color.adjust($c, $red: 0.00000004)",
        "color.adjust($c, $blue: -0.0000002)",
        "color.adjust($c, $alpha: -0.5)",
        "color.adjust($c, $alpha: -0.00000000001)",
        "color.adjust($c, $lightness: 10%, $hue: 20deg)",
        "color.adjust($c, $whiteness: 10%)",
        "color.scale($c, $lightness: 30%)",
        "color.scale($c, $alpha: -40%)",
        "color.scale($c, $blackness: 50%)",
        "color.scale($c, $green: -50%)",
        "color.change($c, $hue: 359.99999995deg)",
        "color.change($c, $alpha: 0.999999999999)",
        "color.change($c, $saturation: 100%)",
        "color.change($c, $blackness: 100%)",
    ];
    if !quick {
        v.extend([
            "lighten($c, 100%)",
            "darken($c, 0.1%)",
            "saturate($c, 100%)",
            "desaturate($c, 100%)",
            "adjust-hue($c, -30deg)",
            "adjust-hue($c, 360deg)",
            "invert($c, 0%)",
            "mix($c, transparent, 70%)",
            "mix($c, white, 99.9999999%)",
            "opacify($c, 1)",
            "transparentize($c, 1)",
            "color.adjust($c, $green: 0.4999999, $blue: 0.5)",
            "color.adjust($c, $saturation: -10%)",
            "color.adjust($c, $blackness: 33.3%)",
            "color.scale($c, $saturation: -30%, $lightness: -30%)",
            "color.scale($c, $whiteness: 50%)",
            "color.scale($c, $red: 33.3%, $alpha: 50%)",
            "color.change($c, $red: 127.00000005)",
            "color.change($c, $lightness: 50%)",
            "color.change($c, $whiteness: 0%)",
        ]);
    }
    v
}

fn expressions(quick: bool) -> Vec<String> {
    let mut v: Vec<String> = Vec::new();
    // every short-hex colour: as written (raw text is kept), through a function that
    // keeps the hex source, and through one that resets the source to "name"
    let hexd: Vec<char> = "0123456789abcdef".chars().collect();
    for a in &hexd {
        for b in &hexd {
            for c in &hexd {
                v.push(format!("#{a}{b}{c}"));
                v.push(format!("color.adjust(#{a}{b}{c}, $alpha: 0)"));
                v.push(format!("rgba(#{a}{b}{c}, 1)"));
            }
        }
    }
    for (name, hex) in NAMES {
        v.push(name.to_string());
        v.push(format!("color.adjust({name}, $alpha: 0)"));
        v.push(format!("rgba({name}, 1)"));
        v.push(format!("rgba({name}, 0.5)"));
        v.push(format!("color.adjust(#{hex}, $alpha: 0)"));
        v.push(format!("rgb({})", {
            let b = hex_bytes(hex).unwrap_or([0.0; 4]);
            format!("{}, {}, {}", b[0], b[1], b[2])
        }));
        // one off the named colour: must not pick the name
        v.push(format!("color.adjust(#{hex}, $blue: -1)"));
    }
    v.extend(
        [
            "transparent", "Transparent", "RED", "Red", "#ABC", "#aBc", "#AbCdEf", "#abcd", "#aabbccdd",
            "#0000", "#00000000", "#000f", "rgba(0, 0, 0, 0)", "rgba(transparent, 0.5)",
            "hsla(0, 0%, 0%, 0)", "hwb(0 0% 100% / 0)", "rgba(white, 0)", "rgba(0, 0, 1, 0)",
            "rgb(127.00000005, 0, 0)", "rgb(127.0000002, 0, 0)", "rgb(254.99999995, 0, 255)",
            "rgb(127.5, 0, 0)", "rgb(0.00000000004, 0, 0)", "rgba(255, 0, 0, 0.99999999999)",
            "rgba(255, 0, 0, 0.9999999)",
            // alpha just below 1 (within one byte step: 254.5/255 = 0.99804 .. 1)
            "rgba(10, 20, 30, 0.999)", "rgba(10, 20, 30, 0.9985)", "rgba(10, 20, 30, 0.998)", "rgba(255, 0, 0, 0.996)",
            "transparentize(red, 0.001)", "rgba(10.5, 20, 30, 0.999)", "hsla(20, 50%, 50%, 0.999)", "adjust-hue(rgba(200, 20, 30, 0.999), 30deg)",
            // alpha just above 0
            "rgba(10, 20, 30, 0.001)", "rgba(10, 20, 30, 0.0019)", "hsla(20, 50%, 50%, 0.001)", "hsl(359.99999995, 50%, 50%)", "hsl(359.9999998, 50%, 50%)",
            "hsl(359.99999999996, 50%, 50%)", "hsla(359.99999995, 100%, 25%, 0.5)",
        ]
        .map(String::from),
    );
    // integer rgb() grid: keeps the rgb() form when expanded, shortest form when compressed
    let by: &[u32] = if quick {
        &[0, 1, 17, 127, 128, 254, 255]
    } else {
        &[0, 1, 16, 17, 34, 127, 128, 170, 187, 254, 255]
    };
    for r in by {
        for g in by {
            for b in by {
                v.push(format!("rgb({r}, {g}, {b})"));
                v.push(format!("rgba({r}, {g}, {b}, 0.5)"));
            }
        }
    }
    // fractional / out-of-range rgb
    let ch: &[f64] = if quick {
        &[-5.0, 0.4, 127.5, 200.1, 300.0]
    } else {
        &[-5.0, 0.0, 0.4, 0.5, 127.5, 200.1, 254.6, 255.4, 300.0]
    };
    for r in ch {
        for g in ch {
            for b in ch {
                let (r, g, b) = (n(*r), n(*g), n(*b));
                v.push(format!("rgb({r}, {g}, {b})"));
                v.push(format!("rgba({r}, {g}, {b}, 0.5)"));
                v.push(format!("rgb({r} {g} {b} / 0)"));
            }
        }
    }
    // hsl grid (kept as hsl() text)
    let hues: &[&str] = if quick {
        &["-0", "-30", "0", "30", "90.5", "120", "240", "359.9999999999", "360", "390"]
    } else {
        &[
            "-0", "-0.00000000000000000001", "-30", "0", "0.5", "30", "60", "90.5", "120", "180",
            "240", "300", "359.5", "359.9999999999", "360", "390", "720", "-720",
        ]
    };
    let sats: &[f64] = if quick {
        &[-10.0, 0.0, 33.3, 100.0, 150.0]
    } else {
        &[-10.0, 0.0, 0.5, 33.3, 50.0, 99.9, 100.0, 150.0]
    };
    let ligs: &[f64] = if quick {
        &[-10.0, 0.0, 25.0, 50.0, 99.9, 100.0, 150.0]
    } else {
        &[-10.0, 0.0, 0.1, 25.0, 49.9, 50.0, 75.0, 99.9, 100.0, 150.0]
    };
    for h in hues {
        for s in sats {
            for l in ligs {
                let (s, l) = (n(*s), n(*l));
                v.push(format!("hsl({h}, {s}%, {l}%)"));
                v.push(format!("hsla({h}, {s}%, {l}%, 0.5)"));
                v.push(format!("hsl({h} {s}% {l}% / 0)"));
            }
        }
    }
    // hwb grid (integer results become rgb, the others are printed through hsl)
    let hh: &[&str] = if quick {
        &["-30", "0", "30", "200.5", "359.9999999999", "400"]
    } else {
        &["-0", "-30", "0", "0.5", "30", "60", "120", "200.5", "300", "359.9999999999", "360", "400"]
    };
    let ws: &[f64] = if quick {
        &[-10.0, 0.0, 10.5, 20.0, 60.0, 100.0, 170.0]
    } else {
        &[-10.0, 0.0, 0.1, 10.5, 20.0, 40.0, 60.0, 99.9, 100.0, 170.0]
    };
    let bs: &[f64] = if quick {
        &[-20.0, 0.0, 20.0, 40.0, 100.0, 170.0]
    } else {
        &[-20.0, 0.0, 0.1, 20.0, 40.0, 60.0, 80.0, 99.9, 100.0, 170.0]
    };
    for h in hh {
        for w in ws {
            for b in bs {
                let (w, b) = (n(*w), n(*b));
                v.push(format!("hwb({h} {w}% {b}%)"));
                v.push(format!("hwb({h} {w}% {b}% / 0.5)"));
            }
        }
    }
    // adjustment functions over an in-range palette
    let mut pal: Vec<String> = Vec::new();
    let digs: Vec<char> = if quick {
        "08f".chars().collect()
    } else {
        "038bf".chars().collect()
    };
    for a in &digs {
        for b in &digs {
            for c in &digs {
                pal.push(format!("#{a}{b}{c}"));
            }
        }
    }
    pal.extend(
        [
            "red", "yellow", "gray", "rebeccapurple", "transparent", "#7f8081", "#3388bb80",
            "rgba(#38b, 0.5)", "rgb(127.5, 200.1, 0.4)", "rgba(255, 255, 127.5, 0.5)",
        ]
        .map(String::from),
    );
    let (ph, ps, pl): (&[f64], &[f64], &[f64]) = if quick {
        (&[0.0, 90.5, 359.5], &[0.0, 33.3, 100.0], &[0.0, 20.0, 50.0, 100.0])
    } else {
        (
            &[0.0, 30.0, 90.5, 180.0, 270.0, 359.5],
            &[0.0, 33.3, 50.0, 100.0],
            &[0.0, 20.0, 50.0, 80.0, 100.0],
        )
    };
    for h in ph {
        for s in ps {
            for l in pl {
                pal.push(format!("hsl({}, {}%, {}%)", n(*h), n(*s), n(*l)));
                if !quick {
                    pal.push(format!("hsla({}, {}%, {}%, 0.3)", n(*h), n(*s), n(*l)));
                }
            }
        }
    }
    for h in [0.0, 200.5] {
        for w in [0.0, 10.5, 40.0, 100.0] {
            for b in [0.0, 20.0, 60.0] {
                pal.push(format!("hwb({} {}% {}%)", n(h), n(w), n(b)));
                if !quick {
                    pal.push(format!("hwb({} {}% {}% / 0.5)", n(h), n(w), n(b)));
                }
            }
        }
    }
    for t in templates(quick) {
        for c in &pal {
            v.push(t.replace("$c", c));
        }
    }
    let mut seen = std::collections::HashSet::new();
    v.into_iter().filter(|e| seen.insert(e.clone())).collect()
}

const PRELUDE: &str = "@use \"sass:color\";\n";

/// The colour as rsass holds it, read through number-valued functions only
/// (no colour is printed): blackness of the colour with the two other rgb
/// channels zeroed is `1 - channel/255`, exactly.
fn internal(expr: &str) -> Result<([f64; 4], Option<f64>), Verdict> {
    let src = format!(
        "{PRELUDE}$x: {expr};\na {{\n r: color.blackness(color.change($x, $green: 0, $blue: 0));\n g: color.blackness(color.change($x, $red: 0, $blue: 0));\n b: color.blackness(color.change($x, $red: 0, $green: 0));\n a: color.alpha($x);\n h: color.hue($x);\n}}\n"
    );
    let d = run_sheet(&src)?;
    let num = |k: &str, unit: &str| -> Option<f64> {
        let (v, u) = lex_number(d.get(k)?)?;
        (u == unit && v.is_finite()).then_some(v)
    };
    match (num("r", "%"), num("g", "%"), num("b", "%"), num("a", "")) {
        (Some(r), Some(g), Some(b), Some(a)) => Ok((
            [
                255.0 * (1.0 - r / 100.0),
                255.0 * (1.0 - g / 100.0),
                255.0 * (1.0 - b / 100.0),
                a,
            ],
            num("h", "deg"),
        )),
        _ => Err(Verdict::fail(format!(
            "{expr}: cannot read the computed colour through blackness()/alpha(): {d:?}"
        ))),
    }
}

/// How far the denoted rgba may be from the computed one when every printed
/// number is correctly rounded to `p` fraction digits.
fn tolerance(text: &str, dec: &Dec, p: usize) -> (f64, f64) {
    let half = 0.5 * 10f64.powi(-(p as i32));
    let noise = 1e-9;
    let lower = text.trim_start().to_ascii_lowercase();
    if lower.starts_with("hsl") {
        // |d rgb| <= 255 * (|dl| (1+s) + |ds| / 2 + |dh| s / 60), dl = ds = half/100, dh = half
        let s = (dec.raw[1] / 100.0).max(1.0);
        (
            255.0 * half * ((1.0 + s) / 100.0 + 0.005 + s / 60.0) + noise,
            half + noise,
        )
    } else {
        // rgb()/rgba() numbers, and hex / name / transparent chosen for a colour that
        // is one of the 256^3 byte colours "to the output precision"
        (half + noise, half + noise)
    }
}

fn check(c: &Case) -> Verdict {
    let (want, hue) = match internal(&c.expr) {
        Ok(x) => x,
        Err(v) => return v,
    };
    let mut texts = Vec::new();
    let mut bad = Vec::new();
    let mut sigs: Vec<&'static str> = Vec::new();
    let mut unexplained = false;
    for compressed in [false, true] {
        let style = if compressed { "compressed" } else { "expanded" };
        let text = match emit(&c.expr, &c.ctx, Fmt::new(compressed, c.precision)) {
            Out::Css(t) => t,
            Out::Err(e) => {
                return Verdict::fail(format!(
                    "{} [{style}]: error {}",
                    c.expr,
                    e.lines().next().unwrap_or("")
                ))
            }
            Out::Panic(p) => {
                let site = p.split(": ").next().unwrap_or("?");
                let site = site.rsplitn(2, ':').last().unwrap_or("?").to_string();
                return Verdict::fail_sig(format!("panic:{site}"), format!("{}: panic {p}", c.expr));
            }
        };
        texts.push(text.clone());
        let dec = match decode(&text, CSS4) {
            Ok(d) if !text.contains("color.") => d,
            Ok(_) | Err(_) => {
                bad.push(format!("[{style}] emitted {text:?} is not a CSS colour"));
                unexplained = true;
                continue;
            }
        };
        let (tol, tol_a) = tolerance(&text, &dec, c.precision);
        let got = dec.rgba;
        let ok = (0..3).all(|i| (got[i] - want[i]).abs() <= tol) && (got[3] - want[3]).abs() <= tol_a;
        if ok {
            continue;
        }
        bad.push(format!(
            "[{style}] emitted {text:?} denotes rgba({}, {}, {}, {}), computed rgba({}, {}, {}, {}), allowed deviation {tol:e}",
            got[0], got[1], got[2], got[3], want[0], want[1], want[2], want[3]
        ));
        // known-defect variants: "equal within 1e-7" shortcuts in the formatter
        let lower = text.to_ascii_lowercase();
        let integral = (0..3).all(|i| got[i] == got[i].round());
        let byte_form = !lower.starts_with("hsl") && integral && got[3] == 1.0;
        if byte_form
            && (0..3).all(|i| (got[i] - want[i]).abs() < 1e-7 + 1e-9)
            && (want[3] - 1.0).abs() <= tol_a
        {
            // try_bytes(): a channel within 1e-7 of an integer is printed as that byte
            sigs.push("near-integer-1e-7-printed-as-byte");
            continue;
        }
        if lower.starts_with("hsl") && dec.raw[0] == 0.0 {
            if let Some(h) = hue {
                if h > 360.0 - 1e-7 - 1e-12 && h < 360.0 {
                    // the same text with the real hue denotes the computed colour
                    let fixed = text.replacen("(0,", &format!("({h},"), 1);
                    if let Ok(d2) = decode(&fixed, CSS4) {
                        if (0..3).all(|i| (d2.rgba[i] - want[i]).abs() <= tol)
                            && (d2.rgba[3] - want[3]).abs() <= tol_a
                        {
                            sigs.push("hue-within-1e-7-of-360-printed-as-0");
                            continue;
                        }
                    }
                }
            }
        }
        unexplained = true;
    }
    if bad.is_empty() {
        return Verdict::pass(&texts);
    }
    let detail = format!(
        "{} ({}) at precision {}: {}",
        c.expr,
        c.ctx,
        c.precision,
        bad.join("; ")
    );
    if unexplained {
        Verdict::fail(detail)
    } else {
        sigs.sort();
        sigs.dedup();
        Verdict::fail_sig(sigs.join("+"), detail)
    }
}

fn main() {
    let ck = Check::from_args("C33");
    let quick = ck.quick();
    ck.rule("expressions = every #rgb (as written, through color.adjust keeping the hex source, through rgba(c,1) resetting it), every named colour (same paths, +alpha, its hex and rgb() spelling, one-off neighbours), integer and fractional rgb grids, hsl and hwb grids incl. out-of-range and hue-wrap inputs, 1e-7 boundary values, and adjustment functions (lighten..change templates) over an in-range palette; x output precision x {expanded, compressed}, and (strided) inside interpolation, a space list and a comma list; distinct = (expression, precision, context); outcome = the two emitted texts");
    ck.assume("the computed colour is read without printing a colour: blackness(change($x, two channels: 0)) = 1 - channel/255 and alpha($x), at precision 15; number printing is checked by C10");
    ck.assume("R-color decodes hex/short hex/names/rgb()/rgba()/hsl()/hsla()/transparent as CSS Color 4 (hsl computed unclamped, rgb clipped); a printed number is off by at most half a unit of the last printed place");

    let exprs = expressions(quick);
    let precisions: &[usize] = if quick { &[10, 5] } else { &[10, 5, 3, 1, 0] };
    for p in precisions {
        let cases: Vec<Case> = exprs
            .iter()
            .enumerate()
            .map(|(_, e)| Case {
                expr: e.clone(),
                precision: *p,
                ctx: "plain".into(),
            })
            .collect();
        ck.run(
            &format!("precision-{p}"),
            "every expression of the grammar, both styles",
            cases.into_iter(),
            check,
        );
    }
    // the same colours inside interpolation and inside space / comma lists
    let mut cases = Vec::new();
    for ctx in ["interp", "list", "comma"] {
        for (i, e) in exprs.iter().enumerate() {
            // the #rgb block only strided; quick: every 7th expression
            let in_hex_block = i < 3 * 4096;
            if (quick && i % 7 != 3) || (in_hex_block && i % 16 != 3) {
                continue;
            }
            cases.push(Case {
                expr: e.clone(),
                precision: 10,
                ctx: ctx.into(),
            });
        }
    }
    ck.run(
        "contexts",
        "expressions (strided) inside #{..}, `1px solid E` and `E, 1px`; precision 10, both styles",
        cases.into_iter(),
        check,
    );
    ck.finish()
}
