//! C20 Nested at-rules bubble and @at-root escapes correctly.
//!
//! Space: every ordered forest (children of one root style rule) with at most
//! N nodes, depth <= D, <= 3 children per node over the alphabet
//!   leaves      d  declaration            k  @keyframes        w  @-webkit-keyframes
//!               f  @font-face
//!   containers  r  rule `b`               s  rule `&-s`
//!               M  @media m               S  @supports (s: s)   U  @foo bar
//!               A  @at-root {..}          B  @at-root e {..}    C  @at-root f & {..}
//! x 4 root shapes (`a`, `a, b`, `@supports (t: t){a{..}}`, `@baz qux{a{..}}`);
//! `w` has its own section (leaves {d, w}) because rsass gets it wrong everywhere.
//! Generator restrictions (outside the statement): no @media inside @media
//! (query merging), no declaration whose style rule was removed by a
//! selector-less @at-root, no empty container.
//! Oracle (R-bubble): the Sass bubbling transformation, computed directly in
//! its normal form: the sequence, in source order, of (at-rule chain, selector,
//! declaration).  The real output (both styles) is parsed with vp::css and
//! flattened to the same normal form; merging / splitting of adjacent blocks
//! with the same header is therefore not observable, order and association are.

use serde::{Deserialize, Serialize};
use std::collections::HashMap;
use vp::css::{self, Node as CssNode};
use vp::report::{Check, Verdict};
use vp::rs::{self, Fmt, Out};

#[derive(Clone, Debug, Hash, Serialize, Deserialize)]
struct Case {
    /// root shape 0..4
    root: u8,
    /// encoded forest, e.g. `dM(dr(d)d)k`
    tree: String,
}

#[derive(Clone, Debug)]
struct N {
    k: char,
    ch: Vec<N>,
}

const LEAVES: &[char] = &['d', 'k', 'w', 'f'];
const CONTAINERS: &[char] = &['r', 's', 'M', 'S', 'U', 'A', 'B', 'C'];

// ---------- tree encoding ----------

fn parse_forest(s: &str) -> Option<Vec<N>> {
    fn forest(b: &[u8], i: &mut usize) -> Option<Vec<N>> {
        let mut out = Vec::new();
        while *i < b.len() && b[*i] != b')' {
            let k = b[*i] as char;
            *i += 1;
            let mut ch = Vec::new();
            if *i < b.len() && b[*i] == b'(' {
                *i += 1;
                ch = forest(b, i)?;
                if *i >= b.len() || b[*i] != b')' {
                    return None;
                }
                *i += 1;
            }
            let is_leaf = LEAVES.contains(&k);
            let is_cont = CONTAINERS.contains(&k);
            if !(is_leaf && ch.is_empty() || is_cont && !ch.is_empty()) {
                return None;
            }
            out.push(N { k, ch });
        }
        Some(out)
    }
    let b = s.as_bytes();
    let mut i = 0;
    let f = forest(b, &mut i)?;
    if i != b.len() {
        return None;
    }
    Some(f)
}

// ---------- enumeration ----------

struct Gen {
    leaves: Vec<char>,
    conts: Vec<char>,
    /// trees[(n, d)] = all trees with exactly n nodes and depth <= d
    trees: HashMap<(usize, usize), std::rc::Rc<Vec<String>>>,
}

impl Gen {
    fn tree(&mut self, n: usize, d: usize) -> std::rc::Rc<Vec<String>> {
        if let Some(t) = self.trees.get(&(n, d)) {
            return t.clone();
        }
        let mut out = Vec::new();
        if d >= 1 && n == 1 {
            for l in &self.leaves {
                out.push(l.to_string());
            }
        } else if d >= 2 && n >= 2 {
            let mut inner = Vec::new();
            self.forests(n - 1, d - 1, 3, &mut String::new(), &mut inner);
            for c in self.conts.clone() {
                for f in &inner {
                    out.push(format!("{c}({f})"));
                }
            }
        }
        let rc = std::rc::Rc::new(out);
        self.trees.insert((n, d), rc.clone());
        rc
    }
    /// all forests with exactly n nodes, 1..=k trees, depth <= d
    fn forests(&mut self, n: usize, d: usize, k: usize, prefix: &mut String, out: &mut Vec<String>) {
        if k == 0 {
            return;
        }
        for i in 1..=n {
            let ts = self.tree(i, d);
            for t in ts.iter() {
                let len = prefix.len();
                prefix.push_str(t);
                if i == n {
                    out.push(prefix.clone());
                } else {
                    self.forests(n - i, d, k - 1, prefix, out);
                }
                prefix.truncate(len);
            }
        }
    }
}

/// generator restrictions, see the header
fn admissible(f: &[N]) -> bool {
    fn rec(n: &N, in_media: bool, has_sel: bool) -> bool {
        match n.k {
            'd' => has_sel,
            'k' | 'w' | 'f' => true,
            'M' => !in_media && n.ch.iter().all(|c| rec(c, true, has_sel)),
            'S' | 'U' => n.ch.iter().all(|c| rec(c, in_media, has_sel)),
            'A' => n.ch.iter().all(|c| rec(c, in_media, false)),
            _ => n.ch.iter().all(|c| rec(c, in_media, true)),
        }
    }
    f.iter().all(|n| rec(n, false, true))
}

// ---------- source printer ----------

fn print_src(root: u8, forest: &[N]) -> String {
    fn node(n: &N, id: &mut usize, out: &mut String) {
        *id += 1;
        let i = *id;
        let open = match n.k {
            'd' => {
                out.push_str(&format!("p{i}: v;"));
                return;
            }
            'k' => {
                out.push_str(&format!("@keyframes k{i} {{ from {{ p{i}: v }} }}"));
                return;
            }
            'w' => {
                out.push_str(&format!("@-webkit-keyframes k{i} {{ from {{ p{i}: v }} }}"));
                return;
            }
            'f' => {
                out.push_str(&format!("@font-face {{ p{i}: v }}"));
                return;
            }
            'r' => "b".to_string(),
            's' => "&-s".to_string(),
            'M' => "@media m".to_string(),
            'S' => "@supports (s: s)".to_string(),
            'U' => "@foo bar".to_string(),
            'A' => "@at-root".to_string(),
            'B' => "@at-root e".to_string(),
            'C' => "@at-root f &".to_string(),
            _ => unreachable!(),
        };
        out.push_str(&open);
        out.push_str(" { ");
        for c in &n.ch {
            node(c, id, out);
            out.push(' ');
        }
        out.push('}');
    }
    let mut body = String::new();
    let mut id = 0;
    for n in forest {
        node(n, &mut id, &mut body);
        body.push(' ');
    }
    match root {
        0 => format!("a {{ {body}}}\n"),
        1 => format!("a, b {{ {body}}}\n"),
        2 => format!("@supports (t: t) {{ a {{ {body}}} }}\n"),
        _ => format!("@baz qux {{ a {{ {body}}} }}\n"),
    }
}

// ---------- normal form ----------

type Flat = Vec<(Vec<String>, String)>;

fn norm(text: &str) -> String {
    css::toks_text(&css::fold_ws(&css::tokenize(text), false))
}

fn flatten(nodes: &[CssNode], path: &mut Vec<String>, out: &mut Flat) {
    for n in nodes {
        match n {
            CssNode::Rule { prelude, body } => {
                path.push(format!("{{{}}}", css::toks_text(&css::fold_ws(prelude, false))));
                flatten(body, path, out);
                path.pop();
            }
            CssNode::AtRule { name, prelude, body } => {
                let h = format!("@{name} {}", css::toks_text(&css::fold_ws(prelude, false)));
                match body {
                    Some(b) => {
                        path.push(h);
                        flatten(b, path, out);
                        path.pop();
                    }
                    None => out.push((path.clone(), format!("{h};"))),
                }
            }
            CssNode::Decl { name, value } => out.push((
                path.clone(),
                format!("{name}:{}", css::toks_text(&css::fold_ws(value, false))),
            )),
            CssNode::Comment(c) => out.push((path.clone(), format!("/*{c}*/"))),
            CssNode::Junk(t) => out.push((path.clone(), format!("<junk {}>", css::toks_text(t)))),
        }
    }
}

// ---------- R-bubble ----------

const HOIST: u8 = 1; // declarations directly in a bubbled at-rule are moved to its front
const VENDOR_KF: u8 = 2; // @-webkit-keyframes frames get the enclosing selector

#[derive(Clone)]
struct Ctx {
    chain: Vec<String>,
    sel: Option<Vec<String>>,
    back: Option<Vec<String>>,
}

fn nest(sel: &Option<Vec<String>>, back: &Option<Vec<String>>, child: &str) -> Vec<String> {
    if child.contains('&') {
        let parent = sel.clone().or_else(|| back.clone()).unwrap_or_default();
        parent.iter().map(|p| child.replace('&', p)).collect()
    } else if let Some(ps) = sel {
        ps.iter().map(|p| format!("{p} {child}")).collect()
    } else {
        vec![child.to_string()]
    }
}

fn sel_entry(sel: &[String]) -> String {
    format!("{{{}}}", norm(&sel.join(", ")))
}

fn model(forest: &[N], root: u8, defects: u8) -> Flat {
    fn rec(n: &N, ctx: &Ctx, id: &mut usize, defects: u8, out: &mut Flat) {
        *id += 1;
        let i = *id;
        let mut path = ctx.chain.clone();
        match n.k {
            'd' => {
                if let Some(s) = &ctx.sel {
                    path.push(sel_entry(s));
                }
                out.push((path, format!("p{i}:v")));
            }
            'k' => {
                path.push(format!("@keyframes k{i}"));
                path.push("{from}".into());
                out.push((path, format!("p{i}:v")));
            }
            'w' => {
                path.push(format!("@-webkit-keyframes k{i}"));
                if defects & VENDOR_KF != 0 {
                    path.push(sel_entry(&nest(&ctx.sel, &None, "from")));
                } else {
                    path.push("{from}".into());
                }
                out.push((path, format!("p{i}:v")));
            }
            'f' => {
                path.push("@font-face ".into());
                out.push((path, format!("p{i}:v")));
            }
            'r' | 's' => {
                let s = nest(&ctx.sel, &ctx.back, if n.k == 'r' { "b" } else { "&-s" });
                let c = Ctx {
                    chain: ctx.chain.clone(),
                    sel: Some(s),
                    back: None,
                };
                for ch in &n.ch {
                    rec(ch, &c, id, defects, out);
                }
            }
            'M' | 'S' | 'U' => {
                let h = match n.k {
                    'M' => "@media m",
                    'S' => "@supports (s:s)",
                    _ => "@foo bar",
                };
                let mut c = ctx.clone();
                c.chain.push(h.into());
                if defects & HOIST != 0 && ctx.sel.is_some() {
                    // ids are assigned in source order; emission order differs
                    let mut later: Flat = Vec::new();
                    for ch in &n.ch {
                        if ch.k == 'd' {
                            rec(ch, &c, id, defects, out);
                        } else {
                            rec(ch, &c, id, defects, &mut later);
                        }
                    }
                    out.extend(later);
                } else {
                    for ch in &n.ch {
                        rec(ch, &c, id, defects, out);
                    }
                }
            }
            'A' | 'B' | 'C' => {
                let parent = ctx.sel.clone().or_else(|| ctx.back.clone());
                let c = Ctx {
                    chain: ctx.chain.clone(),
                    sel: match n.k {
                        'A' => None,
                        'B' => Some(vec!["e".into()]),
                        _ => Some(nest(&ctx.sel, &ctx.back, "f &")),
                    },
                    back: parent,
                };
                for ch in &n.ch {
                    rec(ch, &c, id, defects, out);
                }
            }
            _ => unreachable!(),
        }
    }
    let ctx = match root {
        0 => Ctx {
            chain: vec![],
            sel: Some(vec!["a".into()]),
            back: None,
        },
        1 => Ctx {
            chain: vec![],
            sel: Some(vec!["a".into(), "b".into()]),
            back: None,
        },
        2 => Ctx {
            chain: vec!["@supports (t:t)".into()],
            sel: Some(vec!["a".into()]),
            back: None,
        },
        _ => Ctx {
            chain: vec!["@baz qux".into()],
            sel: Some(vec!["a".into()]),
            back: None,
        },
    };
    let mut out = Vec::new();
    let mut id = 0;
    for n in forest {
        rec(n, &ctx, &mut id, defects, &mut out);
    }
    out
}

fn show(f: &Flat) -> String {
    f.iter()
        .map(|(p, l)| format!("{} {l}", p.join(" ")))
        .collect::<Vec<_>>()
        .join(" | ")
}

fn observe(src: &str, fmt: Fmt) -> Result<Flat, Verdict> {
    match rs::compile_str(src, fmt) {
        Out::Css(c) => {
            let nodes = css::parse(css::strip_charset(&c));
            let mut flat = Vec::new();
            flatten(&nodes, &mut Vec::new(), &mut flat);
            Ok(flat)
        }
        Out::Panic(p) => {
            let site = p.split(": ").next().unwrap_or("?").to_string();
            Err(Verdict::fail_sig(format!("panic:{site}"), format!("panic {p} on {src}")))
        }
        Out::Err(e) => Err(Verdict::fail(format!(
            "valid program rejected ({}): {e:?} on {src}",
            if fmt.compressed { "compressed" } else { "expanded" }
        ))),
    }
}

fn check(c: &Case) -> Verdict {
    let Some(forest) = parse_forest(&c.tree) else {
        return Verdict::fail(format!("bad case encoding {:?}", c.tree));
    };
    let src = print_src(c.root, &forest);
    let exp = match observe(&src, Fmt::EXPANDED) {
        Ok(f) => f,
        Err(v) => return v,
    };
    let comp = match observe(&src, Fmt::COMPRESSED) {
        Ok(f) => f,
        Err(v) => return v,
    };
    let want = model(&forest, c.root, 0);
    if exp == want && comp == want {
        return Verdict::pass(&want);
    }
    if exp != comp {
        return Verdict::fail(format!(
            "styles disagree on {src}: expanded [{}] compressed [{}] expected [{}]",
            show(&exp),
            show(&comp),
            show(&want)
        ));
    }
    for (mask, name) in [
        (HOIST, "hoist-decls-in-bubbled-at-rule"),
        (VENDOR_KF, "vendor-keyframes-prefixed"),
        (HOIST | VENDOR_KF, "hoist-decls-in-bubbled-at-rule+vendor-keyframes-prefixed"),
    ] {
        if model(&forest, c.root, mask) == exp {
            return Verdict::fail_sig(
                name,
                format!("{src} => [{}] expected [{}]", show(&exp), show(&want)),
            );
        }
    }
    Verdict::fail(format!("{src} => [{}] expected [{}]", show(&exp), show(&want)))
}

fn main() {
    let ck = Check::from_args("C20");
    let quick = ck.quick();
    ck.rule("all ordered forests (children of the root rule) with <= N nodes, depth <= D, <= 3 children per node over leaves {declaration, @keyframes, @-webkit-keyframes, @font-face} and containers {rule b, rule &-s, @media, @supports, unknown at-rule, @at-root, @at-root e, @at-root f &} x root shapes {a | a, b | @supports{a} | @baz{a}}; distinct = distinct (root, forest); outcome = flattened output tree (at-rule chain, selector, declaration) in output order, identical in both styles");
    ck.assume("the reference bubbling model (source order is kept; at-rules move outside the copied selector; @at-root drops the selector but keeps `&`; @keyframes/@font-face bodies are not prefixed)");
    ck.assume("vp::css parses rsass' output into the same block structure a browser would");

    // depth counts the levels below the root rule
    let depth = if quick { 3 } else { 4 };
    let (n_main, n_other) = if quick { (5, 4) } else { (6, 5) };

    for (root, name, nmax, leaves) in [
        (0u8, "root-a", n_main, &['d', 'k', 'f'][..]),
        (1u8, "root-list", n_other, &['d', 'k', 'f'][..]),
        (2u8, "root-in-supports", n_other, &['d', 'k', 'f'][..]),
        (3u8, "root-in-unknown", n_other, &['d', 'k', 'f'][..]),
        (0u8, "vendor-keyframes", n_other, &['d', 'w'][..]),
    ] {
        let mut g = Gen {
            leaves: leaves.to_vec(),
            conts: CONTAINERS.to_vec(),
            trees: HashMap::new(),
        };
        let mut cases: Vec<Case> = Vec::new();
        for n in 1..=nmax {
            let mut fs = Vec::new();
            g.forests(n, depth, 3, &mut String::new(), &mut fs);
            for f in fs {
                match parse_forest(&f) {
                    Some(p) if admissible(&p) => cases.push(Case { root, tree: f }),
                    Some(_) => {}
                    None => ck.machinery_error(format!("generator produced bad forest {f}")),
                }
            }
        }
        ck.run(
            name,
            &format!("forests <= {nmax} nodes, depth <= {depth}, <= 3 children"),
            cases.into_iter(),
            check,
        );
    }
    ck.finish()
}
