//! C40 The command-line tool mirrors the library.
//!
//! The `rsass` binary is (re)built by this check on every run from /repo's
//! working tree (`cargo build -p rsass-cli --offline`, CARGO_TARGET_DIR =
//! /verif/target/cli, plain dev profile, no harness rustflags) and then run as
//! a subprocess on files laid out in temp directories under /dev/shm/a38/.
//!
//! Sections
//!   * single   : every stylesheet of a 45-element alphabet (valid, failing,
//!                missing file, directory, unknown suffix, plain CSS) alone,
//!                x {expanded, compressed} x precision 0..=12.
//!   * pairs    : ordered pairs of stylesheets (fresh context per file, output
//!                order, failure in first / second place).
//!   * triples  : all ordered triples over a small sub-alphabet.
//!   * load-path: layouts {file's own dir has the module as m.scss | _m.scss |
//!                not} x {--load-path dir likewise} x {process cwd has it} x {-I absent, absolute,
//!                relative, nonexistent} x {input path absolute, relative,
//!                bare name} x 6 root stylesheets (four load kinds, a
//!                second-level load out of a load-path module, a load through
//!                a sub directory).
//!   * spellings: option spellings (`--style X`, `--style=X`, `-t X`, `-tX`,
//!                `-I D`, `-ID`, `--load-path=D`, …) and option positions.
//! Oracle.  single/pairs/triples/spellings: the library itself, in process
//! (`FsContext::for_path` + `push_path` + `with_format` + `transform`) per input
//! file: all succeed => exit status 0 and stdout == the concatenation; else
//! exit status non-zero, an `Error: …` line on stderr, and stdout is one of
//! {outputs before the first failing file, nothing, all successful outputs}
//! (the statement leaves that open).  load-path: an independent model - the
//! library run over an in-memory loader whose file table is "the input file's
//! directory, then the --load-path directory" - decides found / shadowed /
//! not found and the expected CSS.

use rsass::input::FsContext;
use serde::{Deserialize, Serialize};
use std::collections::BTreeMap;
use std::path::{Path, PathBuf};
use std::process::{Command, Stdio};
use std::sync::atomic::{AtomicU64, Ordering};
use std::sync::OnceLock;
use std::time::{Duration, Instant};
use vp::report::{Check, Verdict, EXECS};
use vp::rs::{self, Fmt, MemLoader, Out};

// ---------------------------------------------------------------------------
// scratch space, building and running the binary
// ---------------------------------------------------------------------------

static ROOT: OnceLock<PathBuf> = OnceLock::new();
static BIN: OnceLock<PathBuf> = OnceLock::new();
static IO_SEQ: AtomicU64 = AtomicU64::new(0);
static MSG_EQ: AtomicU64 = AtomicU64::new(0);
static MSG_NE: AtomicU64 = AtomicU64::new(0);

fn root() -> &'static Path {
    ROOT.get().expect("scratch root")
}

fn cleanup_scratch() {
    if let Some(base) = ROOT.get() {
        let _ = std::fs::remove_dir_all(base);
        let _ = std::fs::remove_dir("/dev/shm/a38");
    }
}

/// `cargo build -p rsass-cli --offline` in /repo into /verif/target/cli.
fn build_cli() -> Result<(PathBuf, f64), String> {
    let target = vp::report::verif_dir().join("target").join("cli");
    let t0 = Instant::now();
    let out = Command::new("cargo")
        .args(["build", "-p", "rsass-cli", "--offline"])
        .current_dir(vp::corpus::repo_dir())
        .env("CARGO_TARGET_DIR", &target)
        .env_remove("RUSTFLAGS")
        .env_remove("CARGO_ENCODED_RUSTFLAGS")
        .env_remove("CARGO_BUILD_RUSTFLAGS")
        .stdin(Stdio::null())
        .output()
        .map_err(|e| format!("cannot run cargo: {e}"))?;
    if !out.status.success() {
        let err = String::from_utf8_lossy(&out.stderr);
        let tail: Vec<&str> = err.lines().rev().take(25).collect();
        let tail: Vec<&str> = tail.into_iter().rev().collect();
        return Err(format!(
            "building rsass-cli from /repo failed ({}):\n{}",
            out.status,
            tail.join("\n")
        ));
    }
    let bin = target.join("debug").join("rsass");
    if !bin.is_file() {
        return Err(format!("{} was not produced", bin.display()));
    }
    Ok((bin, t0.elapsed().as_secs_f64()))
}

struct Run {
    /// exit status; None = killed by a signal or timed out
    code: Option<i32>,
    stdout: Vec<u8>,
    stderr: String,
    note: String,
}

/// Run the CLI with `args` in `cwd`; stdout/stderr go to scratch files so that
/// no output size can block the child.  30 s limit.
/// A time-out is only believed when it repeats with a ten times longer limit
/// (a saturated machine can delay a single spawn by tens of seconds).
fn run_cli(args: &[String], cwd: &Path) -> Run {
    let r = run_cli_once(args, cwd, 30);
    if r.note.starts_with("timed out") {
        return run_cli_once(args, cwd, 300);
    }
    r
}

fn run_cli_once(args: &[String], cwd: &Path, limit_s: u64) -> Run {
    EXECS.fetch_add(1, Ordering::Relaxed);
    let n = IO_SEQ.fetch_add(1, Ordering::Relaxed);
    let io = root().join("io");
    let po = io.join(format!("{n}.out"));
    let pe = io.join(format!("{n}.err"));
    let (fo, fe) = match (std::fs::File::create(&po), std::fs::File::create(&pe)) {
        (Ok(a), Ok(b)) => (a, b),
        _ => panic!("cannot create output files in {}", io.display()),
    };
    let child = Command::new(BIN.get().expect("binary"))
        .args(args)
        .current_dir(cwd)
        .env_clear()
        .stdin(Stdio::null())
        .stdout(Stdio::from(fo))
        .stderr(Stdio::from(fe))
        .spawn();
    let mut child = match child {
        Ok(c) => c,
        Err(e) => panic!("cannot spawn the rsass binary: {e}"),
    };
    let t0 = Instant::now();
    let mut note = String::new();
    let mut nap = 200u64;
    let status = loop {
        match child.try_wait() {
            Ok(Some(st)) => break Some(st),
            Ok(None) => {
                if t0.elapsed() > Duration::from_secs(limit_s) {
                    let _ = child.kill();
                    let _ = child.wait();
                    note = format!("timed out after {limit_s} s");
                    break None;
                }
                std::thread::sleep(Duration::from_micros(nap));
                nap = (nap * 2).min(2000);
            }
            Err(e) => panic!("waiting for the rsass binary: {e}"),
        }
    };
    let stdout = std::fs::read(&po).unwrap_or_default();
    let stderr = String::from_utf8_lossy(&std::fs::read(&pe).unwrap_or_default()).to_string();
    let _ = std::fs::remove_file(&po);
    let _ = std::fs::remove_file(&pe);
    let code = status.and_then(|s| s.code());
    if let Some(st) = status {
        if st.code().is_none() {
            note = format!("killed: {st}");
        }
    }
    Run {
        code,
        stdout,
        stderr,
        note,
    }
}

// ---------------------------------------------------------------------------
// the library, in process
// ---------------------------------------------------------------------------

#[derive(Clone, Debug, PartialEq, Eq, Hash)]
enum Lib {
    Css(Vec<u8>),
    Err(String),
    Panic(String),
}

fn lib_path(path: &Path, load_path: Option<&Path>, fmt: Fmt) -> Lib {
    EXECS.fetch_add(1, Ordering::Relaxed);
    let r = rs::guard(|| -> Result<Vec<u8>, rsass::Error> {
        let (mut ctx, src) = FsContext::for_path(path)?;
        if let Some(lp) = load_path {
            ctx.push_path(lp);
        }
        ctx.with_format(fmt.to_rsass()).transform(src)
    });
    match r {
        Err(p) => Lib::Panic(p),
        Ok(Ok(b)) => Lib::Css(b),
        Ok(Err(e)) => match rs::guard(|| format!("{e}")) {
            Ok(d) => Lib::Err(d),
            Err(p) => Lib::Panic(format!("while rendering error: {p}")),
        },
    }
}

fn panic_site(p: &str) -> String {
    // file + normalised message (no line number): survives unrelated edits
    vp::rs::panic_site(p)
}

fn show(b: &[u8]) -> String {
    vp::report::truncate(&format!("{:?}", String::from_utf8_lossy(b)), 300)
}

fn unroot(s: &str) -> String {
    s.replace(&root().display().to_string(), "<root>")
}

/// The `Error:` line of stderr (first one), without the prefix.
fn error_line(stderr: &str) -> Option<String> {
    let at = if stderr.starts_with("Error:") {
        Some(0)
    } else {
        stderr.find("\nError:").map(|p| p + 1)
    }?;
    Some(stderr[at + "Error:".len()..].trim().to_string())
}

/// Compare one invocation with the per-file expectations.
fn judge(run: &Run, refs: &[Lib], what: &str) -> Verdict {
    for r in refs {
        if let Lib::Panic(p) = r {
            return Verdict::fail_sig(
                format!("panic:{}", panic_site(p)),
                format!("{what}: the library panicked: {p}"),
            );
        }
    }
    if run.code.is_none() {
        return Verdict::fail(format!(
            "{what}: the process did not exit normally ({}); stderr={:?}",
            run.note,
            vp::report::truncate(&unroot(&run.stderr), 300)
        ));
    }
    let code = run.code.unwrap_or(-1);
    if run.stderr.contains("panicked at") {
        let site = run
            .stderr
            .split("panicked at ")
            .nth(1)
            .map(|s| panic_site(&s.replace("/repo/rsass/", "").replace("rsass/src/", "src/")))
            .unwrap_or_default();
        return Verdict::fail_sig(
            format!("panic:{site}"),
            format!("{what}: the rsass process panicked (exit {code}): {}", vp::report::truncate(&unroot(&run.stderr), 300)),
        );
    }
    let first_bad = refs.iter().position(|r| !matches!(r, Lib::Css(_)));
    let cat = |it: &mut dyn Iterator<Item = &Lib>| -> Vec<u8> {
        let mut v = Vec::new();
        for r in it {
            if let Lib::Css(b) = r {
                v.extend_from_slice(b);
            }
        }
        v
    };
    match first_bad {
        None => {
            let want = cat(&mut refs.iter());
            if code != 0 {
                return Verdict::fail(format!(
                    "{what}: every input compiles in the library but the exit status is {code}; stderr={:?}",
                    vp::report::truncate(&unroot(&run.stderr), 300)
                ));
            }
            if run.stdout != want {
                return Verdict::fail(format!(
                    "{what}: stdout {} but the library gives {}",
                    show(&run.stdout),
                    show(&want)
                ));
            }
            Verdict::pass(&(0, &run.stdout))
        }
        Some(k) => {
            if code == 0 {
                return Verdict::fail(format!(
                    "{what}: input #{k} fails in the library ({:?}) but the exit status is 0; stdout {}",
                    refs[k],
                    show(&run.stdout)
                ));
            }
            let Some(msg) = error_line(&run.stderr) else {
                return Verdict::fail(format!(
                    "{what}: exit status {code} but no `Error:` line on stderr: {:?}",
                    vp::report::truncate(&unroot(&run.stderr), 300)
                ));
            };
            if msg.is_empty() {
                return Verdict::fail(format!("{what}: empty `Error:` message"));
            }
            let before = cat(&mut refs[..k].iter());
            let all_ok = cat(&mut refs.iter());
            if !(run.stdout == before || run.stdout.is_empty() || run.stdout == all_ok) {
                return Verdict::fail(format!(
                    "{what}: input #{k} fails; stdout {} is neither the outputs before it ({}) nor empty nor all successful outputs",
                    show(&run.stdout),
                    show(&before)
                ));
            }
            // bookkeeping only: does the message equal the library's Display?
            if let Lib::Err(e) = &refs[k] {
                let full = run.stderr[run.stderr.find("Error:").unwrap_or(0)..].trim_end();
                if full == format!("Error: {e}").trim_end() {
                    MSG_EQ.fetch_add(1, Ordering::Relaxed);
                } else {
                    MSG_NE.fetch_add(1, Ordering::Relaxed);
                }
            }
            Verdict::pass(&(code != 0, &run.stdout, unroot(&msg)))
        }
    }
}

// ---------------------------------------------------------------------------
// stylesheet alphabet
// ---------------------------------------------------------------------------

struct Sheet {
    /// file name inside <root>/sheets ("" = derived from the index)
    name: &'static str,
    /// contents; U+E0FF = byte 0xFF; "<missing>" / "<dir>" are special
    src: &'static str,
    /// output depends on --precision
    prec: bool,
}

const fn sh(src: &'static str) -> Sheet {
    Sheet { name: "", src, prec: false }
}
const fn shp(src: &'static str) -> Sheet {
    Sheet { name: "", src, prec: true }
}
const fn shn(name: &'static str, src: &'static str) -> Sheet {
    Sheet { name, src, prec: false }
}

const SHEETS: &[Sheet] = &[
    // --- valid
    sh("a{b:c}"),
    sh(""),
    shp("a{b:(1/3)}"),
    shp("a{b:(2/3);c:1.23456789012345px}"),
    sh("$v:1;"),
    sh("@mixin m{f:g}"),
    sh("a{b{c:d}e:f}"),
    sh("@media screen{a{b:c}}"),
    sh("@mixin m($x){y:$x}a{@include m(2)}"),
    shp("@function f($x){@return $x*2}a{b:f(0.0555555555555)}"),
    shp("@each $i in 1,2{.a#{$i}{w:$i*0.333333333333}}"),
    sh("@if 1<2{a{b:c}}@else{d{e:f}}"),
    sh("/* loud */a{b:c}// silent\n"),
    sh("a{b:\"é\"}"),
    shp("@use \"sass:math\";a{b:math.div(1,7);c:math.$pi}"),
    sh("%p{x:y}a{@extend %p}"),
    sh("a{b:#ff0000;c:rgba(1,2,3,.5)}"),
    sh("a{b:c}\n\nd{e:f}\n"),
    sh("@import \"x.css\";a{b:c}"),
    sh("@debug \"d\";@warn \"w\";a{b:c}"),
    sh("a{}"),
    sh("@charset \"UTF-8\";a{b:c}"),
    sh("@font-face{font-family:x}"),
    sh("@keyframes k{from{a:b}to{a:c}}"),
    shp("a{b:calc(1px + 2%);c:min(1.55555555px,2px)}"),
    sh("a{--x: { y };b:var(--x)}"),
    sh("@supports (a:b){c{d:e}}"),
    sh("a{&:hover{b:c}&-x{d:e}}"),
    sh("a,b{c:d;e:f !important}"),
    Sheet { name: "plain.css", src: "a { b: 0.123456789; }\n/* c */\n", prec: true },
    shn("_partial.scss", "p{q:r}"),
    shn("with space.scss", "s{t:u}"),
    // --- failing
    sh("d{e:$v}"),
    sh("h{@include m}"),
    sh("a{b:c"),
    sh("@error \"boom\";"),
    sh("a{b:nth(1 2,5)}"),
    sh("@use \"nonexistent\";"),
    sh("@import \"nonexistent\";"),
    sh("a{b:1px+1s}"),
    sh("@function f(){@return 1}a{b:f(1)}"),
    sh("a{b:\"\u{e0ff}\"}"),
    shn("missing.scss", "<missing>"),
    shn("dir.scss", "<dir>"),
    shn("unknown.txt", "a{b:c}"),
];

fn sheet_name(i: usize) -> String {
    if SHEETS[i].name.is_empty() {
        format!("s{i:02}.scss")
    } else {
        SHEETS[i].name.to_string()
    }
}

fn bytes_of(src: &str) -> Vec<u8> {
    let mut out = Vec::with_capacity(src.len());
    for ch in src.chars() {
        if ch == '\u{e0ff}' {
            out.push(0xff);
        } else {
            let mut b = [0u8; 4];
            out.extend_from_slice(ch.encode_utf8(&mut b).as_bytes());
        }
    }
    out
}

// ---------------------------------------------------------------------------
// load-path layouts
// ---------------------------------------------------------------------------

const ROOTS: &[(&str, &str)] = &[
    ("use", "@use \"m\";a{b:c}"),
    ("import", "@import \"m\";a{b:c}"),
    ("forward", "@forward \"m\";a{b:c}"),
    ("loadcss", "@use \"sass:meta\";x{@include meta.load-css(\"m\")}"),
    // k lives only in the load path and loads n, which exists in both places
    ("second", "@use \"k\";a{b:c}"),
    // through a sub directory that exists only in the load path
    ("subdir", "@import \"sub/k2\";a{b:c}"),
];

/// Files of one layout tree: (directory: "in" | "lp" | "cwd", relative name, contents).
/// `own` / `lp`: 0 = the module `m` is absent there, 1 = `m.scss`, 2 = `_m.scss`.
fn tree_files(own: u8, lp: u8, cwd: bool) -> Vec<(&'static str, String, String)> {
    let mut v: Vec<(&'static str, String, String)> = Vec::new();
    for (k, src) in ROOTS {
        v.push(("in", format!("root-{k}.scss"), src.to_string()));
    }
    let variant = |k: u8| if k == 1 { "m.scss" } else { "_m.scss" };
    if own > 0 {
        v.push(("in", variant(own).into(), ".own{v:(1/3)}".into()));
    }
    if lp > 0 {
        v.push(("lp", variant(lp).into(), ".lp{v:(2/3)}".into()));
    }
    if cwd {
        v.push(("cwd", "m.scss".into(), ".cwd{v:(1/7)}".into()));
    }
    v.push(("lp", "k.scss".into(), "@use \"n\";.k{v:n.$n}".into()));
    v.push(("in", "_n.scss".into(), "$n:own;".into()));
    v.push(("lp", "_n.scss".into(), "$n:lp;".into()));
    v.push(("lp", "sub/k2.scss".into(), "@import \"q2\";.k2{v:(1/9)}".into()));
    v.push(("lp", "sub/_q2.scss".into(), ".q2{v:lp}".into()));
    v.push(("cwd", "sub/_q2.scss".into(), ".q2{v:cwd}".into()));
    v
}

fn tree_id(own: u8, lp: u8, cwd: bool) -> String {
    format!("t{}{}{}", own, lp, cwd as u8)
}

#[derive(Clone, Debug, Hash, Serialize, Deserialize)]
struct LayoutCase {
    /// 0 = absent, 1 = `m.scss`, 2 = `_m.scss` in the input file's directory
    own: u8,
    /// the same in the --load-path directory
    lp: u8,
    cwd: bool,
    /// root stylesheet kind (ROOTS)
    root: String,
    /// none | abs | rel | nonexistent
    opt: String,
    /// abs | rel | bare
    input: String,
    compressed: bool,
    precision: usize,
}

/// Module identity of a file name: directory + base name without the partial
/// underscore and the suffix.
fn stem(name: &str) -> String {
    let (dir, base) = match name.rfind('/') {
        Some(p) => name.split_at(p + 1),
        None => ("", name),
    };
    let base = base.strip_prefix('_').unwrap_or(base);
    let base = base
        .strip_suffix(".scss")
        .or_else(|| base.strip_suffix(".css"))
        .unwrap_or(base);
    format!("{dir}{base}")
}

/// The independent model: "the input file's directory, then --load-path".
/// `dir_major` = the statement (a module found in the input file's directory
/// under any spelling wins over the load path); otherwise the known-defect
/// variant: every spelling (`m.scss`, `_m.scss`, ...) is tried over all
/// directories before the next spelling.
fn layout_model(c: &LayoutCase, dir_major: bool) -> Out {
    let files = tree_files(c.own, c.lp, c.cwd);
    let mut table: BTreeMap<String, Vec<u8>> = BTreeMap::new();
    let lp_given = c.opt == "abs" || c.opt == "rel";
    let own_stems: Vec<String> = files
        .iter()
        .filter(|(d, _, _)| *d == "in")
        .map(|(_, n, _)| stem(n))
        .collect();
    // lower priority first, then overwrite with the input file's directory
    if lp_given {
        for (d, n, s) in &files {
            if *d == "lp" && !(dir_major && own_stems.contains(&stem(n))) {
                table.insert(n.clone(), s.clone().into_bytes());
            }
        }
    }
    for (d, n, s) in &files {
        if *d == "in" {
            table.insert(n.clone(), s.clone().into_bytes());
        }
    }
    let name = format!("root-{}.scss", c.root);
    let src = table.get(&name).cloned().unwrap_or_default();
    rs::compile_with_loader(
        MemLoader::from_map(table),
        &name,
        &src,
        Fmt::new(c.compressed, c.precision),
    )
}

fn as_lib(o: Out) -> Lib {
    match o {
        Out::Css(s) => Lib::Css(s.into_bytes()),
        Out::Err(e) => Lib::Err(e),
        Out::Panic(p) => Lib::Panic(p),
    }
}

// ---------------------------------------------------------------------------
// cases
// ---------------------------------------------------------------------------

#[derive(Clone, Debug, Hash, Serialize, Deserialize)]
struct FilesCase {
    /// indices into the stylesheet alphabet, with the contents for the record
    files: Vec<usize>,
    srcs: Vec<String>,
    compressed: bool,
    precision: usize,
}

#[derive(Clone, Debug, Hash, Serialize, Deserialize)]
struct SpellCase {
    /// "" = option absent
    style: Vec<String>,
    precision: Vec<String>,
    load_path: String,
    /// first | last | split
    position: String,
}

fn files_case(files: &[usize], fmt: (bool, usize)) -> FilesCase {
    FilesCase {
        files: files.to_vec(),
        srcs: files.iter().map(|i| SHEETS[*i].src.to_string()).collect(),
        compressed: fmt.0,
        precision: fmt.1,
    }
}

fn fmt_args(compressed: bool, precision: usize) -> Vec<String> {
    vec![
        "--style".into(),
        if compressed { "compressed" } else { "expanded" }.into(),
        "--precision".into(),
        precision.to_string(),
    ]
}

fn setup(ck: &Check) -> bool {
    let base = PathBuf::from("/dev/shm/a38").join(format!("c40-{}", std::process::id()));
    let r = (|| -> std::io::Result<()> {
        std::fs::create_dir_all(base.join("io"))?;
        let sd = base.join("sheets");
        std::fs::create_dir_all(&sd)?;
        for (i, s) in SHEETS.iter().enumerate() {
            let p = sd.join(sheet_name(i));
            match s.src {
                "<missing>" => {}
                "<dir>" => std::fs::create_dir_all(&p)?,
                src => std::fs::write(&p, bytes_of(src))?,
            }
        }
        for own in 0..3u8 {
            for lp in 0..3u8 {
                for cwd in [false, true] {
                    let t = base.join("lay").join(tree_id(own, lp, cwd));
                    for d in ["in", "lp", "cwd"] {
                        std::fs::create_dir_all(t.join(d))?;
                    }
                    for (d, n, s) in tree_files(own, lp, cwd) {
                        let p = t.join(d).join(n);
                        if let Some(parent) = p.parent() {
                            std::fs::create_dir_all(parent)?;
                        }
                        std::fs::write(p, s)?;
                    }
                }
            }
        }
        Ok(())
    })();
    if let Err(e) = r {
        ck.machinery_error(format!("cannot set up scratch {}: {e}", base.display()));
        return false;
    }
    let _ = ROOT.set(base);
    true
}

fn main() {
    let ck = Check::from_args("C40");
    let quick = ck.quick();
    ck.rule("invocations of the freshly built rsass binary: 45 stylesheets (valid / failing / missing / directory / unknown suffix / plain css) alone, in ordered pairs and ordered triples x {expanded,compressed} x precision 0..=12; 18 load-path layouts x 4 -I forms x 3 input path forms x 6 roots; option spellings x positions; distinct = distinct argument vector + layout; outcome = (exit status, stdout, Error message)");
    ck.assume("cargo can rebuild /repo/rsass-cli offline into /verif/target/cli; the scratch directory /dev/shm/a38/c40-<pid> is private to this run");
    ck.assume("when a file fails, stdout may hold the outputs of the files before it, nothing, or all successful outputs (the statement leaves it open); stderr may also carry @warn/@debug text");
    ck.assume("with --style / --precision absent any style / any precision 0..=12 is accepted (the statement does not fix the defaults)");

    match build_cli() {
        Ok((bin, secs)) => {
            let _ = BIN.set(bin);
            ck.note("cli_build_s", serde_json::json!((secs * 10.0).round() / 10.0));
        }
        Err(e) => {
            ck.machinery_error(e);
            ck.finish();
        }
    }
    if !setup(&ck) {
        ck.finish();
    }
    let sheets_dir = root().join("sheets");
    let all_fmts: Vec<(bool, usize)> = [false, true]
        .iter()
        .flat_map(|c| (0..=12).map(move |p| (*c, p)))
        .collect();
    let few_fmts: Vec<(bool, usize)> = vec![(false, 0), (false, 5), (false, 12), (true, 0), (true, 5), (true, 12)];

    let run_files = |c: &FilesCase| -> Verdict {
        // the alphabet is part of the program: a replay file from another
        // version of the alphabet is refused rather than misread
        for (k, i) in c.files.iter().enumerate() {
            if SHEETS.get(*i).map(|s| s.src) != Some(c.srcs[k].as_str()) {
                panic!("case refers to stylesheet #{i} with other contents than this version of the check");
            }
        }
        let fmt = Fmt::new(c.compressed, c.precision);
        let paths: Vec<PathBuf> = c.files.iter().map(|i| sheets_dir.join(sheet_name(*i))).collect();
        let mut args = fmt_args(c.compressed, c.precision);
        for p in &paths {
            args.push(p.display().to_string());
        }
        let run = run_cli(&args, root());
        let refs: Vec<Lib> = paths.iter().map(|p| lib_path(p, None, fmt)).collect();
        judge(&run, &refs, &format!("rsass {}", unroot(&args.join(" "))))
    };

    // ---- single files
    let n = SHEETS.len();
    let mut s1 = Vec::new();
    for i in 0..n {
        // quick: the precision-independent sheets meet 3 formats only
        let fmts: &[(bool, usize)] = if !quick || SHEETS[i].prec { &all_fmts } else { &few_fmts[1..4] };
        for f in fmts {
            if quick && ![0, 2, 5, 8, 10, 12].contains(&f.1) {
                continue;
            }
            s1.push(files_case(&[i], *f));
        }
    }
    ck.run(
        "single",
        if quick {
            "45 stylesheets; precision-sensitive ones x 2 styles x precision {0,2,5,8,10,12}, others x 3 formats"
        } else {
            "45 stylesheets x 2 styles x precision 0..=12"
        },
        s1.into_iter(),
        run_files,
    );

    // ---- ordered pairs
    let pair_set: Vec<usize> = if quick {
        // every third valid sheet and every third failing one (+ the unknown suffix)
        // and `$v:1;`, whose variable the failing `d{e:$v}` must not see
        (0..n).filter(|i| if *i < 32 { i % 3 == 0 || *i == 4 } else { i % 3 == 2 }).collect()
    } else {
        (0..n).collect()
    };
    let mut s2 = Vec::new();
    let mut k = 0usize;
    for a in &pair_set {
        for b in &pair_set {
            if quick {
                s2.push(files_case(&[*a, *b], all_fmts[k % all_fmts.len()]));
            } else {
                // both styles, precision rotating through 0..=12 with the pair
                s2.push(files_case(&[*a, *b], (false, k % 13)));
                s2.push(files_case(&[*a, *b], (true, (k + 6) % 13)));
            }
            k += 1;
        }
    }
    ck.run(
        "pairs",
        if quick {
            "all ordered pairs over 17 stylesheets (12 valid, 5 failing), format rotating through 2 styles x precision 0..=12"
        } else {
            "all ordered pairs over 45 stylesheets x both styles, precision rotating through 0..=12"
        },
        s2.into_iter(),
        run_files,
    );

    // ---- ordered triples
    // valid: plain, empty output, non-ASCII, precision-sensitive; failing: parse error, @error, missing file, undefined variable
    let tri_set: Vec<usize> = if quick { vec![0, 1, 2, 34] } else { vec![0, 1, 13, 2, 34, 35, 42, 32] };
    let mut s3 = Vec::new();
    let mut k = 0usize;
    for a in &tri_set {
        for b in &tri_set {
            for c in &tri_set {
                if quick {
                    s3.push(files_case(&[*a, *b, *c], all_fmts[(k * 7) % all_fmts.len()]));
                } else {
                    s3.push(files_case(&[*a, *b, *c], all_fmts[(k * 7) % all_fmts.len()]));
                }
                k += 1;
            }
        }
    }
    ck.run(
        "triples",
        if quick {
            "all ordered triples over 4 stylesheets (2 valid, 1 empty, 1 failing), format rotating"
        } else {
            "all ordered triples over 8 stylesheets (4 valid, 4 failing), format rotating through 2 styles x precision 0..=12"
        },
        s3.into_iter(),
        run_files,
    );

    // ---- load-path layouts
    let mut s4: Vec<LayoutCase> = Vec::new();
    let mut k = 0usize;
    for (root_kind, _) in ROOTS {
        for own in 0..3u8 {
            for lp in 0..3u8 {
                for cwd in [false, true] {
                    for opt in ["none", "abs", "rel", "nonexistent"] {
                        for input in ["abs", "rel", "bare"] {
                            if quick
                                && *root_kind != "use"
                                && !(input == "abs" && (opt == "none" || opt == "abs") && own != 1 && lp != 2)
                            {
                                continue;
                            }
                            let fmts: Vec<(bool, usize)> = if quick {
                                vec![all_fmts[(k * 5) % all_fmts.len()]]
                            } else {
                                vec![(false, k % 13), (true, (k + 6) % 13)]
                            };
                            k += 1;
                            for f in fmts {
                                s4.push(LayoutCase {
                                    own,
                                    lp,
                                    cwd,
                                    root: root_kind.to_string(),
                                    opt: opt.into(),
                                    input: input.into(),
                                    compressed: f.0,
                                    precision: f.1,
                                });
                            }
                        }
                    }
                }
            }
        }
    }
    ck.run(
        "load-path",
        if quick {
            "18 layouts (module absent | m.scss | _m.scss in own dir x in load path; x cwd has it) x 4 -I forms x 3 input forms for `@use`; 8 layouts x {no -I, absolute -I} for 5 other roots; format rotating"
        } else {
            "18 layouts x 4 -I forms x 3 input forms x 6 roots x both styles, precision rotating through 0..=12"
        },
        s4.into_iter(),
        |c: &LayoutCase| {
            let tree = root().join("lay").join(tree_id(c.own, c.lp, c.cwd));
            let name = format!("root-{}.scss", c.root);
            let (cwd, input): (PathBuf, String) = match c.input.as_str() {
                "abs" => (tree.join("cwd"), tree.join("in").join(&name).display().to_string()),
                "rel" => (tree.join("cwd"), format!("../in/{name}")),
                _ => (tree.join("in"), name.clone()),
            };
            let mut args = fmt_args(c.compressed, c.precision);
            match c.opt.as_str() {
                "abs" => {
                    args.push("--load-path".into());
                    args.push(tree.join("lp").display().to_string());
                }
                "rel" => {
                    args.push("--load-path".into());
                    args.push("../lp".into());
                }
                "nonexistent" => {
                    args.push("--load-path".into());
                    args.push(tree.join("nolp").display().to_string());
                }
                _ => {}
            }
            args.push(input);
            let run = run_cli(&args, &cwd);
            let what = format!("(cwd {}) rsass {}", unroot(&cwd.display().to_string()), unroot(&args.join(" ")));
            let want = as_lib(layout_model(c, true));
            let v = judge(&run, std::slice::from_ref(&want), &what);
            if !v.is_fail() {
                return v;
            }
            // known-defect variant: spelling-major instead of directory-major search
            let variant = as_lib(layout_model(c, false));
            if variant != want && !judge(&run, std::slice::from_ref(&variant), &what).is_fail() {
                if let Verdict::Fail { detail, .. } = v {
                    return Verdict::fail_sig("load-path-file-shadows-own-partial", detail);
                }
            }
            v
        },
    );

    // ---- the load path applies to EVERY input of one invocation
    #[derive(Clone, Debug, Hash, Serialize, Deserialize)]
    struct MultiLp {
        /// roots of the inputs, in order
        roots: Vec<String>,
        /// module layout in the load path: 1 = m.scss, 2 = _m.scss (own dir: absent)
        lp: u8,
        opt: String,
        compressed: bool,
        precision: usize,
    }
    let mut s4b: Vec<MultiLp> = Vec::new();
    {
        let kinds: Vec<&str> = ROOTS.iter().map(|(k, _)| *k).collect();
        let mut k = 0usize;
        for lp in 1..3u8 {
            for opt in ["abs", "rel"] {
                for a in &kinds {
                    for b in &kinds {
                        if quick && (a != b) && *a != "use" && *b != "use" {
                            continue;
                        }
                        let f = all_fmts[(k * 7) % all_fmts.len()];
                        k += 1;
                        s4b.push(MultiLp { roots: vec![a.to_string(), b.to_string()], lp, opt: opt.into(), compressed: f.0, precision: f.1 });
                    }
                }
                for a in kinds.iter().take(3) {
                    let f = all_fmts[(k * 7) % all_fmts.len()];
                    k += 1;
                    s4b.push(MultiLp { roots: vec![a.to_string(), "use".into(), a.to_string()], lp, opt: opt.into(), compressed: f.0, precision: f.1 });
                }
            }
        }
    }
    ck.run(
        "load-path-multi",
        "two and three inputs in ONE invocation whose module exists only in the --load-path directory (m.scss | _m.scss) x {absolute, relative} -I x root kinds: every input must see the load path",
        s4b.into_iter(),
        |c: &MultiLp| {
            let tree = root().join("lay").join(tree_id(0, c.lp, false));
            let cwd = tree.join("cwd");
            let mut args = fmt_args(c.compressed, c.precision);
            args.push("--load-path".into());
            args.push(if c.opt == "abs" { tree.join("lp").display().to_string() } else { "../lp".into() });
            let mut wants = Vec::new();
            for r in &c.roots {
                let name = format!("root-{r}.scss");
                args.push(tree.join("in").join(&name).display().to_string());
                let lc = LayoutCase { own: 0, lp: c.lp, cwd: false, root: r.clone(), opt: c.opt.clone(), input: "abs".into(), compressed: c.compressed, precision: c.precision };
                wants.push(as_lib(layout_model(&lc, true)));
            }
            let run = run_cli(&args, &cwd);
            let what = format!("(cwd {}) rsass {}", unroot(&cwd.display().to_string()), unroot(&args.join(" ")));
            judge(&run, &wants, &what)
        },
    );

    // ---- option spellings and positions
    let styles: Vec<Vec<&str>> = vec![
        vec![],
        vec!["--style", "compressed"],
        vec!["--style=compressed"],
        vec!["-t", "compressed"],
        vec!["-tcompressed"],
        vec!["-t=compressed"],
        vec!["--style", "expanded"],
        vec!["-texpanded"],
    ];
    let precs: Vec<Vec<&str>> = vec![vec![], vec!["--precision", "3"], vec!["--precision=7"]];
    let lps = ["--load-path D", "--load-path=D", "-I D", "-ID", "-I=D"];
    let mut s5 = Vec::new();
    for st in &styles {
        for (j, pr) in precs.iter().enumerate() {
            for (i, lp) in lps.iter().enumerate() {
                for (p, position) in ["first", "last", "split"].iter().enumerate() {
                    if quick && (i + j + p) % 4 != 0 {
                        continue;
                    }
                    s5.push(SpellCase {
                        style: st.iter().map(|s| s.to_string()).collect(),
                        precision: pr.iter().map(|s| s.to_string()).collect(),
                        load_path: lp.to_string(),
                        position: position.to_string(),
                    });
                }
            }
        }
    }
    ck.run(
        "spellings",
        if quick {
            "8 --style spellings x (3 --precision spellings x 5 --load-path spellings x 3 positions, every fourth)"
        } else {
            "8 --style spellings x 3 --precision spellings x 5 --load-path spellings x 3 option positions"
        },
        s5.into_iter(),
        |c: &SpellCase| {
            // layout: the module exists only in the load path
            let tree = root().join("lay").join(tree_id(0, 1, false));
            let lpdir = tree.join("lp");
            let input = tree.join("in").join("root-use.scss");
            let lp_args: Vec<String> = c
                .load_path
                .split(' ')
                .map(|s| s.replace('D', &lpdir.display().to_string()))
                .collect();
            let mut opts: Vec<Vec<String>> = vec![c.style.clone(), c.precision.clone(), lp_args];
            opts.retain(|o| !o.is_empty());
            let file = input.display().to_string();
            let mut args: Vec<String> = Vec::new();
            match c.position.as_str() {
                "first" => {
                    args.extend(opts.concat());
                    args.push(file);
                }
                "last" => {
                    args.push(file);
                    args.extend(opts.concat());
                }
                _ => {
                    let (a, b) = opts.split_at(opts.len() / 2);
                    args.extend(a.concat());
                    args.push(file);
                    args.extend(b.concat());
                }
            }
            let run = run_cli(&args, root());
            let style: Vec<bool> = match c.style.concat() {
                s if s.is_empty() => vec![false, true],
                s if s.contains("compressed") => vec![true],
                _ => vec![false],
            };
            let prec: Vec<usize> = match c.precision.concat() {
                s if s.is_empty() => (0..=12).collect(),
                s if s.contains('3') => vec![3],
                _ => vec![7],
            };
            let what = format!("rsass {}", unroot(&args.join(" ")));
            let mut last = Verdict::fail("no format tried");
            for comp in &style {
                for p in &prec {
                    let want = lib_path(&input, Some(&lpdir), Fmt::new(*comp, *p));
                    let v = judge(&run, &[want], &what);
                    if !v.is_fail() {
                        return v;
                    }
                    last = v;
                }
            }
            last
        },
    );

    ck.note(
        "error_message_equals_library_display",
        serde_json::json!({"equal": MSG_EQ.load(Ordering::Relaxed), "different": MSG_NE.load(Ordering::Relaxed)}),
    );
    cleanup_scratch();
    ck.finish()
}
