//! C01 Compilation never panics or aborts.
//!
//! All cases run in *worker subprocesses* whose compile thread has the 8 MiB
//! stack the property names (vp::worker), in batches; a dead worker (abort,
//! stack overflow) is detected by EOF and the batch is re-run case by case to
//! find the offender.  Oracle: the worker answers Ok|Err for every case (error
//! values are rendered with Display and Debug under catch_unwind); a panic or
//! a dead worker is a failure.
//!
//! Spaces (all enumerated completely, simplest first):
//!  tokens      every token string of length <= k over a ~56-token alphabet chosen
//!              one per parser shortcut, as SCSS and as CSS
//!  values      `a{b:<E>}` for all unary/binary expressions of depth <= 2 over
//!              "nasty" values, x precision ladder x both styles
//!  selectors   `<S>{x:y}` and `a{<S>{x:y}}` over a selector hole alphabet
//!  functions   every built-in function (names discovered at run time) x every
//!              argument tuple of arity <= 2/3 over nasty values
//!  nesting     every nesting construct at every depth 1..=64, and every ordered
//!              pair of constructs alternating to total depth 64
//!  corpus      every sass-spec input embedded in rsass' tests, and (thorough)
//!              its edit-distance-1 neighbourhood at token boundaries

use serde::{Deserialize, Serialize};
use serde_json::{json, Value};
use vp::report::{Check, Verdict};
use vp::rs::{self, Fmt, Out};
use vp::worker;

/// U+F8FF in a case source stands for the single invalid byte 0xFF.
fn to_bytes(s: &str) -> Vec<u8> {
    let mut out = Vec::with_capacity(s.len());
    let pat = "\u{f8ff}".as_bytes();
    let b = s.as_bytes();
    let mut i = 0;
    while i < b.len() {
        if b[i..].starts_with(pat) {
            out.push(0xff);
            i += pat.len();
        } else {
            out.push(b[i]);
            i += 1;
        }
    }
    out
}

#[derive(Clone, Debug, Hash, PartialEq, Eq, Serialize, Deserialize)]
struct Case {
    src: String,
    /// 0 = scss, 1 = plain css, 2 = compile_value
    mode: u8,
    compressed: bool,
    precision: usize,
    /// mock files (corpus inputs)
    #[serde(default, skip_serializing_if = "Vec::is_empty")]
    files: Vec<(String, String)>,
}

fn run_case(c: &Case) -> Out {
    let fmt = Fmt::new(c.compressed, c.precision);
    let bytes = to_bytes(&c.src);
    match c.mode {
        1 => rs::compile_css(&bytes, fmt),
        2 => rs::compile_value(&bytes, fmt),
        _ => {
            if c.files.is_empty() {
                rs::compile(&bytes, fmt)
            } else {
                let files: Vec<(&str, &str)> =
                    c.files.iter().map(|(a, b)| (a.as_str(), b.as_str())).collect();
                rs::compile_files(&files, "input.scss", &bytes, fmt)
            }
        }
    }
}

/// Worker side: {"cases":[Case..]} -> {"r":[[kind, text]..]}
fn worker_handler(req: &Value) -> Value {
    let cases: Vec<Case> = match serde_json::from_value(req["cases"].clone()) {
        Ok(c) => c,
        Err(e) => return json!({"worker_error": e.to_string()}),
    };
    let mut r = Vec::with_capacity(cases.len());
    for c in &cases {
        r.push(match run_case(c) {
            Out::Css(s) => json!(["ok", if s.bytes().any(|b| b.is_ascii_digit()) { "d" } else { "" }]),
            Out::Err(_) => json!(["err", ""]),
            Out::Panic(p) => json!(["panic", p]),
        });
    }
    json!({ "r": r })
}

#[derive(Clone, Debug, Hash, Serialize, Deserialize)]
struct Ladder {
    /// "stmt" | "value" | "stmt-alt" | "value-alt" | "stmt-then-value"
    kind: String,
    a: usize,
    b: usize,
    mode: u8,
    compressed: bool,
}

#[derive(Clone, Debug, Hash, Serialize, Deserialize)]
struct Batch {
    cases: Vec<Case>,
}

/// Normalise a panic text "file:line:col: message" to a call-site signature
/// that survives unrelated edits: file + message with numbers masked.
fn panic_sig(p: &str) -> String {
    let (loc, msg) = p.split_once(": ").unwrap_or((p, ""));
    let file = loc.split(':').next().unwrap_or(loc);
    let mut m = String::new();
    let mut last_digit = false;
    for ch in msg.chars() {
        if ch.is_ascii_digit() {
            if !last_digit {
                m.push('N');
            }
            last_digit = true;
        } else if ch.is_whitespace() || ch.is_control() {
            last_digit = false;
            if !m.ends_with(' ') {
                m.push(' ');
            }
        } else {
            last_digit = false;
            m.push(ch);
        }
    }
    let m: String = m.trim().chars().take(90).collect();
    format!("panic:{file}:{m}")
}

/// Run a batch in this thread's worker; returns one verdict per case.
/// A worker death is bisected to single cases.
/// reply time-out for one batch (seconds); lowered for sections whose inputs may legitimately diverge
static BATCH_TIMEOUT_S: std::sync::atomic::AtomicI32 = std::sync::atomic::AtomicI32::new(60);

fn run_batch(cases: &[Case]) -> Vec<(String, String)> {
    run_batch_t(cases, BATCH_TIMEOUT_S.load(std::sync::atomic::Ordering::Relaxed))
}

fn run_batch_t(cases: &[Case], timeout_s: i32) -> Vec<(String, String)> {
    let req = json!({ "cases": cases });
    match worker::call_t(&req, timeout_s) {
        worker::Reply::Ok(v) => {
            if let Some(arr) = v["r"].as_array() {
                if arr.len() == cases.len() {
                    return arr
                        .iter()
                        .map(|x| {
                            (
                                x[0].as_str().unwrap_or("?").to_string(),
                                x[1].as_str().unwrap_or("").to_string(),
                            )
                        })
                        .collect();
                }
            }
            cases
                .iter()
                .map(|_| ("machinery".to_string(), format!("bad worker reply {v}")))
                .collect()
        }
        worker::Reply::Died(status) => {
            if cases.len() == 1 {
                vec![("died".to_string(), status)]
            } else {
                let mid = cases.len() / 2;
                let mut a = run_batch_t(&cases[..mid], timeout_s);
                a.extend(run_batch_t(&cases[mid..], timeout_s));
                a
            }
        }
    }
}

fn judge_batch(b: &Batch) -> Verdict {
    // one Verdict per batch is too coarse for replay; batches are therefore
    // only used through `run_cases` below, which re-checks failing cases singly.
    let rs = run_batch(&b.cases);
    let bad: Vec<String> = rs
        .iter()
        .zip(&b.cases)
        .filter(|((k, _), _)| k != "ok" && k != "err")
        .map(|((k, t), c)| format!("{k} {t} :: {}", serde_json::to_string(c).unwrap_or_default()))
        .collect();
    if bad.is_empty() {
        Verdict::pass(&rs)
    } else {
        Verdict::fail(bad.join("\n"))
    }
}

/// Does the source define a @function / @mixin whose own body mentions its name
/// (called or included again)?  Body = text up to the next line that is just `}`.
fn self_recursive(src: &str) -> bool {
    for kw in ["@function", "@mixin"] {
        let mut from = 0;
        while let Some(p) = src[from..].find(kw) {
            let start = from + p + kw.len();
            from = start;
            let rest = &src[start..];
            let name: String = rest
                .trim_start()
                .chars()
                .take_while(|c| c.is_alphanumeric() || *c == '-' || *c == '_')
                .collect();
            if name.is_empty() {
                continue;
            }
            let Some(open) = rest.find('{') else { continue };
            let body = &rest[open..];
            let end = body.find("\n}").unwrap_or(body.len());
            let body = &body[..end];
            let alt = name.replace('_', "-");
            let alt2 = name.replace('-', "_");
            if [name.as_str(), alt.as_str(), alt2.as_str()].iter().any(|n| body.contains(&format!("{n}(")) || body.contains(&format!("@include {n}"))) {
                return true;
            }
        }
    }
    false
}

fn judge_single(c: &Case) -> Verdict {
    // single cases always get the long limit: a verdict must not depend on machine load
    let (k, t) = run_batch_t(std::slice::from_ref(c), 60).remove(0);
    vp::report::EXECS.fetch_add(1, std::sync::atomic::Ordering::Relaxed);
    match k.as_str() {
        "ok" => Verdict::pass(&("ok", t)),
        "err" => Verdict::pass("err"),
        "panic" => Verdict::fail_sig(panic_sig(&t), format!("panic: {t}")),
        // a Sass program may legitimately never finish (`@while` whose condition stays
        // truthy, e.g. after a one-character deletion in the corpus neighbourhood):
        // non-return of such an input says nothing about the property
        "died" if t.starts_with("timeout") && (c.src.contains("@while") || self_recursive(&c.src)) => Verdict::Trivial,
        // an endless `@while` that keeps producing output runs into the worker's memory
        // cap and aborts: still a diverging program, not a verdict
        "died" if c.src.contains("@while") => Verdict::Trivial,
        // unbounded recursion of a user-defined function / mixin: the native stack overflows
        // (a genuine defect, but one specific, recognisable cause: own signature)
        "died" if !t.starts_with("timeout") && self_recursive(&c.src) => Verdict::fail_sig(
            "died-in-self-recursive-callable",
            format!("worker process died on an 8 MiB stack while evaluating a self-recursive @function/@mixin: {t}"),
        ),
        "died" => Verdict::fail_sig(
            format!("died:{}", t.replace(|c: char| c.is_ascii_digit(), "")),
            format!("worker process died on an 8 MiB stack: {t}"),
        ),
        _ => Verdict::fail(format!("machinery: {t}")),
    }
}

/// Enumerate `cases` completely: batches of 48 go to the workers; every case of
/// a batch that contains a failure is re-judged on its own (so replay files and
/// finding keys are single cases).  Cases whose output contains a digit are
/// re-run along `ladder` (extra precisions).
fn run_cases(
    ck: &Check,
    section: &str,
    bound: &str,
    cap_s: f64,
    cases: impl Iterator<Item = Case>,
    ladder: &[usize],
) {
    let ladder = ladder.to_vec();
    struct Batcher<I: Iterator<Item = Case>> {
        it: I,
    }
    impl<I: Iterator<Item = Case>> Iterator for Batcher<I> {
        type Item = Batch;
        fn next(&mut self) -> Option<Batch> {
            let cases: Vec<Case> = self.it.by_ref().take(48).collect();
            if cases.is_empty() {
                None
            } else {
                Some(Batch { cases })
            }
        }
    }
    if ck.is_replay() {
        // replay files hold single cases
        ck.run(section, bound, std::iter::empty::<Case>(), judge_single);
        return;
    }
    // phase 1: batches; collect failing cases and digit-bearing cases
    let failing = std::sync::Mutex::new(Vec::<Case>::new());
    let digits = std::sync::Mutex::new(Vec::<Case>::new());
    ck.run_capped(
        &format!("{section} (batches of 48)"),
        bound,
        cap_s,
        Batcher { it: cases },
        |b: &Batch| {
            let rs = run_batch(&b.cases);
            vp::report::EXECS.fetch_add(b.cases.len() as u64, std::sync::atomic::Ordering::Relaxed);
            let mut kinds = Vec::new();
            for ((k, t), c) in rs.iter().zip(&b.cases) {
                kinds.push(k.clone());
                if k != "ok" && k != "err" {
                    failing.lock().unwrap().push(c.clone());
                } else if k == "ok" && t == "d" && !ladder.is_empty() {
                    digits.lock().unwrap().push(c.clone());
                }
            }
            // failures are reported by phase 2 (single cases); here the batch passes
            Verdict::pass(&(b.cases.len(), kinds))
        },
    );
    let _ = judge_batch;
    // phase 2: failing cases, singly
    let mut f = failing.into_inner().unwrap();
    f.sort_by(|a, b| (a.src.len(), &a.src).cmp(&(b.src.len(), &b.src)));
    f.dedup();
    if !f.is_empty() {
        ck.run(section, "cases of failing batches re-run singly", f.into_iter(), judge_single);
    }
    // phase 3: precision ladder for outputs that contain a number
    let d = digits.into_inner().unwrap();
    if !d.is_empty() && !ladder.is_empty() {
        let mut extra = Vec::new();
        for c in &d {
            for p in &ladder {
                if *p != c.precision {
                    let mut c2 = c.clone();
                    c2.precision = *p;
                    extra.push(c2);
                }
            }
        }
        ck.run_capped(
            &format!("{section} precision ladder"),
            &format!("cases whose output contains a number, re-run at precisions {ladder:?}"),
            cap_s,
            extra.into_iter(),
            judge_single,
        );
    }
}

// ---------------------------------------------------------------------------
// alphabets
// ---------------------------------------------------------------------------

const TOKENS: &[&str] = &[
    "a", "b", " ", "{", "}", "(", ")", "[", "]", ":", ";", ",", ".", "#", "&", "*", "%p", "#{", "\\", "\"", "'",
    "/", "/*", "*/", "//", "\n", "@media", "@if", "@else", "@each", "@include", "@mixin", "@function", "@return",
    "@use", "@import", "@at-root", "@x", "url(", "calc(", "hsl(", "NaN", "...", "!", "!important", "U+", "é",
    "\u{f8ff}", "\0", "$v", "-", "+", "1", "1e3", "1px", "=", ">", "~", "not", "and", "in", "$",
];

const NASTY: &[&str] = &[
    "0", "-0", "1", "-1", "1e18", "1e-320", "1e309", "9007199254740993", "(0/0)", "math.div(0,0)", "math.div(1,0)",
    "math.div(-1,0)", "()", "(a:1)", "\"\"", "\"é\"", "a", "null", "true", "#fff", "red", "hsl(0 0% 0%)",
    "hsl(math.div(0,0) 0% 0%)", "rgba(1,2,3,.5)", "1px*1px", "math.div(1,1px)", "1px", "1%", "1.5", "(1 2)",
    "(1,2)", "[1]", "(a b, c d)", "-", "&", "*", "1/2", "$undefined", "math.$pi", "1e-7", "0.1 + 0.2",
    "99999999999999999999", "-9223372036854775808", "1.7976931348623157e308", "\\",
];

const FN_ARGS: &[&str] = &[
    "0", "-1", "1.5", "1e18", "math.div(0,0)", "math.div(1,0)", "()", "(a:1)", "\"\"", "\"é\"", "a", "null", "#fff",
    "1px", "(1 2)", "true", "50%", "1em", "[a]", "9007199254740993", "-0.5",
];

const SELECTORS: &[&str] = &[
    "a", "*", "&", "&b", "&-b", "& b", "b &", "&&", "& &", ".c", "#i", "%p", "a%p", ":not(&)", ":not(%p)", ":is(&, b)",
    "a > b", "> b", "a >", "+ b", "~", "a,b", "a,", ",", "[x]", "[x=y]", "[x=\"y\" i]", ":hover", "::after",
    ":nth-child(2n+1)", ":nth-child(2n+1 of &)", "#{&}", "#{&}b", "a#{&}", "@at-root &", "|a", "ns|a", "*|*",
    "\\26", "é", "1a", "--x", "-", ":not()", ":is()", "a:not(b, &c)", "&:not(&)", ":host(&)", ":has(> &)", "::slotted(&)",
];

fn use_all(expr_src: &str) -> String {
    format!("{}\n{expr_src}", rs::USE_ALL)
}

fn nest_constructs() -> Vec<(&'static str, &'static str, &'static str)> {
    // (name, open, close) — a leaf `x:y` or value `1` is put in the middle by the builder
    vec![
        ("rule", "a{", "}"),
        ("amp-rule", "&b{", "}"),
        ("media", "@media x{", "}"),
        ("supports", "@supports (a:b){", "}"),
        ("unknown-at", "@foo{", "}"),
        ("at-root", "@at-root{", "}"),
        ("if", "@if true{", "}"),
        ("each", "@each $i in 1{", "}"),
        ("for", "@for $i from 1 through 1{", "}"),
        ("while-false", "@while false{", "}"),
        ("prop-block", "p:{", "}"),
        ("not-sel", ":not(", "){x:y}"),
        ("is-sel", ":is(a, ", "){x:y}"),
    ]
}

fn value_constructs() -> Vec<(&'static str, &'static str, &'static str)> {
    vec![
        ("paren", "(", ")"),
        ("bracket", "[", "]"),
        ("call", "f(", ")"),
        ("calc", "calc(", ")"),
        ("min", "min(1,", ")"),
        ("interp", "#{", "}"),
        ("str-interp", "\"#{", "}\""),
        ("map", "(k:", ")"),
        ("list", "(1,", ")"),
        ("neg", "-(", ")"),
        ("not", "not (", ")"),
        ("url", "url(#{", "})"),
        ("if-fn", "if(true,", ",2)"),
    ]
}

fn build_nest(stmt: &[(&str, &str, &str)], val: &[(&str, &str, &str)], picks: &[(bool, usize)]) -> String {
    // picks: sequence of (is_value, index); statements must come before values
    let mut open = String::new();
    let mut close: Vec<&str> = Vec::new();
    let mut in_value = false;
    let mut sel_mode = false;
    for (is_val, i) in picks {
        if *is_val {
            if !in_value {
                open.push_str("v:");
                in_value = true;
            }
            open.push_str(val[*i].1);
            close.push(val[*i].2);
        } else {
            open.push_str(stmt[*i].1);
            close.push(stmt[*i].2);
            if stmt[*i].0.ends_with("-sel") {
                sel_mode = true;
            }
        }
    }
    if in_value {
        open.push('1');
    } else if sel_mode {
        open.push('b');
    } else {
        open.push_str("x:y");
    }
    for c in close.iter().rev() {
        open.push_str(c);
    }
    open
}

fn builtin_function_names() -> Vec<String> {
    // module functions via meta.module-functions; global names by scanning the
    // sources for candidate identifiers and asking function-exists().
    let mut names: Vec<String> = Vec::new();
    for m in ["math", "list", "map", "string", "meta", "color", "selector"] {
        let src = format!(
            "@use \"sass:meta\";@use \"sass:map\";@use \"sass:{m}\" as mm;a{{b:meta.inspect(map.keys(meta.module-functions(\"mm\")))}}"
        );
        if let Out::Css(css) = rs::compile(src.as_bytes(), Fmt::EXPANDED) {
            for t in vp::css::tokenize(&css) {
                if let vp::css::Tok::Str(n) = t {
                    names.push(format!("{m}.{n}"));
                }
            }
        }
    }
    let mut cands: std::collections::BTreeSet<String> = std::collections::BTreeSet::new();
    for n in &names {
        if let Some((_, f)) = n.split_once('.') {
            cands.insert(f.to_string());
        }
    }
    // identifiers in the function sources
    let root = vp::corpus::repo_dir().join("rsass/src/sass/functions");
    fn walk(d: &std::path::Path, out: &mut Vec<std::path::PathBuf>) {
        if let Ok(rd) = std::fs::read_dir(d) {
            let mut es: Vec<_> = rd.filter_map(Result::ok).map(|e| e.path()).collect();
            es.sort();
            for p in es {
                if p.is_dir() {
                    walk(&p, out)
                } else {
                    out.push(p)
                }
            }
        }
    }
    let mut files = Vec::new();
    walk(&root, &mut files);
    for f in files {
        if let Ok(text) = std::fs::read_to_string(&f) {
            let mut cur = String::new();
            for ch in text.chars().chain(std::iter::once(' ')) {
                if ch.is_ascii_alphanumeric() || ch == '_' || ch == '-' {
                    cur.push(ch);
                } else {
                    if cur.len() >= 2 && cur.len() <= 30 && cur.chars().next().is_some_and(|c| c.is_ascii_lowercase()) {
                        cands.insert(cur.replace('_', "-"));
                    }
                    cur.clear();
                }
            }
        }
    }
    let cands: Vec<String> = cands.into_iter().collect();
    for chunk in cands.chunks(50) {
        let mut src = String::from("a{");
        for (i, c) in chunk.iter().enumerate() {
            src.push_str(&format!("p{i}:function-exists(\"{c}\");"));
        }
        src.push('}');
        if let Out::Css(css) = rs::compile(src.as_bytes(), Fmt::COMPRESSED) {
            for n in vp::css::parse(&css) {
                if let vp::css::Node::Rule { body, .. } = n {
                    for d in body {
                        if let vp::css::Node::Decl { name, value } = d {
                            if vp::css::toks_text(&value) == "true" {
                                if let Ok(i) = name[1..].parse::<usize>() {
                                    names.push(chunk[i].clone());
                                }
                            }
                        }
                    }
                }
            }
        }
    }
    names.sort();
    names.dedup();
    names
}

fn main() {
    worker::serve_if_worker(worker_handler);
    let ck = Check::from_args("C01");
    let quick = ck.quick();
    ck.rule("token strings / expression holes / selector holes / built-in function x argument tuples / nesting constructs x depth / spec corpus (+ edit-distance-1 neighbourhood), each compiled in a worker subprocess on an 8 MiB stack as SCSS and CSS, both styles, precision ladder for numeric outputs; distinct = distinct (source, mode, style, precision); outcome = ok|err|panic site|death");
    ck.assume("worker death (EOF on its pipe) is the observable for abort / stack overflow");
    ck.assume("inputs are far below 64 KiB; total nesting depth of generated inputs <= 64");
    let styles = [false, true];
    let ladder_q: Vec<usize> = vec![0, 1, 20];
    let ladder_t: Vec<usize> = (0..=20).collect();
    let ladder = if quick { ladder_q } else { ladder_t };

    // ---- tokens
    {
        let k = ck.tier.pick(3, 4);
        let n = TOKENS.len();
        let it = vp::gen::seqs_upto(n, k).flat_map(|s| {
            let src: String = s.iter().map(|i| TOKENS[*i]).collect();
            // expanded scss, compressed scss, expanded css
            vec![
                Case { src: src.clone(), mode: 0, compressed: false, precision: 10, files: vec![] },
                Case { src: src.clone(), mode: 1, compressed: false, precision: 10, files: vec![] },
                Case { src, mode: 0, compressed: true, precision: 5, files: vec![] },
            ]
        });
        run_cases(
            &ck,
            "tokens",
            &format!("all token strings of length <= {k} over {n} tokens x {{scss, css, scss compressed}}"),
            ck.tier.pick(40.0, 420.0),
            it,
            &[],
        );
    }

    // ---- values: a{b:<E>}
    {
        let vals: Vec<&str> = if quick { NASTY.iter().copied().take(28).collect() } else { NASTY.to_vec() };
        let bin = ["+", "-", "*", "/", "%", "==", "<", "and", ","];
        let bin = if quick { &bin[..7] } else { &bin[..] };
        let un = ["-", "not ", "+", "/"];
        let mut exprs: Vec<String> = Vec::new();
        for v in &vals {
            exprs.push(v.to_string());
            for u in un {
                exprs.push(format!("{u}{v}"));
            }
        }
        for a in &vals {
            for b in &vals {
                for op in bin {
                    exprs.push(format!("{a} {op} {b}"));
                }
            }
        }
        if !quick {
            // depth 2: (a op b) op c and a op (b op c) over a smaller value set
            let small: Vec<&str> = NASTY.iter().copied().step_by(3).collect();
            for a in &small {
                for b in &small {
                    for c in &small {
                        for o1 in ["+", "*", "/", "%", "<"] {
                            for o2 in ["-", "*", "=="] {
                                exprs.push(format!("({a} {o1} {b}) {o2} {c}"));
                                exprs.push(format!("{a} {o1} ({b} {o2} {c})"));
                            }
                        }
                    }
                }
            }
        }
        let n = exprs.len();
        let it = exprs.into_iter().flat_map(|e| {
            let s1 = use_all(&format!("a{{b:{e}}}"));
            let s2 = use_all(&format!("$x:{e};a{{b:meta.inspect($x);c:$x==$x;d:meta.type-of($x)}}"));
            let mut v = Vec::new();
            for c in styles {
                v.push(Case { src: s1.clone(), mode: 0, compressed: c, precision: 10, files: vec![] });
            }
            v.push(Case { src: s2, mode: 0, compressed: false, precision: 10, files: vec![] });
            v.push(Case { src: e, mode: 2, compressed: false, precision: 10, files: vec![] });
            v
        });
        run_cases(
            &ck,
            "values",
            &format!("{n} expressions (unary, binary{} over nasty values) x {{declaration both styles, inspect/==/type-of, compile_value}}", if quick { "" } else { ", depth-2" }),
            ck.tier.pick(30.0, 300.0),
            it,
            &ladder,
        );
    }

    // ---- selectors
    {
        let sels: Vec<&str> = SELECTORS.to_vec();
        let mut srcs: Vec<String> = Vec::new();
        for s in &sels {
            srcs.push(format!("{s}{{x:y}}"));
            srcs.push(format!("a{{{s}{{x:y}}}}"));
            srcs.push(format!("a,b{{c &{{{s}{{x:y}}}}}}"));
            srcs.push(format!("@media x{{{s}{{x:y}}}}"));
            srcs.push(format!("%p{{x:y}}q{{@extend %p}}{s}{{@extend %p;x:y}}"));
            srcs.push(use_all(&format!("a{{b:selector.parse(\"{}\")}}", s.replace('\\', "\\\\").replace('"', "\\\""))));
        }
        for a in &sels {
            for b in &sels {
                srcs.push(format!("{a}{{{b}{{x:y}}}}"));
                if !quick {
                    srcs.push(format!("{a}, {b}{{x:y}}"));
                    srcs.push(format!("{a} {b}{{x:y}}"));
                    srcs.push(format!("{a}{b}{{x:y}}"));
                    let q = |s: &str| s.replace('\\', "\\\\").replace('"', "\\\"");
                    srcs.push(use_all(&format!(
                        "a{{b:selector.unify(\"{0}\",\"{1}\");c:selector.is-superselector(\"{0}\",\"{1}\");d:selector.extend(\"{0}\",\"{1}\",\"q\");e:selector.nest(\"{0}\",\"{1}\");f:selector.append(\"{0}\",\"{1}\")}}",
                        q(a), q(b)
                    )));
                }
            }
        }
        let n = srcs.len();
        let it = srcs.into_iter().flat_map(|s| {
            vec![
                Case { src: s.clone(), mode: 0, compressed: false, precision: 10, files: vec![] },
                Case { src: s.clone(), mode: 0, compressed: true, precision: 10, files: vec![] },
                Case { src: s, mode: 1, compressed: false, precision: 10, files: vec![] },
            ]
        });
        run_cases(&ck, "selectors", &format!("{n} stylesheets: selector holes alone, nested (all ordered pairs), in @media, with @extend, through selector functions"), ck.tier.pick(30.0, 200.0), it, &[]);
    }

    // ---- built-in functions
    {
        let names = builtin_function_names();
        ck.note("builtin_functions_discovered", json!(names.len()));
        let args: Vec<&str> = if quick { FN_ARGS.iter().copied().take(14).collect() } else { FN_ARGS.to_vec() };
        let max_ar = ck.tier.pick(2, 3);
        let mut it_src: Vec<String> = Vec::new();
        for f in &names {
            for ar in 0..=max_ar {
                // arity 3 only over a reduced value set
                let pool: Vec<&str> = if ar == 3 { args.iter().copied().step_by(2).collect() } else { args.clone() };
                for t in vp::gen::seqs(pool.len(), ar) {
                    let a: Vec<&str> = t.iter().map(|i| pool[*i]).collect();
                    it_src.push(format!("a{{b:{f}({})}}", a.join(", ")));
                }
            }
            // splats and keyword forms
            it_src.push(format!("a{{b:{f}((1 2 3)...)}}"));
            it_src.push(format!("a{{b:{f}((a:1,b:2)...)}}"));
            it_src.push(format!("a{{b:{f}($x:1)}}"));
            it_src.push(format!("a{{b:{f}(1, $x:1)}}"));
            it_src.push(format!("a{{b:{f}(()...)}}"));
        }
        let n = it_src.len();
        let it = it_src.into_iter().map(|s| Case { src: use_all(&s), mode: 0, compressed: false, precision: 10, files: vec![] });
        run_cases(
            &ck,
            "functions",
            &format!("{} built-in functions (module and global spellings, discovered at run time) x all argument tuples of arity <= {max_ar} over {} nasty values + splat/keyword forms = {n} calls", names.len(), args.len()),
            ck.tier.pick(40.0, 420.0),
            it,
            if quick { &[] } else { &ladder[..] },
        );
    }

    // ---- nesting depth: one case = one construct pattern, climbed depth by depth
    {
        let st = nest_constructs();
        let va = value_constructs();
        let block: Vec<usize> = st.iter().enumerate().filter(|(_, s)| !s.0.ends_with("-sel")).map(|(i, _)| i).collect();
        let mut ladders: Vec<Ladder> = Vec::new();
        for mode in [0u8, 1u8] {
            for compressed in [false, true] {
                if mode == 1 && compressed {
                    continue;
                }
                for i in 0..st.len() {
                    ladders.push(Ladder { kind: "stmt".into(), a: i, b: i, mode, compressed });
                }
                for i in 0..va.len() {
                    ladders.push(Ladder { kind: "value".into(), a: i, b: i, mode, compressed });
                }
                if mode == 0 || !quick {
                    for a in &block {
                        for b in &block {
                            if a != b {
                                ladders.push(Ladder { kind: "stmt-alt".into(), a: *a, b: *b, mode, compressed });
                            }
                        }
                    }
                    for a in 0..va.len() {
                        for b in 0..va.len() {
                            if a != b {
                                ladders.push(Ladder { kind: "value-alt".into(), a, b, mode, compressed });
                            }
                        }
                    }
                    for a in &block {
                        for b in 0..va.len() {
                            ladders.push(Ladder { kind: "stmt-then-value".into(), a: *a, b, mode, compressed });
                        }
                    }
                }
            }
        }
        let n = ladders.len();
        ck.run(
            "nesting",
            &format!("{n} nesting patterns (13 statement-level and 13 value-level constructs: single, every ordered pair alternating, block-prefix then value-suffix) x {{scss expanded, scss compressed, css}}, each climbed through every total depth 1..=64 until the first failure"),
            ladders.into_iter(),
            |l: &Ladder| {
                let st = nest_constructs();
                let va = value_constructs();
                let mut kinds = Vec::new();
                for d in 1..=64usize {
                    let picks: Vec<(bool, usize)> = match l.kind.as_str() {
                        "stmt" => (0..d).map(|_| (false, l.a)).collect(),
                        "value" => {
                            let mut p = vec![(false, 0)];
                            p.extend((0..d.saturating_sub(1)).map(|_| (true, l.a)));
                            p
                        }
                        "stmt-alt" => (0..d).map(|k| (false, if k % 2 == 0 { l.a } else { l.b })).collect(),
                        "value-alt" => {
                            let mut p = vec![(false, 0)];
                            p.extend((0..d.saturating_sub(1)).map(|k| (true, if k % 2 == 0 { l.a } else { l.b })));
                            p
                        }
                        _ => {
                            let mut p: Vec<(bool, usize)> = (0..d.div_ceil(2)).map(|_| (false, l.a)).collect();
                            p.extend((0..d / 2).map(|_| (true, l.b)));
                            p
                        }
                    };
                    let c = Case { src: build_nest(&st, &va, &picks), mode: l.mode, compressed: l.compressed, precision: 10, files: vec![] };
                    vp::report::EXECS.fetch_add(1, std::sync::atomic::Ordering::Relaxed);
                    let mut rep = worker::call_t(&json!({"cases": [c]}), 4);
                    if matches!(&rep, worker::Reply::Died(s) if s.starts_with("timeout")) {
                        // believe a time-out only if the case is reproducibly slow: a retry
                        // with a longer limit that answers quickly was scheduling noise
                        let t0 = std::time::Instant::now();
                        let again = worker::call_t(&json!({"cases": [c]}), 20);
                        if !(matches!(&again, worker::Reply::Ok(_)) && t0.elapsed().as_secs_f64() >= 2.0) {
                            rep = again;
                        }
                    }
                    let (k, t) = match rep {
                        worker::Reply::Ok(v) => (
                            v["r"][0][0].as_str().unwrap_or("?").to_string(),
                            v["r"][0][1].as_str().unwrap_or("").to_string(),
                        ),
                        worker::Reply::Died(s) => ("died".to_string(), s),
                    };
                    match k.as_str() {
                        "ok" | "err" => kinds.push(k),
                        "panic" => {
                            return Verdict::fail_sig(
                                format!("{}@depth{}", panic_sig(&t), d),
                                format!("panic at total nesting depth {d}: {t}"),
                            )
                        }
                        "died" if t.starts_with("timeout") => {
                            // time-dependent: the depth is not part of the signature, only a floor
                            return Verdict::fail_sig(
                                format!("nesting-timeout:{}", if d >= 16 { "depth>=16" } else { "shallow" }),
                                format!("no answer within 4 s (and slow or no answer again on a retry with 20 s) at total nesting depth {d}; earlier depths answered"),
                            );
                        }
                        "died" => {
                            return Verdict::fail_sig(
                                format!("nesting-died:{}@depth{}", t.replace(|c: char| c.is_ascii_digit(), ""), d),
                                format!("worker died on an 8 MiB stack at total nesting depth {d}: {t}"),
                            )
                        }
                        _ => return Verdict::fail(format!("machinery: {k} {t}")),
                    }
                }
                Verdict::pass(&kinds)
            },
        );
    }

    // ---- corpus
    {
        let corpus = vp::corpus::load();
        ck.note("corpus_inputs", json!(corpus.len()));
        let n = corpus.len();
        let it = corpus.iter().flat_map(|c| {
            let mk = |mode: u8, compressed: bool, precision: usize| Case {
                src: c.src.clone(),
                mode,
                compressed,
                precision,
                files: if mode == 0 { c.mocks.clone() } else { vec![] },
            };
            vec![mk(0, false, 10), mk(0, true, 10), mk(1, false, 10), mk(0, false, 0), mk(0, true, 20)]
        });
        run_cases(&ck, "corpus", &format!("{n} sass-spec inputs x {{scss expanded/compressed, css, precision 0, precision 20}}"), ck.tier.pick(60.0, 300.0), it, &[]);

        if !quick || ck.is_replay() {
            // edit-distance-1 neighbourhood at byte-token boundaries: delete one token,
            // or insert one of 12 tokens, at every boundary; inputs <= 400 bytes
            let ins = ["{", "}", "(", ")", "&", "#{", "\"", "\\", "@", ":", ";", "*"];
            let it = corpus.iter().filter(|c| c.src.len() <= 400 && c.kind != "mock").flat_map(|c| {
                let src = c.src.clone();
                let bounds: Vec<usize> = (0..=src.len()).filter(|i| src.is_char_boundary(*i)).collect();
                let mocks = c.mocks.clone();
                let mut v = Vec::new();
                for w in bounds.windows(2) {
                    let mut s = String::with_capacity(src.len());
                    s.push_str(&src[..w[0]]);
                    s.push_str(&src[w[1]..]);
                    v.push(Case { src: s, mode: 0, compressed: false, precision: 10, files: mocks.clone() });
                }
                // insertions at a stride that keeps the section within its budget
                for (k, b) in bounds.iter().enumerate() {
                    let tok = ins[k % ins.len()];
                    let mut s = String::with_capacity(src.len() + 2);
                    s.push_str(&src[..*b]);
                    s.push_str(tok);
                    s.push_str(&src[*b..]);
                    v.push(Case { src: s, mode: 0, compressed: false, precision: 10, files: mocks.clone() });
                }
                v
            });
            // mutated programs may loop (`@while`, recursion): 48 small compiles take milliseconds,
            // so a short limit keeps a diverging case from blocking a worker for minutes
            BATCH_TIMEOUT_S.store(10, std::sync::atomic::Ordering::Relaxed);
            run_cases(&ck, "corpus-neighbourhood", "every single-character deletion and one token insertion (12 tokens, round-robin) at every character boundary of every corpus input <= 400 bytes", 420.0, it, &[]);
        }
    }

    ck.finish()
}
