//! C28 List functions follow the Sass list model.
//!
//! Space: list values = every element tuple of length 0..=L over an element
//! alphabet (ident, number, quoted string, null, space/comma/slash/bracketed
//! sub-lists, `()`, a map) x {space, comma, slash} x {plain, bracketed}, all
//! singleton forms (`x`, `(x,)`, `[x]`, `[x,]`, slash and space singletons),
//! `()`, `[]`, the empty comma list, maps (incl. the empty map) and argument
//! lists (empty, positional, with keywords, with a trailing comma, made by
//! spreading a space list).  Functions: length / separator / is-bracketed on
//! every list; nth and set-nth at every index in -(n+1)..=n+1 plus `1.0`,
//! `1.5`, `-0`, `1px`; append x values x every `$separator` form; join on all
//! pairs x `$separator` x `$bracketed` forms; index on lists over an alphabet
//! of `==`-near elements x every value; zip on all tuples of <= 3 lists; and an
//! explicit-state search over operation sequences (append / join on either side
//! / set-nth) of length <= 3 from several start lists.
//!
//! Oracle (R-list): a reference implementation of the Sass list model in this
//! file (values, `==`, as-list view, separator/bracket inheritance, and the
//! `inspect` text of the result).  The observation is `meta.inspect(result)`;
//! for list-valued results also length, separator, is-bracketed and the *real*
//! separator (undecided vs space, seen through `join($r, (x, y))`).

use serde::{Deserialize, Serialize};
use std::collections::HashSet;
use vp::report::{Check, Verdict};
use vp::rs::{self, Fmt, Out};

const PRELUDE: &str =
    "@use \"sass:list\";@use \"sass:map\";@use \"sass:meta\";@function args($a...){@return $a}\n";

// ---------------------------------------------------------------------------
// values
// ---------------------------------------------------------------------------

#[derive(Clone, Copy, Debug, Hash, PartialEq, Eq, Serialize, Deserialize)]
enum Sep {
    /// undecided
    U,
    Space,
    Comma,
    Slash,
}

#[derive(Clone, Debug, Hash, PartialEq, Eq, Serialize, Deserialize)]
enum V {
    /// number: value, unit
    N(i64, String),
    /// string: text, quoted
    S(String, bool),
    B(bool),
    Null,
    /// list: items, separator, bracketed
    L(Vec<V>, Sep, bool),
    /// map
    M(Vec<(V, V)>),
    /// argument list: positional, keywords, separator, call had a trailing comma
    A(Vec<V>, Vec<(String, V)>, Sep, bool),
}
use V::*;

fn id(s: &str) -> V {
    S(s.to_string(), false)
}
fn num(n: i64) -> V {
    N(n, String::new())
}
fn px(n: i64) -> V {
    N(n, "px".to_string())
}
fn sp(items: Vec<V>) -> V {
    L(items, Sep::Space, false)
}
fn cm(items: Vec<V>) -> V {
    L(items, Sep::Comma, false)
}
fn sl(items: Vec<V>) -> V {
    L(items, Sep::Slash, false)
}

/// SassScript source of a value.
fn src(v: &V) -> String {
    match v {
        N(n, u) => format!("{n}{u}"),
        S(t, false) => t.clone(),
        S(t, true) => format!("\"{t}\""),
        B(b) => b.to_string(),
        Null => "null".into(),
        L(items, sep, brk) => {
            let parts: Vec<String> = items.iter().map(src).collect();
            let (o, c) = if *brk { ("[", "]") } else { ("(", ")") };
            match (items.len(), sep) {
                (0, Sep::U) => format!("{o}{c}"),
                (0, s) => format!("list.join({o}{c}, (), {})", sep_name(*s)),
                (1, Sep::U) if *brk => format!("[{}]", parts[0]),
                // a one-element undecided plain list has no literal
                (1, Sep::U) => format!("list.set-nth(q, 1, {})", parts[0]),
                (1, Sep::Comma) => format!("{o}{},{c}", parts[0]),
                (1, s) => format!("list.append({o}{c}, {}, {})", parts[0], sep_name(*s)),
                (_, Sep::Comma) => format!("{o}{}{c}", parts.join(", ")),
                (_, Sep::Slash) if *brk => format!(
                    "list.join(list.slash({}), (), $bracketed: true)",
                    parts.join(", ")
                ),
                (_, Sep::Slash) => format!("list.slash({})", parts.join(", ")),
                _ => format!("{o}{}{c}", parts.join(" ")),
            }
        }
        M(pairs) => {
            if pairs.is_empty() {
                "map.remove((k: v), k)".into()
            } else {
                let parts: Vec<String> =
                    pairs.iter().map(|(k, v)| format!("{}: {}", src(k), src(v))).collect();
                format!("({})", parts.join(", "))
            }
        }
        A(pos, named, sep, trailing) => {
            if *sep == Sep::Space {
                // arglist made by spreading a space-separated list
                let parts: Vec<String> = pos.iter().map(src).collect();
                return format!("args(({})...)", parts.join(" "));
            }
            let mut parts: Vec<String> = pos.iter().map(src).collect();
            parts.extend(named.iter().map(|(k, v)| format!("${k}: {}", src(v))));
            format!("args({}{})", parts.join(", "), if *trailing { "," } else { "" })
        }
    }
}

fn sep_name(s: Sep) -> &'static str {
    match s {
        Sep::Comma => "comma",
        Sep::Slash => "slash",
        _ => "space",
    }
}

// ---------------------------------------------------------------------------
// reference model
// ---------------------------------------------------------------------------

/// Switches of the reference model.  `pairs` is a reading choice (the
/// statement lets an argument list act as its positional values, as
/// dart-sass does, or as positional values followed by (keyword value)
/// pairs); the others are known-defect variants.
#[derive(Clone, Copy, Debug, Default, PartialEq)]
struct Sw {
    pairs: bool,
    /// length(null) is 0
    null_len0: bool,
    /// index on a map compares (key value) with the value ignoring its brackets
    map_index_brackets: bool,
    /// index on an argument list treats it as a single value
    arglist_index_scalar: bool,
    /// an argument list always reports / inherits the comma separator
    arglist_sep_comma: bool,
    /// zip sees an extra null item after a trailing comma in the call
    arglist_trailing_null: bool,
    /// the literal `[()]` evaluates to `[]`
    bracketed_unit_collapses: bool,
}

/// The value a source literal really denotes under the switches.
fn pre(v: &V, sw: Sw) -> V {
    if !sw.bracketed_unit_collapses {
        return v.clone();
    }
    match v {
        L(items, Sep::U, true) if items.len() == 1 && items[0] == L(vec![], Sep::U, false) => {
            L(vec![], Sep::U, true)
        }
        L(items, s, b) => L(items.iter().map(|i| pre(i, sw)).collect(), *s, *b),
        M(pairs) => M(pairs.iter().map(|(k, v)| (pre(k, sw), pre(v, sw))).collect()),
        A(pos, named, s, t) => A(
            pos.iter().map(|i| pre(i, sw)).collect(),
            named.iter().map(|(k, v)| (k.clone(), pre(v, sw))).collect(),
            *s,
            *t,
        ),
        other => other.clone(),
    }
}

fn as_list(v: &V, sw: Sw) -> Vec<V> {
    match v {
        L(items, _, _) => items.clone(),
        M(pairs) => pairs.iter().map(|(k, v)| sp(vec![k.clone(), v.clone()])).collect(),
        A(pos, named, _, _) => {
            let mut out = pos.clone();
            if sw.pairs {
                out.extend(named.iter().map(|(k, v)| sp(vec![id(k), v.clone()])));
            }
            out
        }
        other => vec![other.clone()],
    }
}

fn sep_of(v: &V, sw: Sw) -> Sep {
    match v {
        L(_, s, _) => *s,
        M(p) => {
            if p.is_empty() {
                Sep::U
            } else {
                Sep::Comma
            }
        }
        A(_, _, s, _) => {
            if sw.arglist_sep_comma {
                Sep::Comma
            } else {
                *s
            }
        }
        _ => Sep::U,
    }
}

fn brk_of(v: &V) -> bool {
    matches!(v, L(_, _, true))
}

fn eq(a: &V, b: &V) -> bool {
    match (a, b) {
        (N(x, u), N(y, w)) => x == y && u == w,
        (S(x, _), S(y, _)) => x == y,
        (B(x), B(y)) => x == y,
        (Null, Null) => true,
        (L(x, s, k), L(y, t, j)) => {
            s == t && k == j && x.len() == y.len() && x.iter().zip(y).all(|(p, q)| eq(p, q))
        }
        (M(x), M(y)) => {
            x.len() == y.len()
                && x.iter().all(|(k, v)| y.iter().any(|(k2, v2)| eq(k, k2) && eq(v, v2)))
        }
        (L(x, _, _), M(y)) | (M(y), L(x, _, _)) => x.is_empty() && y.is_empty(),
        (A(p, _, s, _), other) | (other, A(p, _, s, _)) => eq(&L(p.clone(), *s, false), other),
        _ => false,
    }
}

fn needs_parens(outer: Sep, e: &V) -> bool {
    match e {
        L(items, inner, false) if items.len() >= 2 => match outer {
            Sep::Comma => *inner == Sep::Comma,
            Sep::Slash => *inner == Sep::Comma || *inner == Sep::Slash,
            _ => *inner != Sep::U,
        },
        _ => false,
    }
}

fn insp_list(items: &[V], sep: Sep, brk: bool) -> String {
    let mut s = String::new();
    if brk {
        s.push('[');
    } else if items.is_empty() {
        return "()".into();
    }
    let singleton = items.len() == 1 && matches!(sep, Sep::Comma | Sep::Slash);
    if singleton && !brk {
        s.push('(');
    }
    let sepstr = match sep {
        Sep::Comma => ", ",
        Sep::Slash => " / ",
        _ => " ",
    };
    for (i, e) in items.iter().enumerate() {
        if i > 0 {
            s.push_str(sepstr);
        }
        if needs_parens(sep, e) {
            s.push('(');
            s.push_str(&insp(e));
            s.push(')');
        } else {
            s.push_str(&insp(e));
        }
    }
    if singleton {
        s.push(if sep == Sep::Comma { ',' } else { '/' });
        if !brk {
            s.push(')');
        }
    }
    if brk {
        s.push(']');
    }
    s
}

/// Text of `meta.inspect(v)`.
fn insp(v: &V) -> String {
    match v {
        N(n, u) => format!("{n}{u}"),
        S(t, false) => t.clone(),
        S(t, true) => format!("\"{t}\""),
        B(b) => b.to_string(),
        Null => "null".into(),
        L(items, sep, brk) => insp_list(items, *sep, *brk),
        M(pairs) => {
            if pairs.is_empty() {
                return "()".into();
            }
            let el = |v: &V| {
                if matches!(v, L(_, Sep::Comma, false)) {
                    format!("({})", insp(v))
                } else {
                    insp(v)
                }
            };
            let parts: Vec<String> =
                pairs.iter().map(|(k, v)| format!("{}: {}", el(k), el(v))).collect();
            format!("({})", parts.join(", "))
        }
        A(pos, _, sep, _) => insp_list(pos, *sep, false),
    }
}

/// An index argument as written.
fn index_of(text: &str, len: usize) -> IdxR {
    match text {
        "1.5" => return IdxR::Reject,
        "-0" => return IdxR::Reject,
        "1.0" => return index_of("1", len),
        "1px" => {
            // sass-spec accepts an index with a unit; the statement is silent
            return match index_of("1", len) {
                IdxR::At(i) => IdxR::AtOrReject(i),
                r => r,
            };
        }
        _ => {}
    }
    let n: i64 = match text.parse() {
        Ok(n) => n,
        Err(_) => return IdxR::Reject,
    };
    let len = len as i64;
    if n >= 1 && n <= len {
        IdxR::At((n - 1) as usize)
    } else if n <= -1 && n >= -len {
        IdxR::At((len + n) as usize)
    } else {
        IdxR::Reject
    }
}

#[derive(Clone, Copy, Debug, PartialEq)]
enum IdxR {
    At(usize),
    AtOrReject(usize),
    Reject,
}

/// What the model expects.
#[derive(Clone, Debug, PartialEq)]
enum Want {
    Val(V),
    Error,
    /// either the value or an error
    ValOrError(V),
}

fn m_length(l: &V, sw: Sw) -> Want {
    if sw.null_len0 && *l == Null {
        return Want::Val(num(0));
    }
    Want::Val(num(as_list(l, sw).len() as i64))
}
fn m_nth(l: &V, n: &str, sw: Sw) -> Want {
    let items = as_list(l, sw);
    match index_of(n, items.len()) {
        IdxR::At(i) => Want::Val(items[i].clone()),
        IdxR::AtOrReject(i) => Want::ValOrError(items[i].clone()),
        IdxR::Reject => Want::Error,
    }
}
fn m_set_nth(l: &V, n: &str, v: &V, sw: Sw) -> Want {
    let mut items = as_list(l, sw);
    let mk = |items: Vec<V>| L(items, sep_of(l, sw), brk_of(l));
    match index_of(n, items.len()) {
        IdxR::At(i) => {
            items[i] = v.clone();
            Want::Val(mk(items))
        }
        IdxR::AtOrReject(i) => {
            items[i] = v.clone();
            Want::ValOrError(mk(items))
        }
        IdxR::Reject => Want::Error,
    }
}

/// `$separator` argument as written: None = omitted.
fn sep_arg(arg: &Option<String>) -> Result<Option<Sep>, ()> {
    match arg.as_deref().map(|s| s.trim_matches('"')) {
        None | Some("auto") => Ok(None),
        Some("space") => Ok(Some(Sep::Space)),
        Some("comma") => Ok(Some(Sep::Comma)),
        Some("slash") => Ok(Some(Sep::Slash)),
        Some(_) => Err(()),
    }
}

fn m_append(l: &V, v: &V, sep: &Option<String>, sw: Sw) -> Want {
    let sep = match sep_arg(sep) {
        Err(()) => return Want::Error,
        Ok(Some(s)) => s,
        Ok(None) => match sep_of(l, sw) {
            Sep::U => Sep::Space,
            s => s,
        },
    };
    let mut items = as_list(l, sw);
    items.push(v.clone());
    Want::Val(L(items, sep, brk_of(l)))
}

/// `$bracketed` argument as written: None = omitted.
fn brk_arg(arg: &Option<String>, first: bool) -> bool {
    match arg.as_deref() {
        None | Some("auto") | Some("\"auto\"") => first,
        Some("false") | Some("null") => false,
        Some(_) => true,
    }
}

fn m_join(a: &V, b: &V, sep: &Option<String>, brk: &Option<String>, sw: Sw) -> Want {
    let sep = match sep_arg(sep) {
        Err(()) => return Want::Error,
        Ok(Some(s)) => s,
        Ok(None) => match (sep_of(a, sw), sep_of(b, sw)) {
            (Sep::U, Sep::U) => Sep::Space,
            (Sep::U, s) => s,
            (s, _) => s,
        },
    };
    let mut items = as_list(a, sw);
    items.extend(as_list(b, sw));
    Want::Val(L(items, sep, brk_arg(brk, brk_of(a))))
}

fn m_index(l: &V, v: &V, sw: Sw) -> Want {
    if sw.arglist_index_scalar && matches!(l, A(..)) {
        return Want::Val(Null);
    }
    let v = match (l, v) {
        (M(_), L(items, s, true)) if sw.map_index_brackets => L(items.clone(), *s, false),
        _ => v.clone(),
    };
    match as_list(l, sw).iter().position(|e| eq(e, &v)) {
        Some(i) => Want::Val(num(i as i64 + 1)),
        None => Want::Val(Null),
    }
}

fn m_zip(lists: &[V], sw: Sw) -> Want {
    let lists: Vec<Vec<V>> = lists
        .iter()
        .map(|l| {
            let mut items = as_list(l, sw);
            if sw.arglist_trailing_null && matches!(l, A(_, _, _, true)) {
                items.push(Null);
            }
            items
        })
        .collect();
    let n = lists.iter().map(Vec::len).min().unwrap_or(0);
    let rows = (0..n).map(|i| sp(lists.iter().map(|l| l[i].clone()).collect())).collect();
    Want::Val(cm(rows))
}

// ---------------------------------------------------------------------------
// observation and judgement
// ---------------------------------------------------------------------------

/// Observed declarations of the probe rule: (name, value).
type Obs = Vec<(String, String)>;

/// What is observed of the value of the case's expression.
#[derive(Clone, Copy, Debug, PartialEq)]
enum Mode {
    /// inspect text
    Scalar,
    /// inspect, length, separator, is-bracketed, real separator
    List,
    /// the expression is a list: length, separator, is-bracketed of it
    Unary,
}

fn run_expr(expr: &str, mode: Mode) -> Result<Obs, Out> {
    let decls = match mode {
        Mode::List => "i:meta.inspect($r);n:list.length($r);s:list.separator($r);k:list.is-bracketed($r);u:list.separator(list.join($r,(x,y)))",
        Mode::Scalar => "i:meta.inspect($r)",
        Mode::Unary => "n:list.length($r);s:list.separator($r);k:list.is-bracketed($r)",
    };
    let source = format!("{PRELUDE}$r:{expr};a{{{decls}}}\n");
    match rs::compile_str(&source, Fmt::EXPANDED) {
        Out::Css(css) => {
            let mut obs = Obs::new();
            for line in css.lines() {
                if let Some(rest) = line.strip_prefix("  ") {
                    if let Some((k, v)) = rest.split_once(": ") {
                        obs.push((k.to_string(), v.strip_suffix(';').unwrap_or(v).to_string()));
                    }
                }
            }
            Ok(obs)
        }
        o => Err(o),
    }
}

fn obs_of(v: &V, mode: Mode, sw: Sw) -> Obs {
    let v = match v {
        A(p, n, _, t) if sw.arglist_sep_comma => A(p.clone(), n.clone(), Sep::Comma, *t),
        other => other.clone(),
    };
    let v = &v;
    let mut o = Obs::new();
    if mode != Mode::Unary {
        o.push(("i".to_string(), insp(v)));
    }
    if mode != Mode::Scalar {
        let s = sep_of(v, sw);
        if let Want::Val(n) = m_length(v, sw) {
            o.push(("n".into(), insp(&n)));
        }
        o.push(("s".into(), sep_name(s).into()));
        o.push(("k".into(), brk_of(v).to_string()));
        if mode == Mode::List {
            o.push(("u".into(), sep_name(if s == Sep::U { Sep::Comma } else { s }).into()));
        }
    }
    o
}

fn matches(got: &Result<Obs, Out>, want: &Want, mode: Mode, sw: Sw) -> bool {
    match (got, want) {
        (Ok(o), Want::Val(v)) | (Ok(o), Want::ValOrError(v)) => *o == obs_of(v, mode, sw),
        (Err(Out::Err(_)), Want::Error) | (Err(Out::Err(_)), Want::ValOrError(_)) => true,
        _ => false,
    }
}

/// The known-defect variants, tried one at a time (and the two arglist
/// variants that can meet in one case together).
fn variants() -> Vec<(&'static str, Sw)> {
    let d = Sw::default();
    vec![
        ("length-null-is-0", Sw { null_len0: true, ..d }),
        ("index-map-ignores-brackets", Sw { map_index_brackets: true, ..d }),
        ("index-arglist-as-scalar", Sw { arglist_index_scalar: true, ..d }),
        ("arglist-spread-separator-lost", Sw { arglist_sep_comma: true, ..d }),
        ("zip-arglist-trailing-comma-null", Sw { arglist_trailing_null: true, ..d }),
        (
            "zip-arglist-trailing-comma-null",
            Sw { arglist_trailing_null: true, arglist_sep_comma: true, ..d },
        ),
        ("bracketed-unit-literal-collapses", Sw { bracketed_unit_collapses: true, ..d }),
    ]
}

/// Compare one real execution with the model.  `model(sw)` evaluates the
/// reference model under the given switches.
fn judge(expr: &str, mode: Mode, model: impl Fn(Sw) -> Want) -> Verdict {
    let got = run_expr(expr, mode);
    if let Err(Out::Panic(p)) = &got {
        let site: String = p.splitn(3, ':').take(2).collect::<Vec<_>>().join(":");
        return Verdict::fail_sig(format!("panic:{site}"), format!("{expr}: panic {p}"));
    }
    let readings = [Sw::default(), Sw { pairs: true, ..Sw::default() }];
    for r in readings {
        if matches(&got, &model(r), mode, r) {
            return match &got {
                Ok(o) => Verdict::pass(o),
                Err(_) => Verdict::pass("error"),
            };
        }
    }
    let want = model(Sw::default());
    let shown = match &got {
        Ok(o) => format!("{o:?}"),
        Err(o) => o.short(),
    };
    let wanted = match &want {
        Want::Val(v) => format!("{:?}", obs_of(v, mode, Sw::default())),
        Want::ValOrError(v) => format!("{:?} or an error", obs_of(v, mode, Sw::default())),
        Want::Error => "an error".to_string(),
    };
    let detail = format!("{expr}: got {shown}, expected {wanted}");
    for (name, sw) in variants() {
        for r in readings {
            let sw = Sw { pairs: r.pairs, ..sw };
            if matches(&got, &model(sw), mode, sw) {
                return Verdict::fail_sig(name, detail);
            }
        }
    }
    Verdict::fail(detail)
}

// ---------------------------------------------------------------------------
// alphabets
// ---------------------------------------------------------------------------

/// Element alphabet, most important first.
fn elements(m: usize) -> Vec<V> {
    let all = vec![
        id("a"),
        px(1),
        sp(vec![id("b"), id("c")]),
        cm(vec![id("d"), id("e")]),
        Null,
        L(vec![id("f")], Sep::U, true),
        S("q".into(), true),
        L(vec![], Sep::U, false),
        M(vec![(id("k"), id("v"))]),
        sl(vec![id("g"), id("h")]),
    ];
    all.into_iter().take(m).collect()
}

/// Every list of length 0..=max_len over `els` in every separator/bracket
/// form, every singleton form, and the elements themselves as singleton values.
fn lists_over(els: &[V], max_len: usize) -> Vec<V> {
    let mut out = vec![
        L(vec![], Sep::U, false),
        L(vec![], Sep::U, true),
        L(vec![], Sep::Comma, false),
    ];
    out.extend(els.iter().cloned());
    for e in els {
        for (sep, brk) in [
            (Sep::Comma, false),
            (Sep::U, true),
            (Sep::Comma, true),
            (Sep::Slash, false),
            (Sep::Slash, true),
            (Sep::Space, false),
        ] {
            out.push(L(vec![e.clone()], sep, brk));
        }
    }
    for len in 2..=max_len {
        for ix in vp::gen::seqs(els.len(), len) {
            let items: Vec<V> = ix.iter().map(|i| els[*i].clone()).collect();
            for sep in [Sep::Space, Sep::Comma, Sep::Slash] {
                for brk in [false, true] {
                    out.push(L(items.clone(), sep, brk));
                }
            }
        }
    }
    dedup(out)
}

fn dedup(v: Vec<V>) -> Vec<V> {
    let mut seen = HashSet::new();
    v.into_iter().filter(|x| seen.insert(x.clone())).collect()
}

fn maps() -> Vec<V> {
    vec![
        M(vec![]),
        M(vec![(id("k"), id("v"))]),
        M(vec![(id("k"), id("v")), (num(1), sp(vec![id("x"), id("y")]))]),
        M(vec![(id("k"), id("v")), (id("j"), px(2)), (num(2), Null)]),
    ]
}

fn arglists() -> Vec<V> {
    let kw = |k: &str, v: V| (k.to_string(), v);
    vec![
        A(vec![], vec![], Sep::Comma, false),
        A(vec![id("a")], vec![], Sep::Comma, false),
        A(vec![id("a"), px(1)], vec![], Sep::Comma, false),
        A(
            vec![id("a"), sp(vec![id("b"), id("c")]), L(vec![id("f")], Sep::U, true)],
            vec![],
            Sep::Comma,
            false,
        ),
        A(vec![id("a")], vec![kw("x", id("z"))], Sep::Comma, false),
        A(vec![], vec![kw("x", id("z")), kw("y", num(1))], Sep::Comma, false),
        A(vec![id("a"), id("b")], vec![], Sep::Comma, true),
        A(vec![id("a"), id("b")], vec![], Sep::Space, false),
    ]
}

/// The lists of the unary / indexed sections.
fn list_space(m: usize, max_len: usize) -> Vec<V> {
    let mut v = lists_over(&elements(m), max_len);
    // the statement's bound of 6 elements: one list of 5 and one of 6 distinct
    // elements in every separator/bracket form
    let long = elements(6);
    for len in [5, 6] {
        for sep in [Sep::Space, Sep::Comma, Sep::Slash] {
            for brk in [false, true] {
                v.push(L(long[..len].to_vec(), sep, brk));
            }
        }
    }
    v.extend(maps());
    v.extend(arglists());
    dedup(v)
}

fn indices(len: usize) -> Vec<String> {
    let n = len as i64 + 1;
    let mut v: Vec<String> = (-n..=n).map(|i| i.to_string()).collect();
    v.extend(["1.0", "1.5", "-0", "1px"].iter().map(|s| s.to_string()));
    v
}

/// Hand-picked representative lists for the pair section of the quick tier.
fn join_lists_quick() -> Vec<V> {
    let a = id("a");
    let mut v = vec![
        a.clone(),
        Null,
        L(vec![], Sep::U, false),
        L(vec![], Sep::U, true),
        L(vec![], Sep::Comma, false),
        L(vec![a.clone()], Sep::Comma, false),
        L(vec![a.clone()], Sep::U, true),
        L(vec![a.clone()], Sep::Comma, true),
        L(vec![a.clone()], Sep::Slash, false),
        L(vec![a.clone()], Sep::Space, false),
        sp(vec![cm(vec![id("d"), id("e")]), sp(vec![id("b"), id("c")])]),
        cm(vec![a.clone(), px(1), Null]),
    ];
    for sep in [Sep::Space, Sep::Comma, Sep::Slash] {
        for brk in [false, true] {
            v.push(L(vec![a.clone(), px(1)], sep, brk));
        }
    }
    v.extend(maps().into_iter().take(2));
    let args = arglists();
    v.extend([args[0].clone(), args[2].clone(), args[4].clone(), args[7].clone()]);
    dedup(v)
}

/// (separator argument, bracketed argument) forms of join.
fn join_args() -> Vec<(Option<String>, Option<String>)> {
    let s = |x: &str| Some(x.to_string());
    let mut v = Vec::new();
    for sep in [None, s("auto"), s("space"), s("comma"), s("slash")] {
        for brk in [None, s("auto"), s("true"), s("false")] {
            v.push((sep.clone(), brk));
        }
    }
    v.push((s("\"comma\""), None));
    v.push((s("bogus"), None));
    v.push((None, s("null")));
    v.push((None, s("\"auto\"")));
    v.push((s("comma"), s("0")));
    v
}

fn append_seps() -> Vec<Option<String>> {
    let s = |x: &str| Some(x.to_string());
    vec![None, s("auto"), s("space"), s("comma"), s("slash"), s("\"comma\""), s("bogus")]
}

fn append_values() -> Vec<V> {
    vec![
        id("z"),
        Null,
        sp(vec![id("y"), id("x")]),
        cm(vec![id("y"), id("x")]),
        L(vec![id("w")], Sep::U, true),
        L(vec![], Sep::U, false),
    ]
}

/// Elements for the index section: `==`-classes with near misses.
fn index_elements(m: usize) -> Vec<V> {
    let bc = || vec![id("b"), id("c")];
    let all = vec![
        id("a"),
        S("a".into(), true),
        num(1),
        px(1),
        sp(bc()),
        L(bc(), Sep::Space, true),
        cm(bc()),
        Null,
        L(vec![], Sep::U, false),
        sp(vec![id("k"), id("v")]),
        M(vec![(id("k"), id("v"))]),
        L(vec![id("b")], Sep::Comma, false),
        id("b"),
        sl(bc()),
        L(vec![], Sep::U, true),
        B(false),
        M(vec![]),
    ];
    all.into_iter().take(m).collect()
}

// ---------------------------------------------------------------------------
// cases
// ---------------------------------------------------------------------------

#[derive(Clone, Debug, Hash, Serialize, Deserialize)]
struct UnaryCase {
    list: V,
}

#[derive(Clone, Debug, Hash, Serialize, Deserialize)]
struct NthCase {
    list: V,
    n: String,
}

#[derive(Clone, Debug, Hash, Serialize, Deserialize)]
struct SetNthCase {
    list: V,
    n: String,
    value: V,
}

#[derive(Clone, Debug, Hash, Serialize, Deserialize)]
struct AppendCase {
    list: V,
    value: V,
    sep: Option<String>,
}

#[derive(Clone, Debug, Hash, Serialize, Deserialize)]
struct JoinCase {
    a: V,
    b: V,
    sep: Option<String>,
    brk: Option<String>,
}

#[derive(Clone, Debug, Hash, Serialize, Deserialize)]
struct IndexCase {
    list: V,
    value: V,
}

#[derive(Clone, Debug, Hash, Serialize, Deserialize)]
struct ZipCase {
    lists: Vec<V>,
}

#[derive(Clone, Debug, Hash, PartialEq, Eq, Serialize, Deserialize)]
enum Op {
    Append(V, Option<String>),
    /// join(state, other, sep, brk)
    JoinR(V, Option<String>, Option<String>),
    /// join(other, state, sep, brk)
    JoinL(V, Option<String>, Option<String>),
    SetNth(String, V),
}

#[derive(Clone, Debug, Hash, Serialize, Deserialize)]
struct SeqCase {
    start: V,
    ops: Vec<Op>,
}

fn join_src(a: &str, b: &str, sep: &Option<String>, brk: &Option<String>) -> String {
    let mut s = format!("list.join({a}, {b}");
    if let Some(x) = sep {
        s.push_str(&format!(", $separator: {x}"));
    }
    if let Some(x) = brk {
        s.push_str(&format!(", $bracketed: {x}"));
    }
    s.push(')');
    s
}

fn append_src(l: &str, v: &str, sep: &Option<String>) -> String {
    match sep {
        Some(x) => format!("list.append({l}, {v}, {x})"),
        None => format!("list.append({l}, {v})"),
    }
}

fn seq_ops(quick: bool) -> Vec<Op> {
    let s = |x: &str| Some(x.to_string());
    let yx = sp(vec![id("y"), id("x")]);
    let pq = cm(vec![id("p"), id("q")]);
    let r = L(vec![id("r")], Sep::U, true);
    let e = L(vec![], Sep::U, false);
    let mut ops = vec![
        Op::Append(id("z"), None),
        Op::Append(yx.clone(), s("comma")),
        Op::Append(id("z"), s("slash")),
        Op::JoinR(pq.clone(), None, None),
        Op::JoinL(pq.clone(), None, None),
        Op::JoinR(e.clone(), None, s("true")),
        Op::JoinL(r.clone(), None, None),
        Op::SetNth("1".into(), pq.clone()),
        Op::SetNth("-1".into(), id("w")),
        Op::SetNth("2".into(), Null),
    ];
    if !quick {
        ops.extend([
            Op::Append(yx.clone(), None),
            Op::Append(pq.clone(), s("space")),
            Op::JoinR(id("t"), s("space"), None),
            Op::JoinL(e.clone(), None, None),
            Op::JoinR(yx.clone(), None, None),
            Op::JoinL(yx, None, s("false")),
            Op::JoinR(r, s("auto"), s("auto")),
            Op::Append(Null, s("auto")),
            Op::JoinR(e.clone(), s("comma"), None),
            Op::JoinR(e, s("slash"), s("false")),
            Op::JoinL(id("t"), None, s("true")),
            Op::JoinR(M(vec![(id("k"), id("v"))]), None, None),
            Op::SetNth("-2".into(), L(vec![], Sep::U, false)),
        ]);
    }
    ops
}

fn seq_starts(quick: bool) -> Vec<V> {
    let a = id("a");
    let mut v = vec![
        L(vec![], Sep::U, false),
        L(vec![], Sep::U, true),
        a.clone(),
        L(vec![a.clone()], Sep::Comma, false),
        sp(vec![a.clone(), px(1)]),
        L(vec![a.clone(), px(1)], Sep::Comma, true),
        sl(vec![a.clone(), px(1)]),
        M(vec![(id("k"), id("v"))]),
        A(vec![id("a"), px(1)], vec![], Sep::Comma, false),
        M(vec![]),
    ];
    if !quick {
        v.extend([
            L(vec![], Sep::Comma, false),
            Null,
            L(vec![a.clone()], Sep::U, true),
            L(vec![a.clone()], Sep::Slash, false),
            A(vec![], vec![], Sep::Comma, false),
            A(vec![id("a"), id("b")], vec![], Sep::Space, false),
        ]);
    }
    v
}

fn seq_expr(c: &SeqCase) -> String {
    let mut e = src(&c.start);
    for op in &c.ops {
        e = match op {
            Op::Append(v, sep) => append_src(&e, &src(v), sep),
            Op::JoinR(o, sep, brk) => join_src(&e, &src(o), sep, brk),
            Op::JoinL(o, sep, brk) => join_src(&src(o), &e, sep, brk),
            Op::SetNth(n, v) => format!("list.set-nth({e}, {n}, {})", src(v)),
        };
    }
    e
}

fn seq_model(c: &SeqCase, sw: Sw) -> Want {
    let mut state = pre(&c.start, sw);
    for op in &c.ops {
        let w = match op {
            Op::Append(v, sep) => m_append(&state, &pre(v, sw), sep, sw),
            Op::JoinR(o, sep, brk) => m_join(&state, &pre(o, sw), sep, brk, sw),
            Op::JoinL(o, sep, brk) => m_join(&pre(o, sw), &state, sep, brk, sw),
            Op::SetNth(n, v) => m_set_nth(&state, n, &pre(v, sw), sw),
        };
        match w {
            Want::Val(v) => state = v,
            other => return other,
        }
    }
    Want::Val(state)
}

fn main() {
    let ck = Check::from_args("C28");
    let quick = ck.quick();
    ck.rule("lists = all element tuples of length <= L over the element alphabet x {space,comma,slash} x {plain,bracketed}, all singleton forms, (), [], empty comma list, maps, argument lists; each function on every list, every index in -(n+1)..=n+1 plus 1.0/1.5/-0/1px, every $separator/$bracketed form; all pairs for join, all tuples <= 3 for zip; operation sequences <= 3 of append/join/set-nth; distinct = distinct call expression; outcome = inspect text (+ length, separator, is-bracketed, real separator for list results) or error");
    ck.assume("the reference list model in c28.rs (dart-sass semantics of sass:list and of inspect for the alphabet's values)");
    ck.assume("an index with a unit (1px) may be accepted or rejected; an argument list with keywords may act as its positional values or as those followed by (keyword value) pairs");

    let (m, max_len) = ck.tier.pick((6, 3), (10, 4));
    let space = list_space(m, max_len);

    // ---- length / separator / is-bracketed
    let unary: Vec<UnaryCase> = space.iter().map(|l| UnaryCase { list: l.clone() }).collect();
    ck.run(
        "length-separator-bracketed",
        &format!("every list of <= {max_len} elements over {m} element kinds, maps, arglists ; length, separator, is-bracketed of each"),
        unary.into_iter(),
        |c: &UnaryCase| {
            judge(&src(&c.list), Mode::Unary, |sw| Want::Val(pre(&c.list, sw)))
        },
    );

    // ---- nth
    let (m1, len1) = ck.tier.pick((6, 3), (8, 4));
    let space1 = list_space(m1, len1);
    let mut nth = Vec::new();
    for l in &space1 {
        let n = as_list(l, Sw { pairs: true, ..Sw::default() }).len();
        for i in indices(n) {
            nth.push(NthCase { list: l.clone(), n: i });
        }
    }
    ck.run(
        "nth",
        &format!("lists of <= {len1} elements over {m1} kinds x every index in -(n+1)..=n+1, 1.0, 1.5, -0, 1px"),
        nth.into_iter(),
        |c: &NthCase| {
            let expr = format!("list.nth({}, {})", src(&c.list), c.n);
            judge(&expr, Mode::Scalar, |sw| m_nth(&pre(&c.list, sw), &c.n, sw))
        },
    );

    // ---- set-nth
    let (m2, len2) = ck.tier.pick((4, 3), (6, 4));
    let space2 = list_space(m2, len2);
    let mut setnth = Vec::new();
    for l in &space2 {
        let n = as_list(l, Sw { pairs: true, ..Sw::default() }).len();
        for i in indices(n) {
            for v in [id("z"), cm(vec![id("y"), id("x")])] {
                setnth.push(SetNthCase { list: l.clone(), n: i.clone(), value: v });
            }
        }
    }
    ck.run(
        "set-nth",
        &format!("lists of <= {len2} elements over {m2} kinds x every index x 2 replacement values"),
        setnth.into_iter(),
        |c: &SetNthCase| {
            let expr = format!("list.set-nth({}, {}, {})", src(&c.list), c.n, src(&c.value));
            judge(&expr, Mode::List, |sw| m_set_nth(&pre(&c.list, sw), &c.n, &pre(&c.value, sw), sw))
        },
    );

    // ---- append
    let (m3, len3) = ck.tier.pick((6, 2), (8, 3));
    let space3 = list_space(m3, len3);
    let mut append = Vec::new();
    for l in &space3 {
        for v in append_values() {
            for s in append_seps() {
                append.push(AppendCase { list: l.clone(), value: v.clone(), sep: s });
            }
        }
    }
    ck.run(
        "append",
        &format!("lists of <= {len3} elements over {m3} kinds x 6 values x 7 $separator forms"),
        append.into_iter(),
        |c: &AppendCase| {
            let expr = append_src(&src(&c.list), &src(&c.value), &c.sep);
            judge(&expr, Mode::List, |sw| m_append(&pre(&c.list, sw), &pre(&c.value, sw), &c.sep, sw))
        },
    );

    // ---- join
    let jl = if quick { join_lists_quick() } else { list_space(3, 2) };
    let mut join = Vec::new();
    for a in &jl {
        for b in &jl {
            for (s, k) in join_args() {
                join.push(JoinCase { a: a.clone(), b: b.clone(), sep: s, brk: k });
            }
        }
    }
    ck.run(
        "join",
        &format!("all pairs of {} lists x 25 ($separator, $bracketed) forms", jl.len()),
        join.into_iter(),
        |c: &JoinCase| {
            let expr = join_src(&src(&c.a), &src(&c.b), &c.sep, &c.brk);
            judge(&expr, Mode::List, |sw| m_join(&pre(&c.a, sw), &pre(&c.b, sw), &c.sep, &c.brk, sw))
        },
    );

    // ---- index
    let (mi, leni) = ck.tier.pick((12, 2), (13, 3));
    let iel = index_elements(mi);
    let mut ilists = lists_over(&iel, leni);
    ilists.extend(maps());
    ilists.extend(arglists());
    let ilists = dedup(ilists);
    let mut ivalues = index_elements(17);
    ivalues.push(L(vec![id("k"), id("v")], Sep::Space, true));
    ivalues.push(sp(vec![id("x"), id("z")]));
    ivalues.push(sp(vec![num(1), sp(vec![id("x"), id("y")])]));
    let mut index = Vec::new();
    for l in &ilists {
        for v in &ivalues {
            index.push(IndexCase { list: l.clone(), value: v.clone() });
        }
    }
    ck.run(
        "index",
        &format!("lists of <= {leni} elements over {mi} ==-near element kinds, maps, arglists x {} values", ivalues.len()),
        index.into_iter(),
        |c: &IndexCase| {
            let expr = format!("list.index({}, {})", src(&c.list), src(&c.value));
            judge(&expr, Mode::Scalar, |sw| m_index(&pre(&c.list, sw), &pre(&c.value, sw), sw))
        },
    );

    // ---- zip
    let a = id("a");
    let mut zl = vec![
        a.clone(),
        Null,
        L(vec![], Sep::U, false),
        L(vec![a.clone()], Sep::Comma, false),
        sp(vec![a.clone(), px(1)]),
        cm(vec![id("b"), sp(vec![id("c"), id("d")]), Null]),
        L(vec![id("e"), id("f")], Sep::Slash, true),
        M(vec![(id("k"), id("v")), (num(1), px(2))]),
        A(vec![id("g"), id("h")], vec![], Sep::Comma, false),
        A(vec![id("g")], vec![("x".to_string(), id("z"))], Sep::Comma, false),
        A(vec![id("g"), id("h")], vec![], Sep::Comma, true),
        sp(vec![id("m"), id("n"), id("o"), id("p")]),
    ];
    if !quick {
        zl.extend([
            L(vec![], Sep::U, true),
            M(vec![]),
            L(vec![a.clone()], Sep::U, true),
            cm(vec![cm(vec![id("b"), id("c")]), sl(vec![id("d"), id("e")])]),
            L(vec![a.clone(), a.clone(), a.clone()], Sep::Comma, true),
            A(vec![], vec![], Sep::Comma, false),
            A(vec![id("g"), id("h")], vec![], Sep::Space, false),
            S("q".into(), true),
            M(vec![(id("k"), id("v"))]),
            sl(vec![id("r"), id("s"), id("t")]),
        ]);
    }
    let mut zip = vec![ZipCase { lists: vec![] }];
    for len in 1..=3 {
        for ix in vp::gen::seqs(zl.len(), len) {
            zip.push(ZipCase { lists: ix.iter().map(|i| zl[*i].clone()).collect() });
        }
    }
    ck.run(
        "zip",
        &format!("all tuples of 0..=3 of {} lists", zl.len()),
        zip.into_iter(),
        |c: &ZipCase| {
            let parts: Vec<String> = c.lists.iter().map(src).collect();
            let expr = format!("list.zip({})", parts.join(", "));
            judge(&expr, Mode::List, |sw| {
                let lists: Vec<V> = c.lists.iter().map(|l| pre(l, sw)).collect();
                m_zip(&lists, sw)
            })
        },
    );

    // ---- operation sequences (explicit-state search; state = history)
    let ops = seq_ops(quick);
    let starts = seq_starts(quick);
    let mut seqs = Vec::new();
    let mut states: HashSet<V> = HashSet::new();
    let mut transitions = 0u64;
    for depth in 0..=3 {
        for st in &starts {
            for ix in vp::gen::seqs(ops.len(), depth) {
                let c = SeqCase { start: st.clone(), ops: ix.iter().map(|i| ops[*i].clone()).collect() };
                transitions += 1;
                if let Want::Val(v) = seq_model(&c, Sw::default()) {
                    states.insert(v);
                }
                seqs.push(c);
            }
        }
    }
    ck.note(
        "sequences",
        serde_json::json!({"starts": starts.len(), "operations": ops.len(), "max_depth": 3,
            "histories": transitions, "distinct_model_states": states.len()}),
    );
    ck.run(
        "sequences",
        &format!("{} start lists x every sequence of <= 3 of {} operations", starts.len(), ops.len()),
        seqs.into_iter(),
        |c: &SeqCase| judge(&seq_expr(c), Mode::List, |sw| seq_model(c, sw)),
    );

    ck.finish()
}
