//! C17 Control-flow directives run the specified iterations.
//!
//! Space: generated programs around one control-flow directive (and fixed
//! two-level nests), each rendered in five contexts that reach the two
//! interpreters of rsass: `output/transform.rs` (declarations in a rule, in a
//! mixin body, in a content block, rules at the stylesheet root) and
//! `ScopeRef::eval_body` (function body, observed through a global log string).
//!   * if-chain: 1..4 branches over a condition alphabet (truthy/falsey/erroring),
//!     with/without `@else`, plain or wrapped in a counting function;
//!   * for-range: all (a,b) in [-6,6]^2 x {through,to} x 15 unit situations;
//!   * for-bound-spelling: 11 spellings of each bound (literal, variable,
//!     parenthesised, bare arithmetic, unary minus, call, ...);
//!   * each-list / each-map / each-arglist: lists over a 12-element alphabet
//!     (scalars, nested lists, maps, null, empty, bracketed) x 6 list forms x
//!     1..4 variables; maps of <= 6 entries; argument lists with keywords and
//!     a trailing comma;
//!   * while: 6 loop shapes x n in 0..=6 x step, plain or counted;
//!   * nested: 10 fixed two-level templates x parameters.
//! Oracle (R-flow): the emitted (name, value) sequence computed by plain Rust
//! loops over a small value model with its own `inspect` printer; compared as
//! the complete CSS text.
//! Outcome: the compiled CSS (or error presence).

use serde::{Deserialize, Serialize};
use vp::report::{Check, Verdict};
use vp::rs::{self, Fmt, Out};

// ---------------------------------------------------------------- contexts

#[derive(Clone, Copy, Debug, Hash, PartialEq, Eq, Serialize, Deserialize)]
enum Ctx {
    /// declarations directly in `a { .. }`
    Rule,
    /// body of a mixin included in `a`
    Mixin,
    /// content block passed to a mixin that does `@content`
    Content,
    /// function body (`ScopeRef::eval_body`), observed through a global log
    Func,
    /// stylesheet root; every emission is a rule `e { .. }`
    Root,
}

const ALL_CTX: [Ctx; 5] = [Ctx::Rule, Ctx::Mixin, Ctx::Content, Ctx::Func, Ctx::Root];

/// One emission of `tag` with the inspected value of `expr`.
fn emit(ctx: Ctx, tag: &str, expr: &str) -> String {
    match ctx {
        Ctx::Func => format!("$log: \"#{{$log}}{tag}=#{{inspect({expr})}};\" !global; "),
        Ctx::Root => format!("e {{ {tag}: inspect({expr}) }} "),
        _ => format!("{tag}: inspect({expr}); "),
    }
}

fn wrap(ctx: Ctx, pre: &str, body: &str) -> String {
    match ctx {
        Ctx::Rule => format!("{pre}\na {{ {body} }}\n"),
        Ctx::Mixin => format!("{pre}\n@mixin m {{ {body} }}\na {{ @include m; }}\n"),
        Ctx::Content => {
            format!("{pre}\n@mixin m {{ @content; }}\na {{ @include m {{ {body} }} }}\n")
        }
        Ctx::Func => format!(
            "$log: \"\";\n{pre}\n@function f() {{ {body} @return 0; }}\na {{ r: f(); log: $log; }}\n"
        ),
        Ctx::Root => format!("{pre}\n{body}\n"),
    }
}

type Events = Vec<(String, String)>;

/// The CSS text a correct implementation prints for the event sequence.
fn render(ctx: Ctx, ev: &Events) -> String {
    match ctx {
        Ctx::Rule | Ctx::Mixin | Ctx::Content => {
            if ev.is_empty() {
                return String::new();
            }
            let mut s = String::from("a {\n");
            for (k, v) in ev {
                s.push_str(&format!("  {k}: {v};\n"));
            }
            s.push_str("}\n");
            s
        }
        Ctx::Func => {
            let mut log = String::new();
            for (k, v) in ev {
                log.push_str(&format!("{k}={v};"));
            }
            format!("a {{\n  r: 0;\n  log: \"{log}\";\n}}\n")
        }
        Ctx::Root => ev
            .iter()
            .map(|(k, v)| format!("e {{\n  {k}: {v};\n}}\n"))
            .collect::<Vec<_>>()
            .join("\n"),
    }
}

#[derive(Clone, Debug)]
enum Want {
    Ev(Events),
    /// any error
    Err,
    /// an error whose first line is exactly this text (defect variants only)
    ErrHead(&'static str),
}

fn matches(ctx: Ctx, out: &Out, want: &Want) -> bool {
    match (out, want) {
        (Out::Css(css), Want::Ev(ev)) => *css == render(ctx, ev),
        (Out::Err(_), Want::Err) => true,
        (Out::Err(_), Want::ErrHead(h)) => out.err_head() == Some(h),
        _ => false,
    }
}

fn show(ctx: Ctx, want: &Want) -> String {
    match want {
        Want::Ev(ev) => format!("{:?}", render(ctx, ev)),
        Want::Err => "an error".into(),
        Want::ErrHead(h) => format!("error {h:?}"),
    }
}

/// Compare the real compilation of `src` with the oracle; `variants` are
/// known-defect models (signature, prediction).
fn judge(ctx: Ctx, src: &str, want: &Want, variants: &[(String, Want)]) -> Verdict {
    let out = rs::compile_str(src, Fmt::EXPANDED);
    if matches(ctx, &out, want) {
        return Verdict::pass(&out);
    }
    if let Out::Panic(p) = &out {
        let site = p.split(": ").next().unwrap_or("?");
        let site = site.rsplitn(2, ':').last().unwrap_or(site);
        return Verdict::fail_sig(format!("panic:{site}"), format!("panic {p}\nsource:\n{src}"));
    }
    let detail = format!(
        "got {} expected {}\nsource:\n{src}",
        out.short(),
        show(ctx, want)
    );
    for (sig, v) in variants {
        if matches(ctx, &out, v) {
            return Verdict::fail_sig(sig.clone(), detail);
        }
    }
    Verdict::fail(detail)
}

fn ev(k: &str, v: impl ToString) -> (String, String) {
    (k.to_string(), v.to_string())
}

// ---------------------------------------------------------------- value model

#[derive(Clone, Copy, Debug, PartialEq, Eq)]
enum Sep {
    Comma,
    Space,
}

#[derive(Clone, Debug, PartialEq)]
enum V {
    Num(i64, &'static str),
    Id(&'static str),
    Null,
    /// elements, separator, bracketed
    List(Vec<V>, Sep, bool),
    Map(Vec<(V, V)>),
}

fn n(i: i64) -> V {
    V::Num(i, "")
}
fn id(s: &'static str) -> V {
    V::Id(s)
}
fn sp(v: Vec<V>) -> V {
    V::List(v, Sep::Space, false)
}
fn cm(v: Vec<V>) -> V {
    V::List(v, Sep::Comma, false)
}

impl V {
    /// Sass source text (nested lists always parenthesised).
    fn src(&self) -> String {
        match self {
            V::Num(i, u) => format!("{i}{u}"),
            V::Id(s) => s.to_string(),
            V::Null => "null".into(),
            V::List(items, sep, br) => {
                let (o, c) = if *br { ("[", "]") } else { ("(", ")") };
                let j = if *sep == Sep::Comma { ", " } else { " " };
                let inner = items.iter().map(V::src).collect::<Vec<_>>().join(j);
                if items.len() == 1 && *sep == Sep::Comma {
                    format!("{o}{inner},{c}")
                } else {
                    format!("{o}{inner}{c}")
                }
            }
            V::Map(kv) => format!(
                "({})",
                kv.iter()
                    .map(|(k, v)| format!("{}: {}", k.src(), v.src()))
                    .collect::<Vec<_>>()
                    .join(", ")
            ),
        }
    }

    /// Source without the outer parentheses (`1, 2` / `1 2`), for lists of >= 2 items.
    fn src_bare(&self) -> String {
        match self {
            V::List(items, sep, false) if items.len() >= 2 => {
                let j = if *sep == Sep::Comma { ", " } else { " " };
                items.iter().map(V::src).collect::<Vec<_>>().join(j)
            }
            v => v.src(),
        }
    }

    /// `meta.inspect` as specified by the Sass reference.
    fn inspect(&self) -> String {
        match self {
            V::Num(i, u) => format!("{i}{u}"),
            V::Id(s) => s.to_string(),
            V::Null => "null".into(),
            V::List(items, sep, br) => {
                let (o, c) = if *br { ("[", "]") } else { ("", "") };
                if items.is_empty() {
                    return if *br { "[]".into() } else { "()".into() };
                }
                if items.len() == 1 && *sep == Sep::Comma {
                    let e = &items[0];
                    let t = if needs_parens(Sep::Comma, e) {
                        format!("({})", e.inspect())
                    } else {
                        e.inspect()
                    };
                    return if *br {
                        format!("[{t},]")
                    } else {
                        format!("({t},)")
                    };
                }
                let j = if *sep == Sep::Comma { ", " } else { " " };
                let inner = items
                    .iter()
                    .map(|e| {
                        if needs_parens(*sep, e) {
                            format!("({})", e.inspect())
                        } else {
                            e.inspect()
                        }
                    })
                    .collect::<Vec<_>>()
                    .join(j);
                format!("{o}{inner}{c}")
            }
            V::Map(kv) => format!(
                "({})",
                kv.iter()
                    .map(|(k, v)| format!("{}: {}", map_elem(k), map_elem(v)))
                    .collect::<Vec<_>>()
                    .join(", ")
            ),
        }
    }

    /// The value seen as a list (`@each` iteration, destructuring).
    fn as_list(&self) -> Vec<V> {
        match self {
            V::List(items, ..) => items.clone(),
            V::Map(kv) => kv
                .iter()
                .map(|(k, v)| sp(vec![k.clone(), v.clone()]))
                .collect(),
            v => vec![v.clone()],
        }
    }
}

fn needs_parens(outer: Sep, e: &V) -> bool {
    match e {
        V::List(items, sep, false) if items.len() >= 2 => match outer {
            Sep::Comma => *sep == Sep::Comma,
            Sep::Space => true,
        },
        _ => false,
    }
}

fn map_elem(v: &V) -> String {
    match v {
        V::List(items, Sep::Comma, false) if items.len() >= 2 => format!("({})", v.inspect()),
        _ => v.inspect(),
    }
}

/// Events of `@each $v0..$v{nvars-1} in <iter> { emit each var }`.
fn each_events(iter: &[V], nvars: usize, out: &mut Events) {
    for el in iter {
        if nvars == 1 {
            out.push(ev("v0", el.inspect()));
        } else {
            let items = el.as_list();
            for j in 0..nvars {
                let v = items.get(j).cloned().unwrap_or(V::Null);
                out.push(ev(&format!("v{j}"), v.inspect()));
            }
        }
    }
}

fn each_src(ctx: Ctx, nvars: usize, iter_src: &str) -> String {
    let vars = (0..nvars).map(|j| format!("$v{j}")).collect::<Vec<_>>().join(", ");
    let mut body = String::new();
    for j in 0..nvars {
        body.push_str(&emit(ctx, &format!("v{j}"), &format!("$v{j}")));
    }
    format!("@each {vars} in {iter_src} {{ {body}}} {}", emit(ctx, "z", "9"))
}

/// Element alphabet for lists: one per shape `iter_items`/`define_multi` distinguish.
fn elements() -> Vec<V> {
    vec![
        n(1),
        id("x"),
        sp(vec![n(1), n(2)]),
        cm(vec![id("p"), id("q")]),
        V::Null,
        V::Map(vec![(id("k"), id("v"))]),
        sp(vec![n(1), n(2), n(3)]),
        V::List(vec![], Sep::Space, false),
        V::List(vec![n(5), n(6)], Sep::Space, true),
        V::Map(vec![(id("k"), id("v")), (id("l"), sp(vec![n(7), n(8)]))]),
        cm(vec![n(9)]),
        sp(vec![sp(vec![n(1), n(2)]), n(3)]),
    ]
}

/// Value alphabet for map entries.
fn map_values() -> Vec<V> {
    vec![
        n(1),
        id("x"),
        sp(vec![n(1), n(2)]),
        cm(vec![id("p"), id("q")]),
        V::Null,
        V::Map(vec![(id("i"), id("j"))]),
        V::List(vec![], Sep::Space, false),
    ]
}

// ---------------------------------------------------------------- cases

#[derive(Clone, Debug, Hash, Serialize, Deserialize)]
struct IfCase {
    conds: Vec<u8>,
    has_else: bool,
    ticked: bool,
    ctx: Ctx,
}

/// (source, Some(truthy) | None = evaluating it is an error)
const CONDS: [(&str, Option<bool>); 8] = [
    ("true", Some(true)),
    ("false", Some(false)),
    ("null", Some(false)),
    ("0", Some(true)),
    ("$u", None),
    ("\"\"", Some(true)),
    ("()", Some(true)),
    ("1 > 2", Some(false)),
];

const TICK: &str = "$n: 0;\n@function t($v) { $n: $n + 1 !global; @return $v; }";

fn check_if(c: &IfCase) -> Verdict {
    let cond = |i: u8| -> String {
        let s = CONDS[i as usize].0;
        if c.ticked {
            format!("t({s})")
        } else {
            s.to_string()
        }
    };
    let mut body = String::new();
    for (k, ci) in c.conds.iter().enumerate() {
        if k == 0 {
            body.push_str(&format!("@if {} {{ {}}} ", cond(*ci), emit(c.ctx, "b", &k.to_string())));
        } else {
            body.push_str(&format!(
                "@else if {} {{ {}}} ",
                cond(*ci),
                emit(c.ctx, "b", &k.to_string())
            ));
        }
    }
    if c.has_else {
        body.push_str(&format!("@else {{ {}}} ", emit(c.ctx, "b", "99")));
    }
    body.push_str(&emit(c.ctx, "z", "9"));
    if c.ticked {
        body.push_str(&emit(c.ctx, "n", "$n"));
    }
    let src = wrap(c.ctx, if c.ticked { TICK } else { "" }, &body);
    // model
    let mut evs: Events = Vec::new();
    let mut evaluated = 0;
    let mut taken = false;
    let mut want = None;
    for (k, ci) in c.conds.iter().enumerate() {
        evaluated += 1;
        match CONDS[*ci as usize].1 {
            None => {
                want = Some(Want::Err);
                break;
            }
            Some(true) => {
                evs.push(ev("b", k));
                taken = true;
                break;
            }
            Some(false) => {}
        }
    }
    let want = want.unwrap_or_else(|| {
        if !taken && c.has_else {
            evs.push(ev("b", 99));
        }
        evs.push(ev("z", 9));
        if c.ticked {
            evs.push(ev("n", evaluated));
        }
        Want::Ev(evs)
    });
    judge(c.ctx, &src, &want, &[])
}

#[derive(Clone, Debug, Hash, Serialize, Deserialize)]
struct ForCase {
    a: i32,
    b: i32,
    incl: bool,
    unit: u8,
    ctx: Ctx,
}

/// What a unit situation does to the bounds.
struct UnitSit {
    /// (from text, to text) for integers a, b
    src: fn(i32, i32) -> (String, String),
    /// unit of `$i`
    unit: &'static str,
    /// the end value in `$i`'s unit, or None = error
    end: fn(i32, i32) -> Option<i64>,
}

fn unit_sits() -> Vec<UnitSit> {
    fn same(_a: i32, b: i32) -> Option<i64> {
        Some(b as i64)
    }
    fn err(_a: i32, _b: i32) -> Option<i64> {
        None
    }
    vec![
        UnitSit { src: |a, b| (format!("{a}"), format!("{b}")), unit: "", end: same },
        UnitSit { src: |a, b| (format!("{a}px"), format!("{b}")), unit: "px", end: same },
        UnitSit { src: |a, b| (format!("{a}"), format!("{b}px")), unit: "", end: same },
        UnitSit { src: |a, b| (format!("{a}px"), format!("{b}px")), unit: "px", end: same },
        UnitSit { src: |a, b| (format!("{a}%"), format!("{b}%")), unit: "%", end: same },
        // compatible units: b written in the other unit so that it converts to b
        UnitSit { src: |a, b| (format!("{a}in"), format!("{}px", b * 96)), unit: "in", end: same },
        UnitSit { src: |a, b| (format!("{a}cm"), format!("{}mm", b * 10)), unit: "cm", end: same },
        // b cm = 10 b mm
        UnitSit {
            src: |a, b| (format!("{a}mm"), format!("{b}cm")),
            unit: "mm",
            end: |_a, b| Some(b as i64 * 10),
        },
        // b pt = 4b/3 px: an integer only when 3 | b
        UnitSit {
            src: |a, b| (format!("{a}px"), format!("{b}pt")),
            unit: "px",
            end: |_a, b| if b % 3 == 0 { Some(b as i64 * 4 / 3) } else { None },
        },
        UnitSit { src: |a, b| (format!("{a}px"), format!("{b}s")), unit: "px", end: err },
        UnitSit { src: |a, b| (format!("{a}s"), format!("{}ms", b * 1000)), unit: "s", end: same },
        UnitSit { src: |a, b| (format!("{a}px"), format!("{b}em")), unit: "px", end: err },
        // integers written as decimals
        UnitSit { src: |a, b| (format!("{a}.0"), format!("{b}.00")), unit: "", end: same },
        // one bound unitless, the other with a unit that is not a length (the
        // unitless bound is taken as it stands; `%`, `fr` and unitless share a
        // dimension, `deg`/`s`/`em` do not)
        UnitSit { src: |a, b| (format!("{a}%"), format!("{b}")), unit: "%", end: same },
        UnitSit { src: |a, b| (format!("{a}"), format!("{b}%")), unit: "", end: same },
        UnitSit { src: |a, b| (format!("{a}fr"), format!("{b}")), unit: "fr", end: same },
        UnitSit { src: |a, b| (format!("{a}"), format!("{b}fr")), unit: "", end: same },
        UnitSit { src: |a, b| (format!("{a}deg"), format!("{b}")), unit: "deg", end: same },
        UnitSit { src: |a, b| (format!("{a}"), format!("{b}s")), unit: "", end: same },
        UnitSit { src: |a, b| (format!("{a}em"), format!("{b}")), unit: "em", end: same },
        // non-integers
        UnitSit { src: |a, b| (format!("{a}.5"), format!("{b}")), unit: "", end: err },
        UnitSit { src: |a, b| (format!("{a}"), format!("{b}.5px")), unit: "", end: err },
    ]
}

fn range(a: i64, b: i64, incl: bool) -> Vec<i64> {
    let mut v = Vec::new();
    if a <= b {
        let mut i = a;
        while i < b || (incl && i == b) {
            v.push(i);
            i += 1;
        }
    } else {
        let mut i = a;
        while i > b || (incl && i == b) {
            v.push(i);
            i -= 1;
        }
    }
    v
}

fn check_for(c: &ForCase, sits: &[UnitSit]) -> Verdict {
    let s = &sits[c.unit as usize];
    let (from, to) = (s.src)(c.a, c.b);
    let kw = if c.incl { "through" } else { "to" };
    let body = format!(
        "@for $i from {from} {kw} {to} {{ {}}} {}",
        emit(c.ctx, "b", "$i"),
        emit(c.ctx, "z", "9")
    );
    let src = wrap(c.ctx, "", &body);
    let want = match (s.end)(c.a, c.b) {
        None => Want::Err,
        Some(end) => {
            let mut evs: Events = range(c.a as i64, end, c.incl)
                .into_iter()
                .map(|i| ev("b", format!("{i}{}", s.unit)))
                .collect();
            evs.push(ev("z", 9));
            Want::Ev(evs)
        }
    };
    judge(c.ctx, &src, &want, &[])
}

#[derive(Clone, Debug, Hash, Serialize, Deserialize)]
struct SpellCase {
    from: u8,
    to: u8,
    incl: bool,
    ctx: Ctx,
}

/// (source, value, is bare arithmetic)
const SPELL: [(&str, i64, bool); 11] = [
    ("2", 2, false),
    ("$n", 3, false),
    ("(1 + 1)", 2, false),
    ("-$n", -3, false),
    ("abs(-2)", 2, false),
    ("length($l)", 3, false),
    ("-(-1)", 1, false),
    ("+1", 1, false),
    ("1 + 1", 2, true),
    ("$n - 1", 2, true),
    ("$n*2", 6, true),
];

fn check_spell(c: &SpellCase) -> Verdict {
    let f = SPELL[c.from as usize];
    let t = SPELL[c.to as usize];
    let kw = if c.incl { "through" } else { "to" };
    let body = format!(
        "@for $i from {} {kw} {} {{ {}}} {}",
        f.0,
        t.0,
        emit(c.ctx, "b", "$i"),
        emit(c.ctx, "z", "9")
    );
    let src = wrap(c.ctx, "$n: 3;\n$l: 7 8 9;", &body);
    let mut evs: Events = range(f.1, t.1, c.incl).into_iter().map(|i| ev("b", i)).collect();
    evs.push(ev("z", 9));
    let mut variants = Vec::new();
    // known defect: a bound must be a single value; binary operators are a parse error
    if f.2 {
        variants.push(("for-bound-arithmetic-parse-error".to_string(), Want::ErrHead("Parse error.")));
    } else if t.2 {
        variants.push((
            "for-bound-arithmetic-parse-error".to_string(),
            Want::ErrHead("expected \"{\"."),
        ));
    }
    judge(c.ctx, &src, &Want::Ev(evs), &variants)
}

#[derive(Clone, Debug, Hash, Serialize, Deserialize)]
struct EachCase {
    elems: Vec<u8>,
    /// 0 `(a, b)`  1 `(a b)`  2 `[a, b]`  3 `[a b]`  4 bare `a, b`  5 bare `a b`
    form: u8,
    nvars: u8,
    via_var: bool,
    ctx: Ctx,
}

/// The iterable value of a list case, None when the form does not apply.
fn each_iterable(elems: &[V], form: u8) -> Option<V> {
    let n = elems.len();
    let v = elems.to_vec();
    match (form, n) {
        (0, _) => Some(V::List(v, Sep::Comma, false)),
        // `(e)` is just e: the scalar (or the list e itself) is iterated
        (1, 1) => Some(v[0].clone()),
        (1, 0) => None,
        (1, _) => Some(V::List(v, Sep::Space, false)),
        (2, _) => Some(V::List(v, Sep::Comma, true)),
        (3, k) if k >= 2 => Some(V::List(v, Sep::Space, true)),
        (4, k) if k >= 2 => Some(V::List(v, Sep::Comma, false)),
        (5, k) if k >= 2 => Some(V::List(v, Sep::Space, false)),
        _ => None,
    }
}

fn check_each(c: &EachCase, alphabet: &[V]) -> Verdict {
    let elems: Vec<V> = c.elems.iter().map(|i| alphabet[*i as usize].clone()).collect();
    let Some(iter) = each_iterable(&elems, c.form) else {
        return Verdict::Trivial;
    };
    let text = if c.form >= 4 { iter.src_bare() } else { iter.src() };
    let (pre, it) = if c.via_var {
        (format!("$l: {text};"), "$l".to_string())
    } else {
        (String::new(), text)
    };
    let src = wrap(c.ctx, &pre, &each_src(c.ctx, c.nvars as usize, &it));
    let mut evs = Vec::new();
    each_events(&iter.as_list(), c.nvars as usize, &mut evs);
    evs.push(ev("z", 9));
    judge(c.ctx, &src, &Want::Ev(evs), &[])
}

#[derive(Clone, Debug, Hash, Serialize, Deserialize)]
struct MapCase {
    vals: Vec<u8>,
    /// 0 identifier keys, 1 number keys, 2 alternating
    keys: u8,
    nvars: u8,
    via_var: bool,
    ctx: Ctx,
}

const KEY_IDS: [&str; 6] = ["k0", "k1", "k2", "k3", "k4", "k5"];

fn check_map(c: &MapCase, alphabet: &[V]) -> Verdict {
    let kv: Vec<(V, V)> = c
        .vals
        .iter()
        .enumerate()
        .map(|(i, v)| {
            let key = match c.keys {
                0 => id(KEY_IDS[i]),
                1 => n(i as i64 + 1),
                _ => {
                    if i % 2 == 0 {
                        id(KEY_IDS[i])
                    } else {
                        V::Num(i as i64, "px")
                    }
                }
            };
            (key, alphabet[*v as usize].clone())
        })
        .collect();
    let iter = V::Map(kv);
    let (pre, it) = if c.via_var {
        (format!("$l: {};", iter.src()), "$l".to_string())
    } else {
        (String::new(), iter.src())
    };
    let src = wrap(c.ctx, &pre, &each_src(c.ctx, c.nvars as usize, &it));
    let mut evs = Vec::new();
    each_events(&iter.as_list(), c.nvars as usize, &mut evs);
    evs.push(ev("z", 9));
    judge(c.ctx, &src, &Want::Ev(evs), &[])
}

#[derive(Clone, Debug, Hash, Serialize, Deserialize)]
struct ArgListCase {
    npos: u8,
    nkw: u8,
    trailing: bool,
    nvars: u8,
    /// loop in a function body instead of a mixin body
    func: bool,
}

fn check_arglist(c: &ArgListCase) -> Verdict {
    let pos = [n(1), sp(vec![n(2), n(3)]), id("x")];
    let kws = [("k0", n(7)), ("k1", id("y"))];
    let mut args: Vec<String> = pos[..c.npos as usize].iter().map(V::src).collect();
    for (k, v) in &kws[..c.nkw as usize] {
        args.push(format!("${k}: {}", v.src()));
    }
    let mut call = args.join(", ");
    if c.trailing {
        call.push(',');
    }
    let ctx = if c.func { Ctx::Func } else { Ctx::Rule };
    let body = each_src(ctx, c.nvars as usize, "$args");
    let src = if c.func {
        format!(
            "$log: \"\";\n@function f($args...) {{ {body} @return 0; }}\na {{ r: f({call}); log: $log; }}\n"
        )
    } else {
        format!("@mixin m($args...) {{ {body} }}\na {{ @include m({call}); }}\n")
    };
    let model = |with_kw: bool, with_null: bool| -> Want {
        let mut it: Vec<V> = pos[..c.npos as usize].to_vec();
        if with_kw {
            for (k, v) in &kws[..c.nkw as usize] {
                it.push(sp(vec![id(k), v.clone()]));
            }
        }
        if with_null {
            it.push(V::Null);
        }
        let mut evs = Vec::new();
        each_events(&it, c.nvars as usize, &mut evs);
        evs.push(ev("z", 9));
        Want::Ev(evs)
    };
    let mut variants = Vec::new();
    // known defects in Value::iter_items for ArgList: keyword arguments are
    // iterated as `name value` pairs; a trailing comma adds a null element
    match (c.nkw > 0, c.trailing) {
        (true, true) => variants.push((
            "each-arglist-keywords-and-trailing-null".to_string(),
            model(true, true),
        )),
        (true, false) => variants.push(("each-arglist-keywords-iterated".to_string(), model(true, false))),
        (false, true) => variants.push((
            "each-arglist-trailing-comma-null".to_string(),
            model(false, true),
        )),
        _ => {}
    }
    judge(ctx, &src, &model(false, false), &variants)
}

#[derive(Clone, Debug, Hash, Serialize, Deserialize)]
struct WhileCase {
    kind: u8,
    n: i32,
    step: i32,
    ticked: bool,
    ctx: Ctx,
}

const WHILE_KINDS: u8 = 6;

fn check_while(c: &WhileCase) -> Verdict {
    let cx = c.ctx;
    let t = |s: &str| if c.ticked { format!("t({s})") } else { s.to_string() };
    let (n, st) = (c.n as i64, c.step as i64);
    let mut evs: Events = Vec::new();
    let mut conds = 0;
    let body = match c.kind {
        // count down while positive
        0 => {
            let mut i = n;
            loop {
                conds += 1;
                if i <= 0 {
                    break;
                }
                evs.push(ev("b", i));
                i -= st;
            }
            format!(
                "$i: {n}; @while {} {{ {}$i: $i - {st}; }} ",
                t("$i > 0"),
                emit(cx, "b", "$i")
            )
        }
        // count up to a bound
        1 => {
            let mut i = 0;
            loop {
                conds += 1;
                if i >= n {
                    break;
                }
                evs.push(ev("b", i));
                i += st;
            }
            format!(
                "$i: 0; @while {} {{ {}$i: $i + {st}; }} ",
                t(&format!("$i < {n}")),
                emit(cx, "b", "$i")
            )
        }
        // truthiness of the variable itself: 0 is truthy, null ends the loop
        2 => {
            let mut i = Some(n);
            loop {
                conds += 1;
                let Some(v) = i else { break };
                evs.push(ev("b", v));
                i = if v > st { Some(v - st) } else { None };
            }
            format!(
                "$i: {n}; @while {} {{ {}@if $i > {st} {{ $i: $i - {st}; }} @else {{ $i: null; }} }} ",
                t("$i"),
                emit(cx, "b", "$i")
            )
        }
        // same, ended by false
        3 => {
            let mut i = Some(n);
            loop {
                conds += 1;
                let Some(v) = i else { break };
                evs.push(ev("b", v));
                i = if v > st { Some(v - st) } else { None };
            }
            format!(
                "$i: {n}; @while {} {{ {}@if $i > {st} {{ $i: $i - {st}; }} @else {{ $i: false; }} }} ",
                t("$i"),
                emit(cx, "b", "$i")
            )
        }
        // two variables, `and`
        4 => {
            let (mut i, mut j) = (n, 0);
            loop {
                conds += 1;
                if !(i > 0 && j < 3) {
                    break;
                }
                evs.push(ev("b", i));
                evs.push(ev("c", j));
                i -= st;
                j += 1;
            }
            format!(
                "$i: {n}; $j: 0; @while {} {{ {}{}$i: $i - {st}; $j: $j + 1; }} ",
                t("$i > 0 and $j < 3"),
                emit(cx, "b", "$i"),
                emit(cx, "c", "$j")
            )
        }
        // early exit from a nested @if / @else if chain
        _ => {
            let mut i = n;
            loop {
                conds += 1;
                if i == 0 {
                    break;
                }
                evs.push(ev("b", i));
                if i == 3 {
                    i = 0;
                } else if i < 0 {
                    i += st;
                    if i > 0 {
                        i = 0;
                    }
                } else {
                    i -= st;
                    if i < 0 {
                        i = 0;
                    }
                }
            }
            format!(
                "$i: {n}; @while {} {{ {}@if $i == 3 {{ $i: 0; }} @else if $i < 0 {{ $i: $i + {st}; @if $i > 0 {{ $i: 0; }} }} @else {{ $i: $i - {st}; @if $i < 0 {{ $i: 0; }} }} }} ",
                t("$i != 0"),
                emit(cx, "b", "$i")
            )
        }
    };
    evs.push(ev("z", 9));
    let mut body = body;
    body.push_str(&emit(cx, "z", "9"));
    if c.ticked {
        body.push_str(&emit(cx, "n", "$n"));
        evs.push(ev("n", conds));
    }
    let src = wrap(cx, if c.ticked { TICK } else { "" }, &body);
    judge(cx, &src, &Want::Ev(evs), &[])
}

#[derive(Clone, Debug, Hash, Serialize, Deserialize)]
struct NestCase {
    tpl: u8,
    p: i32,
    q: i32,
    ctx: Ctx,
}

const NEST_TEMPLATES: u8 = 10;

fn check_nest(c: &NestCase) -> Verdict {
    let cx = c.ctx;
    let (p, q) = (c.p as i64, c.q as i64);
    let mut evs: Events = Vec::new();
    let e = |t: &str, x: &str| emit(cx, t, x);
    let lists: [Vec<i64>; 4] = [vec![], vec![2], vec![3, 1], vec![0, 2, -1]];
    let body = match c.tpl {
        // @for in @for, inner bound depends on the outer variable
        0 => {
            for i in range(1, p, true) {
                for j in range(i, q, true) {
                    evs.push(ev("b", i));
                    evs.push(ev("c", j));
                }
                evs.push(ev("d", i));
            }
            format!(
                "@for $i from 1 through {p} {{ @for $j from $i through {q} {{ {}{}}} {}}} ",
                e("b", "$i"),
                e("c", "$j"),
                e("d", "$i")
            )
        }
        // @for in @each
        1 => {
            let l = &lists[(p.rem_euclid(4)) as usize];
            for x in l {
                for i in range(q, *x, false) {
                    evs.push(ev("b", x));
                    evs.push(ev("c", i));
                }
                evs.push(ev("d", x));
            }
            let ls = V::List(l.iter().map(|x| n(*x)).collect(), Sep::Comma, false).src();
            format!(
                "@each $x in {ls} {{ @for $i from {q} to $x {{ {}{}}} {}}} ",
                e("b", "$x"),
                e("c", "$i"),
                e("d", "$x")
            )
        }
        // @if / @else if / @else in @for
        2 => {
            for i in range(-1, p, true) {
                if i == q {
                    evs.push(ev("b", i));
                } else if i > q {
                    evs.push(ev("c", i));
                } else {
                    evs.push(ev("d", i));
                }
            }
            format!(
                "@for $i from -1 through {p} {{ @if $i == {q} {{ {}}} @else if $i > {q} {{ {}}} @else {{ {}}} }} ",
                e("b", "$i"),
                e("c", "$i"),
                e("d", "$i")
            )
        }
        // @each in @each over a map of lists
        3 => {
            let m: Vec<(&'static str, Vec<i64>)> = vec![
                ("k0", (0..p).collect()),
                ("k1", vec![]),
                ("k2", (0..q).rev().collect()),
            ];
            for (k, l) in &m {
                // a one-element list written `(x,)`, an empty one `()`
                for x in l {
                    evs.push(ev("b", k));
                    evs.push(ev("c", x));
                }
                evs.push(ev("d", k));
            }
            let ms = V::Map(
                m.iter()
                    .map(|(k, l)| (id(k), V::List(l.iter().map(|x| n(*x)).collect(), Sep::Comma, false)))
                    .collect(),
            )
            .src();
            format!(
                "@each $k, $v in {ms} {{ @each $x in $v {{ {}{}}} {}}} ",
                e("b", "$k"),
                e("c", "$x"),
                e("d", "$k")
            )
        }
        // @for in @while
        4 => {
            let mut k = p;
            while k > 0 {
                for i in range(k, q, true) {
                    evs.push(ev("b", k));
                    evs.push(ev("c", i));
                }
                k -= 1;
            }
            format!(
                "$k: {p}; @while $k > 0 {{ @for $i from $k through {q} {{ {}{}}} $k: $k - 1; }} ",
                e("b", "$k"),
                e("c", "$i")
            )
        }
        // @while in @for
        5 => {
            for i in range(1, p, true) {
                let mut j = i;
                while j < q {
                    evs.push(ev("b", i));
                    evs.push(ev("c", j));
                    j += 1;
                }
            }
            format!(
                "@for $i from 1 through {p} {{ $j: $i; @while $j < {q} {{ {}{}$j: $j + 1; }} }} ",
                e("b", "$i"),
                e("c", "$j")
            )
        }
        // loops in the branches of an @if
        6 => {
            if p > q {
                for i in range(p, q, false) {
                    evs.push(ev("b", i));
                }
            } else if p == q {
                for x in [p, q] {
                    evs.push(ev("c", x));
                }
            } else {
                let mut i = p;
                while i < q {
                    evs.push(ev("d", i));
                    i += 2;
                }
            }
            format!(
                "@if {p} > {q} {{ @for $i from {p} to {q} {{ {}}} }} @else if {p} == {q} {{ @each $x in {p}, {q} {{ {}}} }} @else {{ $i: {p}; @while $i < {q} {{ {}$i: $i + 2; }} }} ",
                e("b", "$i"),
                e("c", "$x"),
                e("d", "$i")
            )
        }
        // destructured null decides an @if around a @for
        7 => {
            let pairs: Vec<Vec<i64>> = vec![vec![1, p], vec![q], vec![p, q, 5], vec![]];
            for pr in &pairs {
                match (pr.first(), pr.get(1)) {
                    (Some(a), Some(b)) => {
                        for i in range(*a, *b, true) {
                            evs.push(ev("b", i));
                        }
                    }
                    (a, _) => evs.push(ev("c", a.map(|x| x.to_string()).unwrap_or("null".into()))),
                }
            }
            let ls = V::List(
                pairs
                    .iter()
                    .map(|pr| {
                        if pr.len() == 1 {
                            n(pr[0])
                        } else {
                            V::List(pr.iter().map(|x| n(*x)).collect(), Sep::Space, false)
                        }
                    })
                    .collect(),
                Sep::Comma,
                false,
            )
            .src();
            format!(
                "@each $a, $b in {ls} {{ @if $b {{ @for $i from $a through $b {{ {}}} }} @else {{ {}}} }} ",
                e("b", "$i"),
                e("c", "$a")
            )
        }
        // @each over a list in @for, with @if inside (three levels)
        8 => {
            for i in range(p, q, true) {
                for x in [1i64, 2, 3] {
                    if x == i {
                        evs.push(ev("b", x));
                    } else if x < i {
                        evs.push(ev("c", x));
                    }
                }
            }
            format!(
                "@for $i from {p} through {q} {{ @each $x in 1 2 3 {{ @if $x == $i {{ {}}} @else if $x < $i {{ {}}} }} }} ",
                e("b", "$x"),
                e("c", "$x")
            )
        }
        // @while in @while with an @if that resets
        _ => {
            let mut i = p;
            while i > 0 {
                let mut j = 0;
                while j < q {
                    if j == i {
                        evs.push(ev("b", j));
                    } else {
                        evs.push(ev("c", j));
                    }
                    j += 1;
                }
                evs.push(ev("d", i));
                i -= 1;
            }
            format!(
                "$i: {p}; @while $i > 0 {{ $j: 0; @while $j < {q} {{ @if $j == $i {{ {}}} @else {{ {}}} $j: $j + 1; }} {}$i: $i - 1; }} ",
                e("b", "$j"),
                e("c", "$j"),
                e("d", "$i")
            )
        }
    };
    evs.push(ev("z", 9));
    let src = wrap(cx, "", &format!("{body}{}", emit(cx, "z", "9")));
    judge(cx, &src, &Want::Ev(evs), &[])
}

// ---------------------------------------------------------------- main

fn main() {
    let ck = Check::from_args("C17");
    let quick = ck.quick();
    // quick tier: the three contexts that reach distinct interpreters / destinations
    let big_ctx: &[Ctx] = if quick { &[Ctx::Rule, Ctx::Func, Ctx::Root] } else { &ALL_CTX };
    ck.rule("one generated program per (directive parameters x context): if-chains = condition sequences of length 1..4 x else x counted; @for = (a,b) in [-6,6]^2 x through/to x 15 unit situations, plus 11x11 bound spellings; @each = element sequences over a 12-shape alphabet x 6 list forms x 1..4 variables x inline/variable, maps of <= 6 entries x 3 key styles, argument lists; @while = 6 shapes x n x step x counted; 10 nested templates x (p,q); contexts = rule, mixin body, content block, function body, stylesheet root; distinct = distinct case tuple; outcome = compiled CSS text or error");
    ck.assume("the reference printer for meta.inspect of the small value alphabet follows the Sass reference (dart-sass serializer rules for nested lists, single-element lists and maps)");
    ck.assume("a bound of @for and every other enumerated construct is valid Sass; errors are expected exactly for undefined variables, incompatible units and non-integer bounds");

    // ---- if-chain
    {
        let nconds = ck.tier.pick(5, CONDS.len());
        let mut cases = Vec::new();
        for len in 1..=4 {
            for s in vp::gen::seqs(nconds, len) {
                for has_else in [false, true] {
                    for ticked in [false, true] {
                        for ctx in big_ctx.iter().copied() {
                            cases.push(IfCase {
                                conds: s.iter().map(|i| *i as u8).collect(),
                                has_else,
                                ticked,
                                ctx,
                            });
                        }
                    }
                }
            }
        }
        ck.run(
            "if-chain",
            &format!("chains of 1..4 conditions over {nconds} condition kinds x else x counted x {} contexts", big_ctx.len()),
            cases.into_iter(),
            check_if,
        );
    }

    // ---- for-range
    {
        let sits = unit_sits();
        let mut cases = Vec::new();
        for unit in 0..sits.len() as u8 {
            for a in -6..=6 {
                for b in -6..=6 {
                    for incl in [true, false] {
                        for ctx in big_ctx.iter().copied() {
                            cases.push(ForCase { a, b, incl, unit, ctx });
                        }
                    }
                }
            }
        }
        ck.run(
            "for-range",
            &format!("a,b in [-6,6] x through/to x 15 unit situations x {} contexts", big_ctx.len()),
            cases.into_iter(),
            |c: &ForCase| check_for(c, &sits),
        );
    }

    // ---- for-bound-spelling
    {
        let mut cases = Vec::new();
        for from in 0..SPELL.len() as u8 {
            for to in 0..SPELL.len() as u8 {
                for incl in [true, false] {
                    for ctx in ALL_CTX {
                        cases.push(SpellCase { from, to, incl, ctx });
                    }
                }
            }
        }
        ck.run(
            "for-bound-spelling",
            "11 x 11 spellings of the bounds x through/to x 5 contexts",
            cases.into_iter(),
            check_spell,
        );
    }

    // ---- each-list
    {
        let alphabet = elements();
        // (alphabet size, max length) layers; longer lists over fewer shapes
        let layers: Vec<(usize, usize, usize)> = if quick {
            vec![(7, 0, 2), (4, 3, 3)]
        } else {
            vec![(12, 0, 3), (6, 4, 4), (3, 5, 6)]
        };
        let maxvars = ck.tier.pick(3u8, 4u8);
        let ctxs: &[Ctx] = if quick { &[Ctx::Rule, Ctx::Func, Ctx::Root] } else { &ALL_CTX };
        let mut cases = Vec::new();
        for (k, lo, hi) in &layers {
            for s in vp::gen::seqs_range(*k, *lo, *hi) {
                for form in 0..6u8 {
                    for nvars in 1..=maxvars {
                        for via_var in [false, true] {
                            for ctx in ctxs {
                                cases.push(EachCase {
                                    elems: s.iter().map(|i| *i as u8).collect(),
                                    form,
                                    nvars,
                                    via_var,
                                    ctx: *ctx,
                                });
                            }
                        }
                    }
                }
            }
        }
        ck.run(
            "each-list",
            &format!(
                "lists (alphabet size, min..max length) {layers:?} x 6 forms x 1..{maxvars} variables x inline/variable x {} contexts",
                ctxs.len()
            ),
            cases.into_iter(),
            |c: &EachCase| check_each(c, &alphabet),
        );
    }

    // ---- each-map
    {
        let alphabet = map_values();
        let layers: Vec<(usize, usize, usize)> = if quick {
            vec![(7, 0, 2), (3, 3, 4)]
        } else {
            vec![(7, 0, 3), (3, 4, 6)]
        };
        let maxvars = ck.tier.pick(3u8, 4u8);
        let mut cases = Vec::new();
        for (k, lo, hi) in &layers {
            for s in vp::gen::seqs_range(*k, *lo, *hi) {
                for keys in 0..3u8 {
                    for nvars in 1..=maxvars {
                        for via_var in [false, true] {
                            for ctx in big_ctx.iter().copied() {
                                cases.push(MapCase {
                                    vals: s.iter().map(|i| *i as u8).collect(),
                                    keys,
                                    nvars,
                                    via_var,
                                    ctx,
                                });
                            }
                        }
                    }
                }
            }
        }
        ck.run(
            "each-map",
            &format!("maps (value alphabet, min..max entries) {layers:?} x 3 key styles x 1..{maxvars} variables x inline/variable x {} contexts", big_ctx.len()),
            cases.into_iter(),
            |c: &MapCase| check_map(c, &alphabet),
        );
    }

    // ---- each-arglist
    {
        let mut cases = Vec::new();
        for npos in 0..=3u8 {
            for nkw in 0..=2u8 {
                for trailing in [false, true] {
                    if trailing && npos + nkw == 0 {
                        continue;
                    }
                    for nvars in 1..=2u8 {
                        for func in [false, true] {
                            cases.push(ArgListCase { npos, nkw, trailing, nvars, func });
                        }
                    }
                }
            }
        }
        ck.run(
            "each-arglist",
            "rest parameter with 0..3 positional x 0..2 keywords x trailing comma x 1..2 variables x mixin/function",
            cases.into_iter(),
            check_arglist,
        );
    }

    // ---- while
    {
        let mut cases = Vec::new();
        for kind in 0..WHILE_KINDS {
            for n in -1..=6 {
                for step in 1..=3 {
                    for ticked in [false, true] {
                        for ctx in ALL_CTX {
                            cases.push(WhileCase { kind, n, step, ticked, ctx });
                        }
                    }
                }
            }
        }
        ck.run(
            "while",
            "6 loop shapes x n in -1..=6 x step 1..3 x counted x 5 contexts",
            cases.into_iter(),
            check_while,
        );
    }

    // ---- nested
    {
        let mut cases = Vec::new();
        let r = ck.tier.pick(3, 4);
        for tpl in 0..NEST_TEMPLATES {
            for p in -1..=r {
                for q in -1..=r {
                    for ctx in ALL_CTX {
                        cases.push(NestCase { tpl, p, q, ctx });
                    }
                }
            }
        }
        ck.run(
            "nested",
            &format!("10 two/three-level templates x p,q in -1..={r} x 5 contexts"),
            cases.into_iter(),
            check_nest,
        );
    }

    ck.finish()
}
