//! C12 Equality is symmetric and consistent with ordering.
//!
//! Space: a value alphabet (numbers at and next to 0, 1, 0.1, 10, 1e10, ... by a
//! few ulps, with and without units, convertible unit families, computed
//! numbers, NaN/infinity; strings in every quote style; colours in every
//! notation plus channel perturbations; lists, maps, booleans, null, function
//! references, argument lists, calculations; containers holding a perturbed
//! number) and
//!   * symmetry   : every unordered pair, operands inline and through variables:
//!                  `a==b` = `b==a`, `a!=b` = not `a==b`, `b!=a` = not `b==a`;
//!   * reflexive  : every value in five spellings (`$v==$v`, `E==E`, `($v)==$v`,
//!                  `$v==($v)`, `(E)==E`) is equal to itself unless it is NaN;
//!   * trichotomy : every ordered pair of numbers: exactly one of `<`,`==`,`>`
//!                  when the two can be compared.
//! Oracle: purely relational (several real evaluations of the same stylesheet).
//! Known-defect variants (signatures) replicate rsass' one-sided numeric
//! comparison exactly.

use serde::{Deserialize, Serialize};
use std::cmp::Ordering;
use std::collections::HashMap;
use vp::report::{Check, Verdict};
use vp::rs::{self, Fmt, Out};

const PRELUDE: &str = "@use \"sass:math\";@use \"sass:list\";@use \"sass:map\";@use \"sass:meta\";@use \"sass:color\";@use \"sass:string\";@function args($a...){@return $a}@function f(){@return 1}";

#[derive(Clone, Debug, Hash, Serialize, Deserialize)]
struct PairCase {
    a: String,
    b: String,
    /// "inline" (operands written in the expression) or "var" (through variables)
    mode: String,
}

#[derive(Clone, Debug, Hash, Serialize, Deserialize)]
struct ReflCase {
    v: String,
    /// var-var | inline-inline | paren-var | var-paren | paren-inline
    form: String,
}

#[derive(Clone, Copy, Debug, PartialEq)]
enum Kind {
    Number,
    /// null, `var(..)` and the one-letter channel names: rsass keeps the
    /// parentheses around these when they are written `(v)`
    ParenKept,
    ArgList,
    Other,
}

#[derive(Clone, Debug)]
struct Val {
    expr: String,
    kind: Kind,
    /// exact f64 value and unit label ("" = unitless) of a number, or of the
    /// number in the slot of a wrapper
    num: Option<(f64, String)>,
    /// wrapper template id for containers with one numeric slot
    wrap: Option<&'static str>,
    /// the value is or contains NaN
    nan: bool,
}

// ---------- replica of rsass' numeric comparison (known-defect variant) ----------

/// rsass scale factors (value/unit.rs) for the units used in the alphabet.
fn scale_factor(unit: &str) -> Option<(u8, f64)> {
    Some(match unit {
        "cm" => (1, 10.),
        "mm" => (1, 1.),
        "q" | "Q" => (1, 1. / 4.),
        "in" => (1, 254. / 10.),
        "pt" => (1, 254. / 720.),
        "pc" => (1, 254. / 60.),
        "px" => (1, 254. / 960.),
        "deg" => (2, 1. / 360.),
        "grad" => (2, 1. / 400.),
        "rad" => (2, std::f64::consts::FRAC_1_PI / 2.0),
        "turn" => (2, 1.),
        "s" => (3, 1.),
        "ms" => (3, 1. / 1000.),
        _ => return None,
    })
}

fn rs_num_eq(a: f64, b: f64) -> bool {
    (a - b).abs() / a.abs() <= f64::EPSILON
}
fn rs_num_cmp(a: f64, b: f64) -> Option<Ordering> {
    if rs_num_eq(a, b) {
        Some(Ordering::Equal)
    } else {
        a.partial_cmp(&b)
    }
}
/// `Numeric::partial_cmp` of rsass: only the *other* operand is converted and
/// the relative difference is divided by the left operand only.
/// None = "don't know" (units outside the replicated table).
fn rs_numeric_cmp(a: &(f64, String), b: &(f64, String)) -> Option<Option<Ordering>> {
    if a.1 == b.1 {
        return Some(rs_num_cmp(a.0, b.0));
    }
    if a.1.is_empty() || b.1.is_empty() {
        return Some(match rs_num_cmp(a.0, b.0) {
            Some(Ordering::Equal) => None,
            o => o,
        });
    }
    let (da, fa) = scale_factor(&a.1)?;
    let (db, fb) = scale_factor(&b.1)?;
    if da != db {
        return Some(None);
    }
    let scaled = b.0 * (fb / fa);
    Some(rs_num_cmp(a.0, scaled))
}
fn rs_numeric_eq(a: &(f64, String), b: &(f64, String)) -> Option<bool> {
    rs_numeric_cmp(a, b).map(|o| o == Some(Ordering::Equal))
}

// ---------- unit classification for trichotomy ----------

#[derive(Debug, PartialEq)]
enum Rel {
    Comparable,
    /// one operand unitless, the other with a unit
    Mixed,
    /// NaN involved or incompatible / unknown units: nothing is claimed
    NoClaim,
}

fn relation(a: &(f64, String), b: &(f64, String)) -> Rel {
    if a.0.is_nan() || b.0.is_nan() {
        return Rel::NoClaim;
    }
    if a.1 == b.1 {
        return Rel::Comparable;
    }
    if a.1.is_empty() || b.1.is_empty() {
        return Rel::Mixed;
    }
    match (scale_factor(&a.1), scale_factor(&b.1)) {
        (Some((da, _)), Some((db, _))) if da == db => Rel::Comparable,
        _ => Rel::NoClaim,
    }
}

// ---------- alphabet ----------

fn lit(x: f64) -> String {
    if x == 0.0 {
        return if x.is_sign_negative() { "-0.0".into() } else { "0".into() };
    }
    format!("{x:?}")
}

fn step(x: f64, k: i64) -> f64 {
    // k ulps away from x (x finite, non-zero, same sign kept)
    let bits = x.to_bits() as i64;
    f64::from_bits((bits + k) as u64)
}

fn num(x: f64, unit: &str) -> Val {
    Val {
        expr: format!("{}{unit}", lit(x)),
        kind: Kind::Number,
        num: Some((x, unit.to_string())),
        wrap: None,
        nan: false,
    }
}
fn numx(expr: &str, x: f64, unit: &str) -> Val {
    Val {
        expr: expr.to_string(),
        kind: Kind::Number,
        num: Some((x, unit.to_string())),
        wrap: None,
        nan: x.is_nan(),
    }
}
fn other(expr: &str) -> Val {
    Val {
        expr: expr.to_string(),
        kind: Kind::Other,
        num: None,
        wrap: None,
        nan: false,
    }
}

fn numbers(quick: bool) -> Vec<Val> {
    let mut v = Vec::new();
    let bases: &[f64] = if quick {
        &[1.0, 0.1, 10.0, 3.0, 1e10]
    } else {
        &[
            1.0, 0.1, 10.0, 3.0, 1e10, 0.3, 0.5, 100.0, 255.0, 1e-10, 2.54, 96.0, 1e15, 2.0, 0.7, 1e-5, 360.0, 1e100, 1e-300,
            4503599627370496.0,
        ]
    };
    let steps: &[i64] = if quick { &[-2, -1, 0, 1, 2] } else { &[-8, -4, -3, -2, -1, 0, 1, 2, 3, 4, 8] };
    let steps3: &[i64] = if quick { &[-1, 0, 1] } else { &[-2, -1, 0, 1, 2] };
    for b in bases {
        for k in steps {
            v.push(num(step(*b, *k), ""));
        }
    }
    for k in steps3 {
        v.push(num(step(-1.0, *k), ""));
    }
    for x in [0.0, -0.0, 5e-324, -5e-324, 1e-300] {
        v.push(num(x, ""));
    }
    // convertible families, each member equal to 1in / 1s / 1turn
    let fam: &[(f64, &str)] = if quick {
        &[(1.0, "in"), (96.0, "px"), (2.54, "cm"), (1.0, "px"), (1.0, "s"), (1000.0, "ms"), (1.0, "turn"), (360.0, "deg")]
    } else {
        &[
            (1.0, "in"),
            (96.0, "px"),
            (2.54, "cm"),
            (25.4, "mm"),
            (72.0, "pt"),
            (6.0, "pc"),
            (101.6, "q"),
            (1.0, "px"),
            (0.75, "pt"),
            (1.0, "s"),
            (1000.0, "ms"),
            (1.0, "turn"),
            (360.0, "deg"),
            (400.0, "grad"),
            (std::f64::consts::TAU, "rad"),
        ]
    };
    for (x, u) in fam {
        for k in steps3 {
            v.push(num(step(*x, *k), u));
        }
    }
    for (x, u) in [(100.0, "%"), (1.0, "%"), (1.0, "em"), (1.0, "rem"), (1.0, "foo"), (1.0, "Px"), (1.0, "fr"), (0.0, "px"), (0.0, "s")] {
        v.push(num(x, u));
    }
    // computed numbers with a known exact value
    v.push(numx("(0.1 + 0.2)", 0.1 + 0.2, ""));
    v.push(numx("math.div(1, 3)", 1.0 / 3.0, ""));
    v.push(numx("(math.div(1, 3) * 3)", (1.0 / 3.0) * 3.0, ""));
    v.push(numx("(math.sqrt(2) * math.sqrt(2))", 2f64.sqrt() * 2f64.sqrt(), ""));
    v.push(numx("2", 2.0, ""));
    v.push(numx("1", 1.0, ""));
    v.push(numx("+1", 1.0, ""));
    v.push(numx("1e0", 1.0, ""));
    v.push(numx("(10px * 9.6)", 10.0 * 9.6, "px"));
    v.push(numx("(1in + 0px)", 1.0, "in"));
    v.push(numx("math.div(0, 0)", f64::NAN, ""));
    v.push(numx("math.div(1, 0)", f64::INFINITY, ""));
    v.push(numx("math.div(-1, 0)", f64::NEG_INFINITY, ""));
    v.push(numx("math.div(1px, 0)", f64::INFINITY, "px"));
    v.push(numx("(math.div(0, 0) * 1px)", f64::NAN, "px"));
    // compound units: label only, no replica
    v.push(numx("(1px * 1px)", 1.0, "px*px"));
    v.push(numx("(2px * 1px)", 2.0, "px*px"));
    v.push(numx("math.div(1px, 1s)", 1.0, "px/s"));
    v
}

fn wrappers(quick: bool) -> Vec<Val> {
    let xs: Vec<f64> = if quick {
        vec![1.0, step(1.0, -2), step(1.0, 1)]
    } else {
        vec![1.0, step(1.0, -2), step(1.0, -1), step(1.0, 1), step(1.0, 2), f64::NAN]
    };
    let mut v = Vec::new();
    for x in xs {
        let e = if x.is_nan() { "math.div(0, 0)".to_string() } else { lit(x) };
        for (id, text) in [
            ("list", format!("({e} 2)")),
            ("bracket", format!("[{e}]")),
            ("mapval", format!("(k: {e})")),
            ("mapkey", format!("({e}: k)")),
        ] {
            if x.is_nan() && id == "mapkey" {
                continue;
            }
            v.push(Val {
                expr: text,
                kind: Kind::Other,
                num: Some((x, String::new())),
                wrap: Some(id),
                nan: x.is_nan(),
            });
        }
    }
    v
}

fn others() -> Vec<Val> {
    let mut v: Vec<Val> = Vec::new();
    for e in [
        // strings
        // escapes the parser keeps (`\-`, `\\`, control characters) against the same text without them
        "a-b", "\"a\\-b\"", "\"a-b\"", "string.unquote(\"a\\-b\")", "\"a\\\\b\"", "string.unquote(\"a\\\\b\")", "\"a\\a b\"",
        "string.unquote(\"a\\a b\")", "\"a\\ b\"", "string.unquote(\"a\\ b\")",
        "a", "\"a\"", "'a'", "\"\\61\"", "A", "\"a \"", "\"\"", "''", "string.unquote(\"\")", "\"a\\\"b\"", "'a\"b'",
        "\"1\"", "\"red\"", "\"null\"", "\"true\"", "\"1px\"", "string.unquote(\"a b\")", "\"a b\"", "ab",
        "(\"a\" + \"b\")", "(a + b)", "url(x)", "\"url(x)\"", "calc(1px + 1%)", "calc(1% + 1px)", "foo(1)",
        "\"foo(1)\"", "U+26", "(1 + a)", "\"1a\"", "string.quote(a)", "string.to-upper-case(a)",
        // booleans, null
        "true", "false", "(1 == 1)", "(1 == 2)", "(not true)",
        // lists
        "()", "[]", "(1, 2)", "[1 2]", "[1, 2]", "(1,)", "(1 2 3)", "((1 2) 3)", "(1 (2 3))",
        "list.slash(1, 2)", "list.append((), 1)", "list.join((), (), comma)", "(a b)", "(\"a\" b)",
        "(red blue)", "(#f00 blue)", "(null,)", "(1px 2)", "(96px 2)", "(1in 2)",
        // maps
        "(a: 1)", "(\"a\": 1)", "(a: 1, b: 2)", "(b: 2, a: 1)", "(a: 2)", "(a: 1.0)", "(a: (b: 1))", "(1: a)", "(1.0: a)",
        "map.remove((z: 1), z)", "map.merge((a: 1), (b: 2))", "(red: 1)", "(#f00: 1)", "(1in: a)", "(96px: a)",
        // functions
        "meta.get-function(\"red\")", "meta.get-function(\"blue\")", "meta.get-function(\"f\")",
        "meta.get-function(\"red\", $module: \"color\")",
        // colours
        "red", "#f00", "#ff0000", "#FF0000", "rgb(255, 0, 0)", "rgba(255, 0, 0, 1)", "rgb(255 0 0)", "hsl(0, 100%, 50%)",
        "hsla(0, 100%, 50%, 1)", "hsl(360, 100%, 50%)", "hwb(0 0% 0%)", "rgba(255, 0, 0, 0.5)", "#ff000080", "#f008",
        "rgba(255, 0, 0, 0.5019607843)", "transparent", "rgba(0, 0, 0, 0)", "rgb(254.99999995, 0, 0)",
        "rgb(254.9999999, 0, 0)", "rgb(254.9999998, 0, 0)", "hsl(0.00000005, 100%, 50%)", "hsl(0, 50%, 50%)",
        "color.change(red, $saturation: 50%)", "hwb(0 25% 25%)", "color.adjust(hwb(0 0% 0%), $hue: 0)", "black",
        "hsl(0, 0%, 0%)", "hwb(0 0% 100%)", "rgb(0, 0, 0)", "color.invert(white)", "blue", "hsl(240, 100%, 50%)",
        "color.adjust(hsl(230, 100%, 50%), $hue: 10)", "color.mix(red, blue)", "purple",
    ] {
        v.push(other(e));
    }
    for e in ["null", "map.get((a: 1), b)", "var(--x)", "h"] {
        v.push(Val { kind: Kind::ParenKept, ..other(e) });
    }
    // plain spellings of wrapper instances (same templates as `wrappers`)
    for (e, id) in [("(1 2)", "list"), ("list.join(1, 2)", "list"), ("[1]", "bracket")] {
        v.push(Val { num: Some((1.0, String::new())), wrap: Some(id), ..other(e) });
    }
    for e in ["args(1, 2)", "args()", "args($k: 1)"] {
        v.push(Val { kind: Kind::ArgList, ..other(e) });
    }
    // colours with a NaN channel
    for e in ["hsl(math.div(0, 0), 50%, 50%)", "rgb(math.div(0, 0), 0, 0)"] {
        v.push(Val { nan: true, ..other(e) });
    }
    v
}

// ---------- observation ----------

/// Declarations of the single rule `a { .. }` in expanded output.
fn decls(css: &str) -> Vec<(String, String)> {
    let mut out = Vec::new();
    for line in css.lines() {
        let Some(l) = line.strip_prefix("  ") else { continue };
        let Some(l) = l.strip_suffix(';') else { continue };
        if let Some((n, v)) = l.split_once(": ") {
            out.push((n.to_string(), v.to_string()));
        }
    }
    out
}

fn get_bool(d: &[(String, String)], name: &str) -> Result<bool, String> {
    match d.iter().find(|(n, _)| n == name).map(|(_, v)| v.as_str()) {
        Some("true") => Ok(true),
        Some("false") => Ok(false),
        Some(o) => Err(format!("{name} is not a boolean: {o:?}")),
        None => Err(format!("{name} missing from output")),
    }
}

fn panic_site(p: &str) -> String {
    // file + normalised message (no line number): survives unrelated edits
    vp::rs::panic_site(p)
}

/// Compile and return the declarations, or the verdict for a failed run.
fn run_sheet(src: &str) -> Result<Vec<(String, String)>, Verdict> {
    match rs::compile_str(src, Fmt::EXPANDED) {
        Out::Css(css) => Ok(decls(&css)),
        Out::Panic(p) => Err(Verdict::fail_sig(
            format!("panic:{}", panic_site(&p)),
            format!("panic {p} on {src}"),
        )),
        Out::Err(e) => Err(Verdict::fail(format!(
            "comparison is an error: {:?} on {src}",
            e.lines().next().unwrap_or("")
        ))),
    }
}

fn main() {
    let ck = Check::from_args("C12");
    let quick = ck.quick();
    ck.rule("value alphabet = numbers {bases x ulp steps x units, convertible families, computed, NaN, inf} + strings/colours/lists/maps/bools/null/functions/arglists + containers with a perturbed number; symmetry: all unordered pairs x {inline,var}; reflexive: all values x 5 spellings; trichotomy: all ordered pairs of numbers x {inline,var}; distinct = distinct (operands, mode); outcome = tuple of observed booleans");
    ck.assume("Rust parses the decimal literals to the same f64 as rsass (rsass uses str::parse::<f64>); used only to classify failures into signatures and to decide which number pairs are comparable");

    let nums = numbers(quick);
    let mut all: Vec<Val> = nums.clone();
    all.extend(wrappers(quick));
    all.extend(others());
    // unique by expression
    {
        let mut seen = std::collections::HashSet::new();
        all.retain(|v| seen.insert(v.expr.clone()));
    }
    let mut nums_u: Vec<Val> = Vec::new();
    {
        let mut seen = std::collections::HashSet::new();
        for v in &nums {
            if seen.insert(v.expr.clone()) {
                nums_u.push(v.clone());
            }
        }
    }
    let table: HashMap<String, Val> = all.iter().map(|v| (v.expr.clone(), v.clone())).collect();
    ck.note(
        "alphabet",
        serde_json::json!({"values": all.len(), "numbers": nums_u.len()}),
    );

    // ---- section 1: symmetry and negation over all unordered pairs
    let mut pairs: Vec<PairCase> = Vec::new();
    for mode in ["var", "inline"] {
        for i in 0..all.len() {
            for j in (i + 1)..all.len() {
                pairs.push(PairCase {
                    a: all[i].expr.clone(),
                    b: all[j].expr.clone(),
                    mode: mode.to_string(),
                });
            }
        }
    }
    ck.run(
        "symmetry",
        "all unordered pairs of the value alphabet, inline and through variables",
        pairs.into_iter(),
        |c: &PairCase| {
            let (a, b) = (&c.a, &c.b);
            let src = if c.mode == "inline" {
                format!("{PRELUDE}\na{{p:{a} == {b};q:{b} == {a};r:{a} != {b};s:{b} != {a}}}\n")
            } else {
                format!("{PRELUDE}\n$a:{a};$b:{b};\na{{p:$a == $b;q:$b == $a;r:$a != $b;s:$b != $a}}\n")
            };
            let d = match run_sheet(&src) {
                Ok(d) => d,
                Err(v) => return v,
            };
            let got = (get_bool(&d, "p"), get_bool(&d, "q"), get_bool(&d, "r"), get_bool(&d, "s"));
            let (p, q, r, s) = match got {
                (Ok(p), Ok(q), Ok(r), Ok(s)) => (p, q, r, s),
                (p, q, r, s) => {
                    let e: Vec<String> = [p, q, r, s].into_iter().filter_map(Result::err).collect();
                    return Verdict::fail(format!("{a} vs {b} ({}): {}", c.mode, e.join("; ")));
                }
            };
            if r == p || s == q {
                return Verdict::fail(format!(
                    "`!=` is not the negation of `==`: {a} vs {b} ({}): a==b {p}, a!=b {r}, b==a {q}, b!=a {s}",
                    c.mode
                ));
            }
            if p != q {
                // known-defect variant: one-sided numeric comparison
                let (va, vb) = (table.get(a), table.get(b));
                if let (Some(va), Some(vb)) = (va, vb) {
                    if let (Some(na), Some(nb)) = (&va.num, &vb.num) {
                        if va.wrap == vb.wrap {
                            if let (Some(mp), Some(mq)) = (rs_numeric_eq(na, nb), rs_numeric_eq(nb, na)) {
                                if mp == p && mq == q {
                                    let sig = if na.1 == nb.1 {
                                        "numeric-eq-relative-epsilon-one-sided"
                                    } else {
                                        "numeric-eq-unit-conversion-one-sided"
                                    };
                                    return Verdict::fail_sig(
                                        sig,
                                        format!("{a} == {b} is {p} but {b} == {a} is {q} ({})", c.mode),
                                    );
                                }
                            }
                        }
                    }
                }
                return Verdict::fail(format!(
                    "asymmetric: {a} == {b} is {p} but {b} == {a} is {q} ({})",
                    c.mode
                ));
            }
            Verdict::pass(&(p, q))
        },
    );

    // ---- section 2: reflexivity
    let forms = ["var-var", "inline-inline", "paren-var", "var-paren", "paren-inline"];
    let mut refl: Vec<ReflCase> = Vec::new();
    for v in &all {
        for f in forms {
            refl.push(ReflCase {
                v: v.expr.clone(),
                form: f.to_string(),
            });
        }
    }
    ck.run(
        "reflexive",
        "every value of the alphabet x 5 spellings of `v == v`",
        refl.into_iter(),
        |c: &ReflCase| {
            let e = &c.v;
            let (l, r) = match c.form.as_str() {
                "var-var" => ("$v".to_string(), "$v".to_string()),
                "inline-inline" => (e.clone(), e.clone()),
                "paren-var" => ("($v)".to_string(), "$v".to_string()),
                "var-paren" => ("$v".to_string(), "($v)".to_string()),
                _ => (format!("({e})"), e.clone()),
            };
            let src = format!("{PRELUDE}\n$v:{e};\na{{p:{l} == {r};r:{l} != {r}}}\n");
            let d = match run_sheet(&src) {
                Ok(d) => d,
                Err(v) => return v,
            };
            let (p, ne) = match (get_bool(&d, "p"), get_bool(&d, "r")) {
                (Ok(p), Ok(ne)) => (p, ne),
                (p, ne) => {
                    let e2: Vec<String> = [p, ne].into_iter().filter_map(Result::err).collect();
                    return Verdict::fail(format!("{e} ({}): {}", c.form, e2.join("; ")));
                }
            };
            if ne == p {
                return Verdict::fail(format!("`!=` is not the negation of `==` for {e} ({}): == {p}, != {ne}", c.form));
            }
            let info = table.get(e);
            let nan = info.map(|v| v.nan).unwrap_or(false);
            if p || nan {
                return Verdict::pass(&(p, ne));
            }
            match info.map(|v| v.kind) {
                Some(Kind::ArgList) => Verdict::fail_sig(
                    "arglist-not-equal-to-itself",
                    format!("argument list {e} ({}): {l} == {r} is false", c.form),
                ),
                Some(Kind::ParenKept) if c.form.contains("paren") => Verdict::fail_sig(
                    "parenthesised-value-not-equal-to-itself",
                    format!("{e} ({}): {l} == {r} is false", c.form),
                ),
                _ => Verdict::fail(format!("{e} ({}): {l} == {r} is false", c.form)),
            }
        },
    );

    // ---- section 3: trichotomy over ordered pairs of numbers
    let mut tri: Vec<PairCase> = Vec::new();
    for mode in ["var", "inline"] {
        for a in &nums_u {
            for b in &nums_u {
                tri.push(PairCase {
                    a: a.expr.clone(),
                    b: b.expr.clone(),
                    mode: mode.to_string(),
                });
            }
        }
    }
    ck.run(
        "trichotomy",
        "all ordered pairs of the number alphabet, inline and through variables",
        tri.into_iter(),
        |c: &PairCase| {
            let (a, b) = (&c.a, &c.b);
            let (Some(va), Some(vb)) = (table.get(a), table.get(b)) else {
                return Verdict::fail("replayed operands are not in the alphabet of this tier");
            };
            let (Some(na), Some(nb)) = (&va.num, &vb.num) else {
                return Verdict::Trivial;
            };
            let rel = relation(na, nb);
            let src = if c.mode == "inline" {
                format!("{PRELUDE}\na{{l:{a} < {b};e:{a} == {b};g:{a} > {b}}}\n")
            } else {
                format!("{PRELUDE}\n$a:{a};$b:{b};\na{{l:$a < $b;e:$a == $b;g:$a > $b}}\n")
            };
            let d = match rs::compile_str(&src, Fmt::EXPANDED) {
                Out::Css(css) => decls(&css),
                Out::Panic(p) => {
                    return Verdict::fail_sig(format!("panic:{}", panic_site(&p)), format!("panic {p} on {src}"))
                }
                Out::Err(e) => {
                    // an error is the Sass answer for incompatible units
                    return if rel == Rel::NoClaim {
                        Verdict::Trivial
                    } else {
                        Verdict::fail(format!("comparing {a} with {b} is an error: {:?}", e.lines().next().unwrap_or("")))
                    };
                }
            };
            if rel == Rel::NoClaim {
                return Verdict::Trivial;
            }
            let (l, e, g) = match (get_bool(&d, "l"), get_bool(&d, "e"), get_bool(&d, "g")) {
                (Ok(l), Ok(e), Ok(g)) => (l, e, g),
                (l, e, g) => {
                    let errs: Vec<String> = [l, e, g].into_iter().filter_map(Result::err).collect();
                    return Verdict::fail(format!("{a} vs {b} ({}): {}", c.mode, errs.join("; ")));
                }
            };
            let count = [l, e, g].iter().filter(|x| **x).count();
            let ok = match rel {
                Rel::Comparable => count == 1,
                // a unitless number is never `==` to one with a unit in Sass, so
                // numerically equal operands satisfy none of the three
                Rel::Mixed => {
                    let (x, y) = (na.0, nb.0);
                    let close = x == y || (x - y).abs() <= 1e-9 * x.abs().max(y.abs());
                    count == 1 || (count == 0 && close)
                }
                Rel::NoClaim => true,
            };
            if ok {
                Verdict::pass(&(l, e, g, rel == Rel::Mixed))
            } else {
                Verdict::fail(format!(
                    "{a} vs {b} ({}): `<` {l}, `==` {e}, `>` {g}: {count} of the three hold",
                    c.mode
                ))
            }
        },
    );

    ck.finish()
}
