//! C14 `not`, `and`, `or` follow Sass truthiness.
//!
//! Space: an operand alphabet with one representative per value kind (booleans,
//! null in several derivations, numbers incl. 0, -0 and NaN, strings incl. empty
//! and "false", empty and non-empty lists and maps, colours, function refs,
//! argument lists, calculations) and
//!   * not           : every operand x 7 spellings/contexts of `not x`;
//!   * and-or-value  : every ordered pair x {and,or} x {inline,var}: the result
//!                     *is* the selected operand (same inspect text, same type);
//!   * short-circuit : every operand x {and,or} x right operands that fail or
//!                     count their evaluations x 5 contexts;
//!   * lazy-trees    : every fully parenthesised and/or tree with <= N operators
//!                     over {true,false,null,0,"x",BOMB}, BOMB failing or counting.
//! Oracle: R-val truthiness table (false and null are falsey, everything else is
//! truthy) and a lazy evaluator; the selected operand is compared relationally
//! (inspect of the result against inspect of the operand in the same run).

use serde::{Deserialize, Serialize};
use vp::report::{Check, Verdict};
use vp::rs::{self, Fmt, Out};

const FUNCS: &str = "$n:0;@function tick(){$n:$n+1 !global;@return 7}@function boom(){@error \"boom\"}@function args($a...){@return $a}";

fn prelude(body: &str) -> String {
    let mut s = String::new();
    if body.contains("math.") {
        s.push_str("@use \"sass:math\";");
    }
    s.push_str(FUNCS);
    s.push('\n');
    s
}

#[derive(Clone, Copy, Debug, PartialEq)]
enum Kind {
    Bool,
    Number,
    /// `(null)`: null written in parentheses
    ParenNull,
    /// anything else (null, strings, lists, maps, colours, functions, ...)
    Other,
}

struct Operand {
    expr: &'static str,
    truthy: bool,
    kind: Kind,
}

const fn o(expr: &'static str, truthy: bool, kind: Kind) -> Operand {
    Operand { expr, truthy, kind }
}

const OPERANDS: &[Operand] = &[
    o("true", true, Kind::Bool),
    o("false", false, Kind::Bool),
    o("(1 == 1)", true, Kind::Bool),
    o("(1 == 2)", false, Kind::Bool),
    o("(false)", false, Kind::Bool),
    o("null", false, Kind::Other),
    o("map-get((a: 1), b)", false, Kind::Other),
    o("nth((null 1), 1)", false, Kind::Other),
    o("(null)", false, Kind::ParenNull),
    o("0", true, Kind::Number),
    o("-0.0", true, Kind::Number),
    o("1", true, Kind::Number),
    o("-1", true, Kind::Number),
    o("0px", true, Kind::Number),
    o("0.5", true, Kind::Number),
    o("(1 - 1)", true, Kind::Number),
    o("math.div(0, 0)", true, Kind::Number),
    o("math.div(1, 0)", true, Kind::Number),
    o("\"\"", true, Kind::Other),
    o("\"x\"", true, Kind::Other),
    o("x", true, Kind::Other),
    o("unquote(\"\")", true, Kind::Other),
    o("\"false\"", true, Kind::Other),
    o("'null'", true, Kind::Other),
    o("()", true, Kind::Other),
    o("[]", true, Kind::Other),
    o("(1 2)", true, Kind::Other),
    o("(null,)", true, Kind::Other),
    o("(false false)", true, Kind::Other),
    o("(a: 1)", true, Kind::Other),
    o("map-remove((a: 1), a)", true, Kind::Other),
    o("(false: false)", true, Kind::Other),
    o("red", true, Kind::Other),
    o("transparent", true, Kind::Other),
    o("rgba(0, 0, 0, 0)", true, Kind::Other),
    o("#000", true, Kind::Other),
    o("get-function(\"red\")", true, Kind::Other),
    o("args()", true, Kind::Other),
    o("args(false)", true, Kind::Other),
    o("calc(1px + 1%)", true, Kind::Other),
    o("var(--x)", true, Kind::Other),
];

fn operand(expr: &str) -> Option<&'static Operand> {
    OPERANDS.iter().find(|x| x.expr == expr)
}

// ---------- observation ----------

fn decls(css: &str) -> Vec<(String, String)> {
    let mut out = Vec::new();
    for line in css.lines() {
        let Some(l) = line.strip_prefix("  ") else { continue };
        let Some(l) = l.strip_suffix(';') else { continue };
        if let Some((n, v)) = l.split_once(": ") {
            out.push((n.to_string(), v.to_string()));
        }
    }
    out
}

fn get<'a>(d: &'a [(String, String)], name: &str) -> Option<&'a str> {
    d.iter().find(|(n, _)| n == name).map(|(_, v)| v.as_str())
}

fn panic_site(p: &str) -> String {
    // file + normalised message (no line number): survives unrelated edits
    vp::rs::panic_site(p)
}

fn head(e: &str) -> &str {
    e.lines().next().unwrap_or("")
}

// ---------- cases ----------

#[derive(Clone, Debug, Hash, Serialize, Deserialize)]
struct NotCase {
    x: String,
    /// print-inline | print-var | print-paren | double | if-inline | if-var | at-if
    form: String,
}

#[derive(Clone, Debug, Hash, Serialize, Deserialize)]
struct PairCase {
    a: String,
    b: String,
    op: String,
    mode: String,
}

#[derive(Clone, Debug, Hash, Serialize, Deserialize)]
struct ScCase {
    a: String,
    op: String,
    /// undef | boom | builtin | undef-arg | tick
    bomb: String,
    /// decl | if-fn | at-if | var | return
    ctx: String,
}

#[derive(Clone, Debug, Hash, Serialize, Deserialize)]
struct TreeCase {
    /// prefix notation: `&` and, `|` or; leaves t f n 0 x B
    tree: String,
    /// undef | tick
    bomb: String,
}

// ---------- lazy-tree model ----------

#[derive(Debug)]
enum Tree {
    Leaf(char),
    Bin(char, Box<Tree>, Box<Tree>),
}

fn parse_tree(s: &mut std::str::Chars) -> Option<Tree> {
    let c = s.next()?;
    match c {
        '&' | '|' => {
            let l = parse_tree(s)?;
            let r = parse_tree(s)?;
            Some(Tree::Bin(c, Box::new(l), Box::new(r)))
        }
        't' | 'f' | 'n' | '0' | 'x' | 'B' => Some(Tree::Leaf(c)),
        _ => None,
    }
}

fn render(t: &Tree, bomb: &str, top: bool) -> String {
    match t {
        Tree::Leaf(c) => match c {
            't' => "true".into(),
            'f' => "false".into(),
            'n' => "null".into(),
            '0' => "0".into(),
            'x' => "\"x\"".into(),
            _ => {
                if bomb == "tick" {
                    "tick()".into()
                } else {
                    "$undefined".into()
                }
            }
        },
        Tree::Bin(op, l, r) => {
            let s = format!(
                "{} {} {}",
                render(l, bomb, false),
                if *op == '&' { "and" } else { "or" },
                render(r, bomb, false)
            );
            if top {
                s
            } else {
                format!("({s})")
            }
        }
    }
}

/// Value of the model: which leaf (or '7' for the tick result) and whether
/// rsass' Paren(Null) wrapper would be around it (defect variant only).
#[derive(Clone, Copy, Debug, PartialEq)]
struct MVal {
    leaf: char,
    wrapped: bool,
}

impl MVal {
    fn truthy(self) -> bool {
        self.wrapped || !matches!(self.leaf, 'f' | 'n')
    }
    fn text(self) -> String {
        let t = match self.leaf {
            't' => "true",
            'f' => "false",
            'n' => "null",
            '0' => "0",
            'x' => "\"x\"",
            _ => "7",
        };
        if self.wrapped {
            format!("({t})")
        } else {
            t.to_string()
        }
    }
}

/// Lazy evaluation.  `defect` = rsass' known behaviour: a parenthesised
/// sub-expression whose value is null stays wrapped and counts as truthy.
fn eval(t: &Tree, defect: bool, top: bool, ticks: &mut u32, failing: bool) -> Result<MVal, ()> {
    match t {
        Tree::Leaf('B') => {
            if failing {
                Err(())
            } else {
                *ticks += 1;
                Ok(MVal { leaf: '7', wrapped: false })
            }
        }
        Tree::Leaf(c) => Ok(MVal { leaf: *c, wrapped: false }),
        Tree::Bin(op, l, r) => {
            let a = eval(l, defect, false, ticks, failing)?;
            let v = if (*op == '&') == a.truthy() {
                eval(r, defect, false, ticks, failing)?
            } else {
                a
            };
            Ok(if defect && !top && v.leaf == 'n' {
                MVal { leaf: 'n', wrapped: true }
            } else {
                v
            })
        }
    }
}

fn trees(ops: usize, leaves: &[char]) -> Vec<String> {
    if ops == 0 {
        return leaves.iter().map(|c| c.to_string()).collect();
    }
    let mut out = Vec::new();
    for i in 0..ops {
        let ls = trees(i, leaves);
        let rs_ = trees(ops - 1 - i, leaves);
        for op in ['&', '|'] {
            for l in &ls {
                for r in &rs_ {
                    out.push(format!("{op}{l}{r}"));
                }
            }
        }
    }
    out
}

fn main() {
    let ck = Check::from_args("C14");
    let quick = ck.quick();
    ck.rule("operand alphabet of 41 expressions (one per value kind and derivation); not: operands x 7 forms; and-or-value: ordered pairs x {and,or} x {inline,var}; short-circuit: operands x {and,or} x 5 right operands x 5 contexts; lazy-trees: all parenthesised and/or trees up to the operator bound over 6 leaves x 2 bomb kinds; outcome = printed result (and evaluation counter)");
    ck.assume("inspect() and type-of() of rsass are used to identify which operand a logical operator returned (relational: compared with inspect() of the operand in the same stylesheet)");

    // ---- section 1: not
    let forms = ["print-inline", "print-var", "print-paren", "double", "if-inline", "if-var", "at-if"];
    let mut nots = Vec::new();
    for x in OPERANDS {
        for f in forms {
            nots.push(NotCase { x: x.expr.into(), form: f.into() });
        }
    }
    ck.run("not", "every operand x 7 spellings/contexts", nots.into_iter(), |c: &NotCase| {
        let Some(x) = operand(&c.x) else {
            return Verdict::fail("replayed operand is not in the alphabet");
        };
        let e = x.expr;
        let not_x = !x.truthy;
        let (body, want): (String, String) = match c.form.as_str() {
            "print-inline" => (format!("a{{r:inspect(not {e})}}"), not_x.to_string()),
            "print-var" => (format!("$x:{e};a{{r:inspect(not $x)}}"), not_x.to_string()),
            "print-paren" => (format!("a{{r:inspect(not ({e}))}}"), not_x.to_string()),
            "double" => (format!("$x:{e};a{{r:inspect(not not $x)}}"), x.truthy.to_string()),
            "if-inline" => (format!("a{{r:if(not {e}, y, n)}}"), if not_x { "y" } else { "n" }.into()),
            "if-var" => (format!("$x:{e};a{{r:if(not $x, y, n)}}"), if not_x { "y" } else { "n" }.into()),
            _ => (
                format!("$x:{e};@if not $x {{a{{r:y}}}} @else {{a{{r:n}}}}"),
                if not_x { "y" } else { "n" }.into(),
            ),
        };
        let src = format!("{}{body}\n", prelude(&body));
        let d = match rs::compile_str(&src, Fmt::EXPANDED) {
            Out::Css(css) => decls(&css),
            Out::Panic(p) => return Verdict::fail_sig(format!("panic:{}", panic_site(&p)), format!("panic {p} on {body}")),
            Out::Err(er) => return Verdict::fail(format!("{body}: error {:?}", head(&er))),
        };
        let got = get(&d, "r").unwrap_or("<missing>");
        if got == want {
            return Verdict::pass(&(got, &c.form));
        }
        // known-defect variant: `not` of a value that is neither a boolean nor a
        // number is left as an unevaluated unary operation, which prints as
        // `not ...` and is truthy.
        let unevaluated_kind = matches!(x.kind, Kind::Other | Kind::ParenNull);
        if unevaluated_kind {
            let printed = c.form.starts_with("print") || c.form == "double";
            if printed && got.starts_with("not") {
                return Verdict::fail_sig(
                    "not-left-unevaluated",
                    format!("{body}: got {got:?}, expected {want}"),
                );
            }
            if !printed && got == "y" && want == "n" {
                return Verdict::fail_sig(
                    "not-left-unevaluated-is-truthy",
                    format!("{body}: took the true branch; `not {e}` must be false"),
                );
            }
        }
        Verdict::fail(format!("{body}: got {got:?}, expected {want}"))
    });

    // ---- section 2: and/or return the selected operand
    let mut pairs = Vec::new();
    for mode in ["var", "inline"] {
        for op in ["and", "or"] {
            for a in OPERANDS {
                for b in OPERANDS {
                    pairs.push(PairCase { a: a.expr.into(), b: b.expr.into(), op: op.into(), mode: mode.into() });
                }
            }
        }
    }
    ck.run(
        "and-or-value",
        "all ordered operand pairs x {and,or} x {inline,var}",
        pairs.into_iter(),
        |c: &PairCase| {
            let (Some(a), Some(_b)) = (operand(&c.a), operand(&c.b)) else {
                return Verdict::fail("replayed operand is not in the alphabet");
            };
            let (ea, eb, op) = (&c.a, &c.b, &c.op);
            let body = if c.mode == "inline" {
                format!("a{{r:inspect({ea} {op} {eb});t:type-of({ea} {op} {eb});x:inspect({ea});y:inspect({eb});u:type-of({ea});v:type-of({eb})}}")
            } else {
                format!("$a:{ea};$b:{eb};a{{r:inspect($a {op} $b);t:type-of($a {op} $b);x:inspect($a);y:inspect($b);u:type-of($a);v:type-of($b)}}")
            };
            let src = format!("{}{body}\n", prelude(&body));
            let d = match rs::compile_str(&src, Fmt::EXPANDED) {
                Out::Css(css) => decls(&css),
                Out::Panic(p) => {
                    return Verdict::fail_sig(format!("panic:{}", panic_site(&p)), format!("panic {p} on {body}"))
                }
                Out::Err(er) => return Verdict::fail(format!("{body}: error {:?}", head(&er))),
            };
            let f = |n: &str| get(&d, n).unwrap_or("<missing>").to_string();
            let (r, t, x, y, u, v) = (f("r"), f("t"), f("x"), f("y"), f("u"), f("v"));
            let first = (op == "and") != a.truthy; // result is the left operand
            let (wr, wt) = if first { (&x, &u) } else { (&y, &v) };
            if &r == wr && &t == wt {
                return Verdict::pass(&(r, t, first));
            }
            if a.kind == Kind::ParenNull {
                let (dr, dt) = if first { (&y, &v) } else { (&x, &u) };
                if &r == dr && &t == dt {
                    return Verdict::fail_sig(
                        "parenthesised-null-is-truthy",
                        format!("{ea} {op} {eb} ({}) gave {r} ({t}), expected {wr} ({wt})", c.mode),
                    );
                }
            }
            Verdict::fail(format!(
                "{ea} {op} {eb} ({}) gave {r} ({t}), expected the {} operand {wr} ({wt})",
                c.mode,
                if first { "left" } else { "right" }
            ))
        },
    );

    // ---- section 3: the right operand is evaluated only when needed
    let mut scs = Vec::new();
    for ctx in ["decl", "if-fn", "at-if", "var", "return"] {
        for bomb in ["undef", "boom", "builtin", "undef-arg", "tick"] {
            for op in ["and", "or"] {
                for a in OPERANDS {
                    scs.push(ScCase { a: a.expr.into(), op: op.into(), bomb: bomb.into(), ctx: ctx.into() });
                }
            }
        }
    }
    ck.run(
        "short-circuit",
        "every operand x {and,or} x 5 failing/counting right operands x 5 contexts",
        scs.into_iter(),
        |c: &ScCase| {
            let Some(a) = operand(&c.a) else {
                return Verdict::fail("replayed operand is not in the alphabet");
            };
            let bomb = match c.bomb.as_str() {
                "undef" => "$undefined",
                "boom" => "boom()",
                "builtin" => "nth((), 1)",
                "undef-arg" => "inspect($undefined)",
                _ => "tick()",
            };
            let e = format!("{} {} {bomb}", c.a, c.op);
            let body = match c.ctx.as_str() {
                "decl" => format!("a{{r:inspect({e});x:inspect({});n:$n}}", c.a),
                "if-fn" => format!("a{{r:if({e}, y, n);n:$n}}"),
                "at-if" => format!("@if {e} {{a{{r:y;n:$n}}}} @else {{a{{r:n;n:$n}}}}"),
                "var" => format!("$r:{e};a{{r:inspect($r);x:inspect({});n:$n}}", c.a),
                _ => format!("@function g(){{@return {e}}}a{{r:inspect(g());x:inspect({});n:$n}}", c.a),
            };
            let src = format!("{}{body}\n", prelude(&body));
            let out = rs::compile_str(&src, Fmt::EXPANDED);
            if let Out::Panic(p) = &out {
                return Verdict::fail_sig(format!("panic:{}", panic_site(p)), format!("panic {p} on {body}"));
            }
            let branch_ctx = c.ctx == "if-fn" || c.ctx == "at-if";
            // prediction for "the left operand is truthy = `lt`"
            let predict = |lt: bool| -> (bool, Option<String>, u32) {
                // (error expected, r (None = left operand's text), n)
                let needed = (c.op == "and") == lt;
                if needed {
                    if c.bomb == "tick" {
                        (false, Some(if branch_ctx { "y".into() } else { "7".into() }), 1)
                    } else {
                        (true, None, 0)
                    }
                } else if branch_ctx {
                    (false, Some(if lt { "y".into() } else { "n".into() }), 0)
                } else {
                    (false, None, 0)
                }
            };
            let matches = |p: &(bool, Option<String>, u32)| -> Result<String, String> {
                match (&out, p.0) {
                    (Out::Err(er), true) => {
                        let h = head(er);
                        let ok = match c.bomb.as_str() {
                            "undef" | "undef-arg" => h.contains("Undefined variable"),
                            "boom" => h.contains("boom"),
                            _ => true,
                        };
                        if ok {
                            Ok(format!("error:{}", c.bomb))
                        } else {
                            Err(format!("unexpected error text {h:?}"))
                        }
                    }
                    (Out::Err(er), false) => Err(format!("right operand was evaluated (error {:?}) although not needed", head(er))),
                    (Out::Css(_), true) => Err("no error although the failing right operand is needed".into()),
                    (Out::Css(css), false) => {
                        let d = decls(css);
                        let r = get(&d, "r").unwrap_or("<missing>");
                        let n = get(&d, "n").unwrap_or("<missing>");
                        let want_r = match &p.1 {
                            Some(t) => t.as_str(),
                            None => get(&d, "x").unwrap_or("<missing>"),
                        };
                        if r == want_r && n == p.2.to_string() {
                            Ok(format!("{r}/{n}"))
                        } else {
                            Err(format!("got r={r} n={n}, expected r={want_r} n={}", p.2))
                        }
                    }
                    (Out::Panic(_), _) => Err("panic".into()),
                }
            };
            match matches(&predict(a.truthy)) {
                Ok(obs) => Verdict::pass(&(obs, &c.ctx)),
                Err(why) => {
                    if a.kind == Kind::ParenNull && matches(&predict(true)).is_ok() {
                        return Verdict::fail_sig(
                            "parenthesised-null-is-truthy",
                            format!("{body}: {why}"),
                        );
                    }
                    Verdict::fail(format!("{body}: {why}"))
                }
            }
        },
    );

    // ---- section 4: lazy evaluation in nested expressions
    let max_ops = if quick { 2 } else { 3 };
    let leaves = ['t', 'f', 'n', '0', 'x', 'B'];
    let mut tcases = Vec::new();
    let mut push_tree = |t: String, tcases: &mut Vec<TreeCase>| {
        if !t.contains('B') {
            // without a bomb the tree is still a value test; run it once
            tcases.push(TreeCase { tree: t, bomb: "tick".into() });
            return;
        }
        for bomb in ["undef", "tick"] {
            tcases.push(TreeCase { tree: t.clone(), bomb: bomb.into() });
        }
    };
    for k in 1..=max_ops {
        for t in trees(k, &leaves) {
            push_tree(t, &mut tcases);
        }
    }
    let deep_leaves = ['t', 'f', 'n', 'B'];
    if !quick {
        // one operator more over the truthiness-relevant leaves only
        for t in trees(4, &deep_leaves) {
            push_tree(t, &mut tcases);
        }
    }
    let bound = if quick {
        "all fully parenthesised and/or trees with 1..=2 operators over 6 leaves {true,false,null,0,\"x\",BOMB} x 2 bomb kinds".to_string()
    } else {
        "all fully parenthesised and/or trees with 1..=3 operators over 6 leaves {true,false,null,0,\"x\",BOMB} and with 4 operators over {true,false,null,BOMB} x 2 bomb kinds".to_string()
    };
    ck.run(
        "lazy-trees",
        &bound,
        tcases.into_iter(),
        |c: &TreeCase| {
            let Some(t) = parse_tree(&mut c.tree.chars()) else {
                return Verdict::fail("malformed tree in case");
            };
            let failing = c.bomb == "undef";
            let expr = render(&t, &c.bomb, true);
            let body = format!("a{{r:inspect({expr});n:$n}}");
            let src = format!("{}{body}\n", prelude(&body));
            let out = rs::compile_str(&src, Fmt::EXPANDED);
            let obs: Result<(String, String), ()> = match &out {
                Out::Css(css) => {
                    let d = decls(css);
                    Ok((
                        get(&d, "r").unwrap_or("<missing>").to_string(),
                        get(&d, "n").unwrap_or("<missing>").to_string(),
                    ))
                }
                Out::Err(er) if head(er).contains("Undefined variable") => Err(()),
                Out::Err(er) => return Verdict::fail(format!("{expr}: unexpected error {:?}", head(er))),
                Out::Panic(p) => {
                    return Verdict::fail_sig(format!("panic:{}", panic_site(p)), format!("panic {p} on {expr}"))
                }
            };
            let model = |defect: bool| -> Result<(String, String), ()> {
                let mut ticks = 0;
                let v = eval(&t, defect, true, &mut ticks, failing)?;
                Ok((v.text(), ticks.to_string()))
            };
            let want = model(false);
            if obs == want {
                return Verdict::pass(&obs);
            }
            if obs == model(true) {
                return Verdict::fail_sig(
                    "parenthesised-null-is-truthy",
                    format!("{expr}: got {obs:?}, expected {want:?} (Err = evaluation of the undefined variable)"),
                );
            }
            Verdict::fail(format!(
                "{expr}: got {obs:?}, expected {want:?} (Err = evaluation of the undefined variable)"
            ))
        },
    );

    ck.finish()
}
