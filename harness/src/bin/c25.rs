//! C25 Selector parsing and printing round-trip.
//!
//! Space: a selector text grammar
//!  * `names`        identifier forms (plain, non-ASCII, `-`/`_`/`--` prefixes,
//!                   digit-leading through hex escapes with/without terminator,
//!                   escaped punctuation, escaped space, control and NUL escapes,
//!                   escaped `-`, `_`, escaped non-leading digits, raw digit-leading)
//!                   in every name position (type, class, id, attribute name and
//!                   value, pseudo-class/-element name, namespace prefix and local
//!                   name) x surrounding contexts;
//!  * `name-pairs`   two identifier forms side by side in eight templates (escape
//!                   terminator against combinator / next simple selector);
//!  * `attributes`   name (with namespaces) x all operators x value forms
//!                   (identifier, quoted both ways, empty, digits, escapes, quotes
//!                   in quotes) x modifiers x whitespace;
//!  * `nth`          the four nth pseudos x An+B spellings x `of <selector>`;
//!  * `pseudo-args`  selector pseudos and other functional pseudos x arguments
//!                   (lists, combinators, leading combinators, nesting);
//!  * `complex`      compounds x combinators in every whitespace spelling, chains
//!                   of three, compounds of up to three simple selectors, lists
//!                   with every comma spelling, leading combinators;
//!  * `quoted-arg`   the same text handed to selector.parse as a plain quoted
//!                   string instead of string.unquote(..).
//! Oracle (relational): with P = print(selector.parse(S)) (declaration value):
//! print(parse(P)) == P and parse(P) == parse(S) (Sass `==` on the list
//! values), and the selector emitted for `S{x:y}` == P.  Nothing is claimed
//! when selector.parse rejects S.

use serde::{Deserialize, Serialize};
use vp::report::{Check, Verdict};
use vp::rs::{self, Fmt, Out};

#[derive(Clone, Debug, Hash, Serialize, Deserialize)]
struct Case {
    s: String,
}

/// Sass double-quoted string literal whose value is `s` (escaping `\` and `"`).
fn q(s: &str) -> String {
    let mut o = String::from("\"");
    for ch in s.chars() {
        if ch == '"' || ch == '\\' {
            o.push('\\');
        }
        o.push(ch);
    }
    o.push('"');
    o
}

const USE: &str = "@use \"sass:selector\";@use \"sass:string\";";

/// Compile `a{p0:<e0>;...}`; printed values by index (None = omitted/null).
fn props(exprs: &[String]) -> Result<Vec<Option<String>>, Out> {
    let mut src = String::from(USE);
    src.push_str("\na{");
    for (i, e) in exprs.iter().enumerate() {
        src.push_str(&format!("p{i}:{e};"));
    }
    src.push_str("}\n");
    match rs::compile_str(&src, Fmt::EXPANDED) {
        Out::Css(css) => {
            let mut out = vec![None; exprs.len()];
            for line in css.lines() {
                if let Some(rest) = line.strip_prefix("  p") {
                    if let Some((n, v)) = rest.split_once(": ") {
                        if let (Ok(i), Some(v)) = (n.parse::<usize>(), v.strip_suffix(';')) {
                            if i < out.len() {
                                out[i] = Some(v.to_string());
                            }
                        }
                    }
                }
            }
            Ok(out)
        }
        o => Err(o),
    }
}

fn panic_site(p: &str) -> String {
    // file + normalised message (no line number): survives unrelated edits
    vp::rs::panic_site(p)
}

/// The selector text of the single rule emitted for `S{x:y}`.
fn emitted(s: &str) -> Result<Option<String>, Out> {
    match rs::compile_str(&format!("{s}{{x:y}}"), Fmt::EXPANDED) {
        Out::Css(css) => {
            let css = css.strip_prefix("@charset \"UTF-8\";\n").or_else(|| css.strip_prefix('\u{feff}')).unwrap_or(&css);
            if css.trim().is_empty() {
                return Ok(None);
            }
            match css.strip_suffix(" {\n  x: y;\n}\n") {
                Some(sel) if !sel.contains('{') => Ok(Some(sel.to_string())),
                _ => Ok(Some(format!("<<unexpected output {css:?}>>"))),
            }
        }
        o => Err(o),
    }
}

fn parse_expr(s: &str) -> String {
    format!("selector.parse(string.unquote({}))", q(s))
}

fn judge(c: &Case) -> Verdict {
    let s = &c.s;
    // 1. P = print(parse(S)); the transport (string.unquote of the literal) must deliver S
    let r1 = match props(&[parse_expr(s), format!("string.unquote({})", q(s))]) {
        Ok(v) => v,
        Err(Out::Panic(p)) => return Verdict::fail_sig(format!("panic:{}", panic_site(&p)), format!("selector.parse({s:?}): panic {p}")),
        Err(_) => {
            // selector.parse rejects S: nothing claimed; the rule must not panic either
            return match emitted(s) {
                Err(Out::Panic(p)) => Verdict::fail_sig(format!("panic:{}", panic_site(&p)), format!("`{s}{{x:y}}`: panic {p}")),
                _ => Verdict::Trivial,
            };
        }
    };
    let Some(p1) = r1[0].clone() else {
        return Verdict::fail(format!("selector.parse({s:?}) is null"));
    };
    if r1[1].as_deref() != Some(s.as_str()) {
        return Verdict::fail_sig("transport", format!("string.unquote({}) prints {:?}, not the selector text {s:?}", q(s), r1[1]));
    }
    // 2. reparse the printed form
    let r2 = match props(&[parse_expr(&p1), format!("{} == {}", parse_expr(&p1), parse_expr(s))]) {
        Ok(v) => v,
        Err(Out::Panic(p)) => return Verdict::fail_sig(format!("panic:{}", panic_site(&p)), format!("selector.parse({p1:?}) (printed form of {s:?}): panic {p}")),
        Err(o) => {
            return classify_reparse(s, &p1, format!(
                "selector.parse({s:?}) prints {p1:?}, which selector.parse rejects: {}",
                o.err_head().unwrap_or("")
            ))
        }
    };
    if r2[0].as_deref() != Some(p1.as_str()) {
        return classify_reparse(s, &p1, format!("selector.parse({s:?}) prints {p1:?}; parsing that prints {:?}", r2[0]));
    }
    if r2[1].as_deref() != Some("true") {
        return classify_reparse(s, &p1, format!("selector.parse({p1:?}) == selector.parse({s:?}) is {:?} although both print {p1:?}", r2[1]));
    }
    // 3. the emitted selector
    match emitted(s) {
        Err(Out::Panic(p)) => Verdict::fail_sig(format!("panic:{}", panic_site(&p)), format!("`{s}{{x:y}}`: panic {p}")),
        Err(o) => classify_rule(s, &p1, None, format!("selector.parse accepts {s:?} (prints {p1:?}) but `{s}{{x:y}}` fails: {}", o.err_head().unwrap_or(""))),
        Ok(None) => classify_rule(s, &p1, None, format!("selector.parse({s:?}) prints {p1:?} but `{s}{{x:y}}` emits nothing")),
        Ok(Some(e)) => {
            if e == p1 {
                Verdict::pass(&p1)
            } else {
                classify_rule(s, &p1, Some(&e), format!("selector.parse({s:?}) prints {p1:?} but `{s}{{x:y}}` emits {e:?}"))
            }
        }
    }
}

// ---------------------------------------------------------------- known-defect variants

/// Resolve CSS escapes (`\\41 `, `\\.`) in `t`.
fn decode(t: &str) -> String {
    let cs: Vec<char> = t.chars().collect();
    let mut o = String::new();
    let mut i = 0;
    while i < cs.len() {
        if cs[i] == '\\' && i + 1 < cs.len() {
            let mut j = i + 1;
            let mut v = 0u32;
            while j < cs.len() && j < i + 7 && cs[j].is_ascii_hexdigit() {
                v = v * 16 + cs[j].to_digit(16).unwrap_or(0);
                j += 1;
            }
            if j > i + 1 {
                if j < cs.len() && cs[j] == ' ' {
                    j += 1;
                }
                o.push(if v == 0 { '\u{fffd}' } else { char::from_u32(v).unwrap_or('\u{fffd}') });
                i = j;
            } else {
                o.push(cs[i + 1]);
                i += 2;
            }
        } else {
            o.push(cs[i]);
            i += 1;
        }
    }
    o
}

/// Canonical form of one attribute selector body (between the brackets):
/// name, operator, decoded value content (quotes and escapes resolved), modifier.
fn canon_attr_body(body: &str) -> String {
    let cs: Vec<char> = body.chars().collect();
    // first `=` outside quotes
    let mut eq = None;
    let mut quote: Option<char> = None;
    let mut i = 0;
    while i < cs.len() {
        let c = cs[i];
        if let Some(qc) = quote {
            if c == '\\' {
                i += 1;
            } else if c == qc {
                quote = None;
            }
        } else if c == '"' || c == '\'' {
            quote = Some(c);
        } else if c == '\\' {
            i += 1;
        } else if c == '=' {
            eq = Some(i);
            break;
        }
        i += 1;
    }
    let Some(eq) = eq else {
        return format!("[{}]", body.trim());
    };
    let (name_end, op) = if eq > 0 && "~|^$*".contains(cs[eq - 1]) { (eq - 1, format!("{}=", cs[eq - 1])) } else { (eq, "=".to_string()) };
    let name: String = cs[..name_end].iter().collect();
    let rest: Vec<char> = cs[eq + 1..].iter().collect::<String>().trim().chars().collect();
    let (value, tail): (String, String) = if !rest.is_empty() && (rest[0] == '"' || rest[0] == '\'') {
        let qc = rest[0];
        let mut j = 1;
        while j < rest.len() && rest[j] != qc {
            if rest[j] == '\\' {
                j += 1;
            }
            j += 1;
        }
        let j = j.min(rest.len());
        (rest[1..j].iter().collect(), rest[(j + 1).min(rest.len())..].iter().collect())
    } else {
        let mut j = 0;
        while j < rest.len() && !rest[j].is_whitespace() {
            if rest[j] == '\\' {
                let mut k = j + 1;
                while k < rest.len() && k < j + 7 && rest[k].is_ascii_hexdigit() {
                    k += 1;
                }
                if k > j + 1 {
                    if k < rest.len() && rest[k] == ' ' {
                        k += 1;
                    }
                    j = k;
                } else {
                    j += 2;
                }
            } else {
                j += 1;
            }
        }
        let j = j.min(rest.len());
        (rest[..j].iter().collect(), rest[j..].iter().collect())
    };
    format!("[{}{}\u{27e6}{}\u{27e7}{}]", name.trim(), op, decode(&value), tail.trim())
}

/// `t` with every attribute selector replaced by its canonical form.
fn canon_attrs(t: &str) -> String {
    let cs: Vec<char> = t.chars().collect();
    let mut o = String::new();
    let mut i = 0;
    while i < cs.len() {
        if cs[i] == '\\' && i + 1 < cs.len() {
            o.push(cs[i]);
            o.push(cs[i + 1]);
            i += 2;
        } else if cs[i] == '[' {
            let mut j = i + 1;
            let mut quote: Option<char> = None;
            while j < cs.len() {
                let c = cs[j];
                if let Some(qc) = quote {
                    if c == '\\' {
                        j += 1;
                    } else if c == qc {
                        quote = None;
                    }
                } else if c == '"' || c == '\'' {
                    quote = Some(c);
                } else if c == '\\' {
                    j += 1;
                } else if c == ']' {
                    break;
                }
                j += 1;
            }
            let j = j.min(cs.len());
            let body: String = cs[i + 1..j].iter().collect();
            o.push_str(&canon_attr_body(&body));
            i = j + 1;
        } else {
            o.push(cs[i]);
            i += 1;
        }
    }
    o
}

/// Known-defect variant "the Sass-side selector parser decodes escapes": predicts the
/// emitted text from the printed parse result: outside quotes `\\-` becomes `-` unless
/// it starts a string part, and a digit escape `\\3D ` directly after `#` or `|`
/// becomes the digit.
fn escape_variant(p1: &str) -> String {
    let cs: Vec<char> = p1.chars().collect();
    let mut o = String::new();
    let mut quote: Option<char> = None;
    let mut i = 0;
    while i < cs.len() {
        let c = cs[i];
        if let Some(qc) = quote {
            o.push(c);
            if c == '\\' && i + 1 < cs.len() {
                o.push(cs[i + 1]);
                i += 1;
            } else if c == qc {
                quote = None;
            }
            i += 1;
            continue;
        }
        if c == '"' || c == '\'' {
            quote = Some(c);
            o.push(c);
            i += 1;
        } else if c == '\\' && i + 1 < cs.len() {
            // the first character of a Sass-side string part (start of a compound, after
            // `:`, `[`, `=`) keeps its escape
            let part_start = i == 0 || cs[i - 1].is_whitespace() || matches!(cs[i - 1], '>' | '+' | '~' | ',' | '(' | ':' | '[' | '=');
            if cs[i + 1] == '-' && !part_start {
                o.push('-');
                i += 2;
            } else if cs[i + 1] == '3'
                && i + 3 < cs.len()
                && cs[i + 2].is_ascii_digit()
                && cs[i + 3] == ' '
                && i > 0
                && (cs[i - 1] == '#' || cs[i - 1] == '|')
            {
                o.push(cs[i + 2]);
                i += 4;
            } else {
                o.push(c);
                o.push(cs[i + 1]);
                i += 2;
            }
        } else {
            o.push(c);
            i += 1;
        }
    }
    o
}

/// A selector pseudo `:is(...)` whose argument has a leading combinator: Sass
/// (and rsass) omit such bogus selectors from the output.
fn bogus_is_arg(s: &str) -> bool {
    let t: String = s.chars().filter(|c| !c.is_whitespace()).collect();
    let mut rest = t.as_str();
    while let Some(i) = rest.find(":is(") {
        let arg = &rest[i + 4..];
        let mut depth = 0i32;
        let mut at_start = true;
        for ch in arg.chars() {
            if at_start && depth == 0 && matches!(ch, '>' | '+' | '~') {
                return true;
            }
            at_start = false;
            match ch {
                '(' | '[' => depth += 1,
                ')' | ']' => {
                    depth -= 1;
                    if depth < 0 {
                        break;
                    }
                }
                ',' if depth == 0 => at_start = true,
                _ => {}
            }
        }
        rest = arg;
    }
    false
}

fn classify_reparse(_s: &str, p1: &str, detail: String) -> Verdict {
    // known-defect variant: printing decodes every escape >= U+00A1 to the raw
    // character, but the parser's plain name characters are alphanumerics, `-`, `_` only
    // (repaired in /repo, 4a9f638: no longer an accepted explanation)
    let _ = p1;
    Verdict::fail(detail)
}

/// Split at top-level commas.
fn top_items(t: &str) -> Vec<String> {
    let mut out = Vec::new();
    let mut cur = String::new();
    let mut depth = 0i32;
    let mut quote: Option<char> = None;
    let mut esc = false;
    for ch in t.chars() {
        if esc {
            cur.push(ch);
            esc = false;
            continue;
        }
        if ch == '\\' {
            cur.push(ch);
            esc = true;
            continue;
        }
        if let Some(qc) = quote {
            cur.push(ch);
            if ch == qc {
                quote = None;
            }
            continue;
        }
        match ch {
            '"' | '\'' => {
                quote = Some(ch);
                cur.push(ch);
            }
            '(' | '[' => {
                depth += 1;
                cur.push(ch);
            }
            ')' | ']' => {
                depth -= 1;
                cur.push(ch);
            }
            ',' if depth == 0 => out.push(std::mem::take(&mut cur)),
            c => cur.push(c),
        }
    }
    out.push(cur);
    out
}

fn classify_rule(s: &str, p1: &str, e: Option<&str>, detail: String) -> Verdict {
    // Sass omits complex selectors with a bogus `:is(<leading combinator>)` from the
    // output: the claim is about the remaining ones
    if bogus_is_arg(s) {
        let kept: Vec<String> = top_items(p1).iter().filter(|it| !bogus_is_arg(it)).map(|it| it.trim().to_string()).collect();
        let want = if kept.is_empty() { None } else { Some(kept.join(", ")) };
        if !detail.contains("fails:") && want.as_deref() == e {
            return match &want {
                Some(w) => Verdict::pass(w),
                None => Verdict::Trivial,
            };
        }
    }
    // known-defect variant: in a rule, a backslash right after descendant whitespace is
    // taken for a combinator-like `\\` part by the Sass-side selector parser
    // (parser/selectors.rs RelOp(b'\\\\')): the emitted text has a free-standing `\\ `
    // there, or the rule is rejected
    let outside_brackets: String = {
        let mut depth = 0i32;
        s.chars()
            .filter(|c| {
                match c {
                    '[' => depth += 1,
                    ']' => depth -= 1,
                    _ => {}
                }
                depth == 0
            })
            .collect()
    };
    if outside_brackets.contains(" \\") {
        match e {
            Some(e) if e.contains(" \\ ") => return Verdict::fail_sig("rule-backslash-after-space", detail),
            None if detail.contains("fails:") => return Verdict::fail_sig("rule-backslash-after-space", detail),
            _ => {}
        }
    }
    match e {
        Some(e) => {
            let ev = escape_variant(p1);
            if ev == e {
                Verdict::fail_sig("rule-escape-decoded", detail)
            } else if canon_attrs(p1) == canon_attrs(e) {
                Verdict::fail_sig("rule-attr-value-reserialised", detail)
            } else if canon_attrs(&ev) == canon_attrs(e) {
                Verdict::fail_sig("rule-escape-decoded+attr-value-reserialised", detail)
            } else {
                Verdict::fail(detail)
            }
        }
        None => {
            if detail.contains("emits nothing") {
                if bogus_is_arg(s) {
                    return Verdict::Trivial;
                }
                return Verdict::fail(detail);
            }
            // the rule is rejected although selector.parse accepts the text
            let t: String = s.chars().filter(|c| !c.is_whitespace()).collect();
            if t.contains("[*|") {
                Verdict::fail_sig("rule-rejects-attr-universal-ns", detail)
            } else if s.contains("((") {
                Verdict::fail_sig("rule-rejects-paren-arg", detail)
            } else {
                Verdict::fail(detail)
            }
        }
    }
}

// ---------------------------------------------------------------- grammar

fn names(quick: bool) -> Vec<&'static str> {
    let mut v = vec![
        "a", "B", "é", "日本", "a-b", "_x", "-x", "--x", "a1", "\\31 x", "\\31x", "\\000031 x", "\\31 ", "\\31", "a\\.b", "a\\ b", "\\e9 x", "\\e9",
        "a\\31 ", "a\\31 b", "\\-x", "\\2d x", "\\*", "a\\:b", "\\@x", "\\40 x", "\\7f x", "\\a x", "\\0 x", "\\_x", "\\5f x", "a\\21 b", "a\\21b", "1a",
        "-1", "-\\31 x", "a\\\\b",
    ];
    if !quick {
        v.extend([
            "\\E9x", "--\\31", "\\1F600 x", "😀", "a😀", "a\\,b", "\\\\", "\\31\\32", "\\31 \\32 ", "a\\(b\\)", "\\#a", "\\.a", "a\\+b", "a\\~", "\\>a", "\\31 -",
            "\\d800 x", "\\110000 x", "\\9 x", "\\20 x", "a\\20 b", "a\\9 b", "\\ffx", "ǅ", "a\u{301}", "\u{a0}x", "a\u{200d}b", "\\80 x", "a\\a0 b", "Ａ",
        ]);
    }
    v
}

const POSITIONS: &[&str] = &[
    "N", ".N", "#N", "[N]", "[N=v]", "[t=N]", "[t=\"N\"]", "[t='N']", ":N", "::N", ":N(x)", "N|a", "ns|N", "*|N", "|N", "[N|t]", "[ns|N]",
];
const CONTEXTS: &[&str] = &["{}", "x {}", "{}.k", "{} > y", ":not({})", "k, {}", "{}:hover"];

fn gen_names(quick: bool) -> Vec<Case> {
    let mut v = Vec::new();
    for ctx in CONTEXTS {
        for pos in POSITIONS {
            for n in names(quick) {
                // quoted attribute values with NUL / invalid code point / space escapes are
                // string-literal escapes (C27's domain), not identifier forms
                if pos.contains(['"', '\'']) && ["\\0 x", "\\d800 x", "\\110000 x", "\\20 x", "a\\20 b"].contains(&n) {
                    continue;
                }
                let sel = pos.replace('N', n);
                v.push(Case { s: ctx.replace("{}", &sel) });
            }
        }
    }
    v
}

/// Two identifier forms side by side: escape terminators against combinators
/// and against the next simple selector.
fn gen_name_pairs(quick: bool) -> Vec<Case> {
    let all = names(false);
    let ns: Vec<&str> = if quick { all.iter().copied().step_by(2).collect() } else { all };
    let templates = [".A.B", "A B", ".A>.B", "#A.B", ".A:B", "A|B", ".A, .B", "[A=B]"];
    let mut v = Vec::new();
    for t in templates {
        for a in &ns {
            for b in &ns {
                v.push(Case { s: t.replace('A', "\u{1}").replace('B', "\u{2}").replace('\u{1}', a).replace('\u{2}', b) });
            }
        }
    }
    v
}

fn gen_attributes(quick: bool) -> Vec<Case> {
    let anames: &[&str] = if quick { &["t", "ns|t"] } else { &["t", "ns|t", "*|t", "|t", "T", "data-x"] };
    let ops = ["=", "~=", "|=", "^=", "$=", "*="];
    let values = [
        "v", "\"v\"", "'v'", "\"a b\"", "\"\"", "''", "1", "\"1\"", "é", "\"é\"", "\\31 x", "\"a\\\"b\"", "'a\\'b'", "\"a\\\\b\"", "--x", "\"--x\"", "\"-\"",
        "\"a'b\"", "'a\"b'", "\"\\e9\"", "\"a\\a b\"", "\"a\\62 c\"", "\"a-b\"", "a-b", "\"a\\-b\"", "\"[x]\"", "\"a,b\"", "\" \"",
    ];
    let mods: &[&str] = if quick { &["", " i", "i"] } else { &["", " i", " s", " I", "i", "  i "] };
    let mut v = Vec::new();
    for n in anames {
        v.push(Case { s: format!("[{n}]") });
        v.push(Case { s: format!("[ {n} ]") });
        for op in ops {
            for val in values {
                for m in mods {
                    v.push(Case { s: format!("[{n}{op}{val}{m}]") });
                    if !quick || (*n == "t" && m.len() < 2) {
                        v.push(Case { s: format!("[ {n} {op} {val}{m} ]") });
                    }
                    if !quick {
                        v.push(Case { s: format!("a[{n}{op}{val}{m}].k") });
                        v.push(Case { s: format!(":not([{n}{op}{val}{m}])") });
                        v.push(Case { s: format!("x > [{n}{op}{val}{m}], y") });
                    }
                }
            }
        }
    }
    v
}

fn gen_nth(quick: bool) -> Vec<Case> {
    let pnames = ["nth-child", "nth-last-child", "nth-of-type", "nth-last-of-type"];
    let args = [
        "2n+1", "2n + 1", " 2n+1 ", "-n+3", "odd", "even", "EVEN", "3", "n", "+n", "-n", "2n-1", "2n - 1", "-2n - 1", "2N+1", "+3", "-3", "0n+1", "n+0", "2n+ 1",
        "2n +1", "+2n+1", "-2n+1", "10n+10",
    ];
    let ofs: &[&str] = if quick { &["", " of .x", " of a, .b"] } else { &["", " of .x", " of a, .b", " of :not(.x)", " of a > b", "  of  .x "] };
    let ctxs: &[&str] = if quick { &["{}"] } else { &["{}", "a{}", "{} > b", ":not({})"] };
    let mut v = Vec::new();
    for ctx in ctxs {
        for n in pnames {
            for a in args {
                for of in ofs {
                    v.push(Case { s: ctx.replace("{}", &format!(":{n}({a}{of})")) });
                }
            }
        }
    }
    v
}

fn gen_pseudo_args(quick: bool) -> Vec<Case> {
    let pnames = [
        ":not", ":is", ":where", ":has", ":matches", ":any", ":-moz-any", ":-webkit-any", ":host", ":host-context", "::slotted", ":current", "::cue", ":NOT",
        ":unknown", "::part", ":lang", ":dir", "::highlight",
    ];
    let args = [
        ".a", "a, .b", "a > b", "a b, c", "> a", "+ a, ~ b", ":is(.a)", ":not(:is(.a, b))", " a , .b ", "a>b", "*", "[t=\"v\"]", ".\\31 x", "en", "\"en\"", "x y",
        "1 + 2", "(a)", "[x]", "a,b", "a:hover::before", "ns|a", "#i.c[t]", "a ~ b + c", ":has(> a)", ":nth-child(2n+1 of .x)", "é", "a\\.b",
    ];
    let ctxs: &[&str] = if quick { &["{}", "a{}"] } else { &["{}", "a{}", "{} b", "{}::before", "b > {}", ".k{}, c"] };
    let mut v = Vec::new();
    for ctx in ctxs {
        for n in pnames {
            for a in args {
                v.push(Case { s: ctx.replace("{}", &format!("{n}({a})")) });
            }
        }
    }
    v
}

fn gen_complex(quick: bool) -> Vec<Case> {
    let comps: &[&str] = &["a", "*", ".c", "#i", "[t=v]", ":hover", "::before", "a.c", "ns|a", ":not(.c)", ".\\31 x", "é"];
    let combs: &[&str] = &[" ", "  ", "\t", ">", " > ", "> ", " >", "+", " + ", "~", " ~ ", " >  "];
    let mut v = Vec::new();
    let c2: &[&str] = if quick { &comps[..6] } else { comps };
    for a in c2 {
        for k in combs {
            for b in c2 {
                v.push(Case { s: format!("{a}{k}{b}") });
            }
        }
    }
    // chains of three
    let c3: &[&str] = if quick { &["a", ".c"] } else { &["a", ".c", "#i", ":hover", "*"] };
    let k3: &[&str] = if quick { &[" ", ">", " + "] } else { &[" ", ">", " > ", "+", " ~ ", "~"] };
    for a in c3 {
        for k1 in k3 {
            for b in c3 {
                for k2 in k3 {
                    for c in c3 {
                        v.push(Case { s: format!("{a}{k1}{b}{k2}{c}") });
                    }
                }
            }
        }
    }
    // compounds of up to three simple selectors (every order the grammar allows to write)
    let simp: &[&str] = &[".c", ".d", "#i", "[t]", "[t=v]", ":hover", "::before", ":not(.c)", ":nth-child(2n+1)", ".\\31 x", "::after", ":focus", "[u=\"w\" i]", "#j"];
    let types = ["", "a", "*", "ns|a", "*|*"];
    let s2: &[&str] = if quick { &simp[..7] } else { simp };
    for t in types {
        for x in s2 {
            v.push(Case { s: format!("{t}{x}") });
            for y in s2 {
                v.push(Case { s: format!("{t}{x}{y}") });
                if !quick {
                    for z in simp {
                        v.push(Case { s: format!("{t}{x}{y}{z}") });
                    }
                }
            }
        }
    }
    // lists
    let items = ["a", ".c", "a > b", "a b", ":not(.c, .d)", "#i.c", "> a", "é"];
    let seps: &[&str] = if quick { &[",", ", "] } else { &[",", ", ", " , ", " ,", ",  "] };
    for a in items {
        for sep in seps {
            for b in items {
                v.push(Case { s: format!("{a}{sep}{b}") });
                if !quick {
                    v.push(Case { s: format!("{a}{sep}{b}{sep}{a}") });
                }
            }
        }
    }
    // leading combinators and outer whitespace
    for s in ["> a", ">a", "+ a", "~ a", "> a > b", "+ a, ~ b", " a", "a ", " a , b ", "> .c.d", "~ *"] {
        v.push(Case { s: s.to_string() });
    }
    v
}

fn main() {
    let ck = Check::from_args("C25");
    let quick = ck.quick();
    ck.rule("selector text grammar: identifier forms x name positions x contexts; attribute name x operator x value form x modifier x whitespace; nth pseudos x An+B spellings x of-selector; selector/functional pseudos x arguments; compounds x combinator spellings, chains, multi-simple compounds, lists, leading combinators; distinct = distinct selector texts; outcome = the printed selector");
    ck.assume("string.unquote(\"<text with \\\\ and \\\" escaped>\") delivers the text unchanged to selector.parse (checked per case: the same expression printed as a declaration value must equal the text)");
    ck.assume("Sass `==` on the lists returned by selector.parse compares them structurally");

    ck.run("names", "identifier forms x 17 name positions x 7 contexts", gen_names(false).into_iter(), judge);
    ck.run("name-pairs", "identifier form x identifier form in 8 two-name templates", gen_name_pairs(quick).into_iter(), judge);
    ck.run("attributes", "name x operator x value form x modifier x whitespace", gen_attributes(quick).into_iter(), judge);
    ck.run("nth", "4 nth pseudos x An+B spellings x of-selectors x contexts", gen_nth(false).into_iter(), judge);
    ck.run("pseudo-args", "functional pseudos x arguments x contexts", gen_pseudo_args(false).into_iter(), judge);
    ck.run("complex", "combinator spellings, chains of three, compounds of up to three simple selectors, lists, leading combinators", gen_complex(quick).into_iter(), judge);

    // ---- quoted-arg: the plain quoted string route
    let mut qa = gen_names(false);
    qa.truncate(names(false).len() * POSITIONS.len());
    qa.extend(gen_attributes(true));
    {
        let mut seen = std::collections::HashSet::new();
        qa.retain(|c| seen.insert(c.s.clone()));
    }
    ck.run("quoted-arg", "names (bare context) and attributes handed over as a plain quoted string", qa.into_iter(), |c: &Case| {
        let r = match props(&[parse_expr(&c.s)]) {
            Ok(v) => v,
            Err(Out::Panic(p)) => return Verdict::fail_sig(format!("panic:{}", panic_site(&p)), format!("panic {p}")),
            Err(_) => return Verdict::Trivial,
        };
        let direct = props(&[format!("selector.parse({})", q(&c.s))]);
        match direct {
            Err(Out::Panic(p)) => Verdict::fail_sig(format!("panic:{}", panic_site(&p)), format!("selector.parse({}): panic {p}", q(&c.s))),
            Ok(d) if d[0] == r[0] => Verdict::pass(&d),
            other => {
                let got = match &other {
                    Ok(d) => format!("{:?}", d[0]),
                    Err(o) => format!("error: {}", o.err_head().unwrap_or("")),
                };
                let detail = format!("selector.parse({}) gives {got}, but {:?} for the same text through string.unquote", q(&c.s), r[0]);
                // known-defect variant: a quoted string keeps its escapes in the stored
                // text (`\\\\` stays two characters), so the selector parser sees every
                // backslash of the text doubled
                if c.s.contains('\\') {
                    let doubled = c.s.replace('\\', "\\\\");
                    let want = props(&[parse_expr(&doubled)]);
                    let same = match (&other, &want) {
                        (Ok(d), Ok(w)) => d[0] == w[0],
                        (Err(Out::Err(_)), Err(Out::Err(_))) => true,
                        _ => false,
                    };
                    if same {
                        return Verdict::fail_sig("quoted-backslash-doubled", detail);
                    }
                }
                Verdict::fail(detail)
            }
        }
    });

    ck.finish()
}
